#!/usr/bin/env python3
"""Regenerates the machine-generated tables of DESIGN.md section 8 (between the GENERATED markers) from
evidence/*.json, known_findings.json and seeded/*/meta.json."""
import glob, json, os, re
ROOT = os.path.dirname(os.path.abspath(__file__))
man = json.load(open(os.path.join(ROOT, "manifest_checks.json")))
out = []
out.append("| id | level | all-shapes obligations discharged / total | shape-bounded obligations | bounded evaluations (quick) | known findings reported | functions under contract |")
out.append("|----|-------|-------------------------------------------|--------------------------|-----------------------------|-------------------------|--------------------------|")
for pid in [f"C{i:02d}" for i in range(1, 21)]:
    p = os.path.join(ROOT, "evidence", pid + ".json")
    if not os.path.exists(p):
        out.append(f"| {pid} | - | no evidence file | | | | |")
        continue
    e = json.load(open(p))
    c = e["coverage"]
    fu = c.get("functions_under_contract") or []
    names = sorted({(f.get("function") or f.get("name") or str(f)) .split("::")[-1] if isinstance(f, dict) else f.split("::")[-1] for f in fu})
    out.append(f"| {pid} | {man.get(pid, {}).get('level', '-')} | {c.get('discharged')} / {c.get('obligations')} | {c.get('shape_bounded_obligations_discharged', 0)} / {c.get('shape_bounded_obligations', 0)} | "
               f"{c.get('evaluations')} | {len(c.get('known_findings_reported') or [])} | {', '.join(names[:8])}{' ...' if len(names) > 8 else ''} |")
tab1 = "\n".join(out)

kf = json.load(open(os.path.join(ROOT, "known_findings.json")))["findings"]
o2 = ["| property | kind | commit | what failed |", "|----------|------|--------|-------------|"]
for f in kf:
    o2.append(f"| {f['property']} | {f['kind']} | {f.get('commit', '')} | {f['text'][:420].replace('|', '/')} |")
tab2 = "\n".join(o2)

o3 = ["| seed | needs, in order to manifest | caught by |", "|------|------------------------------|-----------|"]
for d in sorted(glob.glob(os.path.join(ROOT, "seeded", "*"))):
    mp = os.path.join(d, "meta.json")
    if not os.path.exists(mp):
        continue
    m = json.load(open(mp))
    o3.append(f"| {os.path.basename(d)} | {m.get('needs_to_manifest', '').replace('|', '/')} | {'; '.join(m.get('caught_by', [])).replace('|', '/')} |")
tab3 = "\n".join(o3)

path = os.path.join(ROOT, "DESIGN.md")
s = open(path).read()
for tag, tab in (("STATUS", tab1), ("FINDINGS", tab2), ("SEEDS", tab3)):
    a, b = f"<!-- GENERATED:{tag} -->", f"<!-- /GENERATED:{tag} -->"
    if a in s and b in s:
        s = s[:s.index(a) + len(a)] + "\n" + tab + "\n" + s[s.index(b):]
open(path, "w").write(s)
print("DESIGN.md tables regenerated")
