#!/usr/bin/env python3
"""Writes qv/loop_signatures.json: for every loop of every function of the repository files under contract, the loop variable and the
iterated expression (For) / the test (While), keyed "<file>::<qualified function>#<ordinal>".  The sidecar loop rules are keyed by
(function, ordinal); this file records WHICH loop each ordinal was when the rules were written, so that a restructured function
(loops added, removed, reordered, vectorised) makes the rules inapplicable - obligations undecided - instead of attaching an invariant
to a loop it was not written for.  By default only the loop variable and the number of loops of the function are compared (a changed
range expression of the same loop is a change the rules are meant to judge); rules that replace a loop body by a closed form compare the
iterated expression and the assigned names as well (their own `expects`).  Regenerate (and review the rules) when the loops of a function under contract change on purpose."""
import ast, json, os, sys
REPO = sys.argv[1] if len(sys.argv) > 1 else "/repo"
FILES = ["quatica/utils.py", "quatica/solver.py", "quatica/decomp/qsvd.py", "quatica/decomp/LU.py", "quatica/decomp/eigen.py", "quatica/decomp/tridiagonalize.py",
         "quatica/decomp/hessenberg.py", "quatica/decomp/schur.py", "quatica/tensor.py", "quatica/data_gen.py", "quatica/qslst.py"]
out = {}
for rel in FILES:
    tree = ast.parse(open(os.path.join(REPO, rel)).read())

    def visit(node, prefix):
        for ch in node.body:
            if isinstance(ch, ast.ClassDef):
                visit(ch, prefix + ch.name + ".")
            elif isinstance(ch, ast.FunctionDef):
                loops = sorted([n for n in ast.walk(ch) if isinstance(n, (ast.For, ast.While))], key=lambda n: (n.lineno, n.col_offset))
                for k, lp in enumerate(loops):
                    tgt = lp.target.id if isinstance(lp, ast.For) and isinstance(lp.target, ast.Name) else (ast.unparse(lp.target) if isinstance(lp, ast.For) else None)
                    src = ast.unparse(lp.iter if isinstance(lp, ast.For) else lp.test).replace(" ", "")
                    out[f"{rel}::{prefix}{ch.name}#{k}"] = {"target": tgt, "iter": src, "loops_in_function": len(loops)}
    visit(tree, "")
json.dump(out, open(os.path.join(os.path.dirname(os.path.abspath(__file__)), "qv", "loop_signatures.json"), "w"), indent=0, sort_keys=True)
print(len(out), "loops")
