#!/bin/bash
# tools_run_all.sh [tier] [jobs]: run every registered check against /repo, JOBS at a time; summary lines to out/run_all_<tier>.log
cd "$(dirname "$0")"
TIER=${1:-quick}; JOBS=${2:-4}
mkdir -p out
ls qv/props/c[0-9][0-9].py | sed 's#.*/c\([0-9]*\).py#C\1#' | xargs -P $JOBS -I{} sh -c "./check {} --tier $TIER > out/run_{}_$TIER.log 2>&1; echo \"{} exit=\$?\" >> out/run_{}_$TIER.log"
for f in out/run_C*_$TIER.log; do grep -E "^\[|VIOLATION|KNOWN-FINDING|INTERNAL|exit=" $f | cut -c1-200; done | tee out/run_all_$TIER.log | grep -E "^\[|VIOLATION|INTERNAL|exit=[^0]"
