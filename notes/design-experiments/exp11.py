import numpy as np, quaternion, warnings, itertools
from fractions import Fraction
warnings.filterwarnings("ignore")
from quatica.utils import *
from quatica import tensor as T, qslst as L
from quatica.solver import QGMRESSolver
from scipy import sparse
def Q(arr): return quaternion.as_quat_array(np.asarray(arr,float))
fn=quat_frobenius_norm
TAB={(0,0):(1,0),(0,1):(1,1),(0,2):(1,2),(0,3):(1,3),(1,0):(1,1),(1,1):(-1,0),(1,2):(1,3),(1,3):(-1,2),(2,0):(1,2),(2,1):(-1,3),(2,2):(-1,0),(2,3):(1,1),(3,0):(1,3),(3,1):(1,2),(3,2):(-1,1),(3,3):(-1,0)}
def ham_oracle(A,B):  # A (m,k,4) B (k,n,4) ints
    m,k,_=A.shape; n=B.shape[1]; C=np.zeros((m,n,4))
    for i in range(m):
        for j in range(n):
            for l in range(k):
                for a in range(4):
                    for b in range(4):
                        s,c=TAB[(a,b)]; C[i,j,c]+=s*A[i,l,a]*B[l,j,b]
    return C
def to_sparse(Af): return SparseQuaternionMatrix(*(sparse.csr_matrix(Af[...,c]) for c in range(4)),Af.shape[:2])
def dense_of(X):
    if isinstance(X,SparseQuaternionMatrix): return np.stack([X.real.toarray(),X.i.toarray(),X.j.toarray(),X.k.toarray()],-1)
    return quaternion.as_float_array(X)
bad=0;tot=0
for (m,k,n) in itertools.product((1,2,3),repeat=3):
  for (ia,ja,ib,jb) in itertools.product(range(m),range(k),range(k),range(n)):
    for a in range(4):
      for b in range(4):
        Af=np.zeros((m,k,4)); Bf=np.zeros((k,n,4)); Af[ia,ja,a]=1; Bf[ib,jb,b]=1
        exp=ham_oracle(Af,Bf)
        for sa in (0,1):
          for sb in (0,1):
            A=to_sparse(Af) if sa else Q(Af); B=to_sparse(Bf) if sb else Q(Bf)
            C=dense_of(quat_matmat(A,B)); tot+=1
            if not np.array_equal(C,exp): bad+=1
        C=np.stack(timesQsparse(*(Af[...,c] for c in range(4)),*(Bf[...,c] for c in range(4))),-1); tot+=1
        if not np.array_equal(C,exp): bad+=1
print("C01 basis enumeration: bad",bad,"of",tot)
# C02 quick
r=np.random.default_rng(0); bad=0
for (m,k,n) in [(1,1,1),(2,3,1),(3,2,4)]:
    A=Q(r.integers(-3,4,(m,k,4))); B=Q(r.integers(-3,4,(k,n,4)))
    ok1=np.array_equal(real_expand(quat_matmat(A,B)),real_expand(A)@real_expand(B)); ok2=np.array_equal(real_expand(quat_hermitian(A)),real_expand(A).T)
    ok3=np.array_equal(quaternion.as_float_array(real_contract(real_expand(A),m,k)),quaternion.as_float_array(A))
    Ac=[quaternion.as_float_array(A)[...,c] for c in range(4)]; Bc=[quaternion.as_float_array(B)[...,c] for c in range(4)]; Cc=[quaternion.as_float_array(quat_matmat(A,B))[...,c] for c in range(4)]
    ok4=np.array_equal(Realp(*Ac)@Realp(*Bc),Realp(*Cc))
    print("C02",(m,k,n),ok1,ok2,ok3,ok4, abs(np.linalg.norm(real_expand(A))-2*fn(A))<1e-12)
for n in (1,2,3):
    A=Q(r.integers(-3,4,(n,n,4))); B=Q(r.integers(-3,4,(n,n,4)))
    print("adjoint",n,np.allclose(quaternion_to_complex_adjoint(quat_matmat(A,B)),quaternion_to_complex_adjoint(A)@quaternion_to_complex_adjoint(B)),np.allclose(quaternion_to_complex_adjoint(quat_hermitian(A)),quaternion_to_complex_adjoint(A).conj().T),abs(np.linalg.norm(quaternion_to_complex_adjoint(A))-np.sqrt(2)*fn(A))<1e-12)
# C15 agreement
A=Q(r.standard_normal((3,4,4))); Ac=[quaternion.as_float_array(A)[...,c] for c in range(4)]
vals=[quat_frobenius_norm(A),matrix_norm(A),matrix_norm(A,'fro'),matrix_norm(A,'F'),normQ(A),normQsparse(*Ac),normQsparse(*[sparse.csr_matrix(x) for x in Ac]),T.tensor_frobenius_norm(A),quat_frobenius_norm(to_sparse(quaternion.as_float_array(A)))]
print("C15 fro agree",np.ptp(vals)<1e-12, "norm1",abs(induced_matrix_norm_1(A)-np.abs(A).sum(0).max())<1e-12,"inf",abs(induced_matrix_norm_inf(A)-np.abs(A).sum(1).max())<1e-12)
v=Q(r.standard_normal((3,4)));vc=[quaternion.as_float_array(v)[...,c] for c in range(4)]; print("normQsparse vector",abs(normQsparse(*vc)-np.sqrt((quaternion.as_float_array(v)**2).sum()))<1e-12)
# C18
bad=0
for shp in itertools.product((1,2,3),repeat=3):
    Tn=Q(r.integers(-5,6,shp+(4,)))
    for mo in range(3):
        M=T.tensor_unfold(Tn,mo); F=T.tensor_fold(M,mo,shp)
        if not np.array_equal(quaternion.as_float_array(F),quaternion.as_float_array(Tn)): bad+=1
        dims=[shp[mo]]+[s for i,s in enumerate(shp) if i!=mo]
        if M.shape!=(shp[mo],int(np.prod(shp))//shp[mo]): bad+=1
        # fibre check
        others=[i for i in range(3) if i!=mo]
        for idx in itertools.product(*(range(shp[o]) for o in others)):
            sl=[None]*3; sl[mo]=slice(None); sl[others[0]]=idx[0]; sl[others[1]]=idx[1]
            col=idx[0]*shp[others[1]]+idx[1]
            if not np.array_equal(quaternion.as_float_array(M[:,col]),quaternion.as_float_array(Tn[tuple(sl)])): bad+=1
print("C18 tensor bad",bad)
rgb=r.random((2,3,3)); print("rgb roundtrip",np.array_equal(L.quat_to_rgb(L.rgb_to_quat(rgb,0.5)),rgb), "rgb 1.2:",np.array_equal(L.quat_to_rgb(L.rgb_to_quat(rgb*1.3)),rgb*1.3), "255:",np.array_equal(L.quat_to_rgb(L.rgb_to_quat(rgb*255)),rgb*255))
print("psnr equal",L.psnr(rgb,rgb), "relerr equal",L.relative_error(rgb,rgb))
