import ast, sys
from nc import NC, lift
SRC=open('/repo/quatica/utils.py').read(); TREE=ast.parse(SRC)
def getfn(tree,name,cls=None):
    for n in ast.walk(tree):
        if isinstance(n,ast.ClassDef) and n.name==cls:
            for m in n.body:
                if isinstance(m,ast.FunctionDef) and m.name==name: return m
        if cls is None and isinstance(n,ast.FunctionDef) and n.name==name: return n
class QMat:  # dense quaternion matrix = 4 real NC comps
    def __init__(s,c): s.c=list(c)
class FloatView:
    def __init__(s,q): s.q=q
class Ret(Exception):
    def __init__(s,v): s.v=v
def ev(e,env):
    if isinstance(e,ast.Name): return env[e.id]
    if isinstance(e,ast.Constant): return e.value
    if isinstance(e,ast.BinOp):
        l,r=ev(e.left,env),ev(e.right,env)
        if isinstance(e.op,ast.MatMult): return l@r
        if isinstance(e.op,ast.Sub): return l-r
        if isinstance(e.op,ast.Add): return l+r
        if isinstance(e.op,ast.Mult): return l*r
    if isinstance(e,ast.UnaryOp) and isinstance(e.op,ast.USub): return -ev(e.operand,env)
    if isinstance(e,ast.Tuple): return tuple(ev(x,env) for x in e.elts)
    if isinstance(e,ast.List): return [ev(x,env) for x in e.elts]
    if isinstance(e,ast.Subscript):
        v=ev(e.value,env)
        if isinstance(v,FloatView):
            sl=e.slice
            assert isinstance(sl,ast.Tuple) and isinstance(sl.elts[0],ast.Constant) and sl.elts[0].value is Ellipsis
            return v.q.c[sl.elts[1].value]
    if isinstance(e,ast.Call):
        f=ast.unparse(e.func); a=[ev(x,env) for x in e.args]; kw={k.arg:ev(k.value,env) for k in e.keywords}
        if f=='quaternion.as_float_array': return FloatView(a[0])
        if f=='np.stack': assert kw.get('axis')==-1; return FloatView(QMat(a[0]))
        if f=='quaternion.as_quat_array': return a[0].q
        if f=='isinstance': return False
    raise NotImplementedError(ast.dump(e)[:200])
def run(fn,env):
    def block(stmts):
        for s in stmts:
            if isinstance(s,ast.Expr) and isinstance(s.value,ast.Constant): continue
            if isinstance(s,ast.Assign):
                v=ev(s.value,env); t=s.targets[0]
                if isinstance(t,ast.Tuple):
                    for n,x in zip(t.elts,v): env[n.id]=x
                else: env[t.id]=v
            elif isinstance(s,ast.If):
                block(s.body if ev(s.test,env) else s.orelse)
            elif isinstance(s,ast.Return): raise Ret(ev(s.value,env))
            else: raise NotImplementedError(ast.dump(s)[:100])
    try: block(fn.body)
    except Ret as r: return r.v
A=QMat([NC.atom('A'+c) for c in 'wxyz']); B=QMat([NC.atom('B'+c) for c in 'wxyz'])
C=run(getfn(TREE,'quat_matmat'),{'A':A,'B':B,'SparseQuaternionMatrix':None})
# spec from quaternion group table
tab={('w','w'):(1,'w'),('w','x'):(1,'x'),('w','y'):(1,'y'),('w','z'):(1,'z'),
     ('x','w'):(1,'x'),('x','x'):(-1,'w'),('x','y'):(1,'z'),('x','z'):(-1,'y'),
     ('y','w'):(1,'y'),('y','x'):(-1,'z'),('y','y'):(-1,'w'),('y','z'):(1,'x'),
     ('z','w'):(1,'z'),('z','x'):(1,'y'),('z','y'):(-1,'x'),('z','z'):(-1,'w')}
spec={c:NC.const(0) for c in 'wxyz'}
for (a,b),(sg,c) in tab.items(): spec[c]=spec[c]+sg*(NC.atom('A'+a)@NC.atom('B'+b))
print([C.c[i]==spec[c] for i,c in enumerate('wxyz')])
print(C.c[1])
