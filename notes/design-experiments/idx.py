import z3, time
def prove(name, hyps, goal, timeout=30000):
    s=z3.Solver(); s.set("timeout",timeout); s.add(*hyps); s.add(z3.Not(goal))
    t=time.time(); r=s.check(); print(name, r, round(time.time()-t,3))
    return r
I,J,K,i,j,k,p,q,r=z3.Ints("I J K i j k p q r")
# reshape lemma: (i*K+k) div K == i, mod == k
prove("divmod direct", [K>0,0<=k,k<K,i>=0], z3.And((i*K+k)/K==i,(i*K+k)%K==k))
# via defining axioms only (q,r fresh quotient/remainder)
prove("divmod axioms", [K>0,0<=k,k<K,i>=0, i*K+k==q*K+r, 0<=r, r<K], z3.And(q==i,r==k))
# pad_psf: 1-D: H, kH, u: target index (u-c) mod H ; code index: (u - c) mod kH placed at same index in pad if < kH
H,kH,u,a=z3.Ints("H kH u a")
c=kH/2
def mod1(x,n): # x in [-n, 2n)
    return z3.If(x<0,x+n,z3.If(x>=n,x-n,x))
# code: psf_shifted[a] = psf[(a + c) mod kH]  (np.roll by -c: out[a] = in[(a+c) mod kH]); pad[a] = psf_shifted[a] for a<kH else 0
# spec: pad[(u-c) mod H] = psf[u]  <=> for a = (u-c) mod H : a<kH and (a+c) mod kH == u
a_spec = mod1(u-c,H)
goal = z3.And(a_spec<kH, mod1(a_spec+c,kH)==u)
r=prove("pad centred (expect sat=refuted when kH<H)", [kH>=1,H>=kH,0<=u,u<kH], goal)
s=z3.Solver(); s.add(kH>=1,H>=kH,0<=u,u<kH, z3.Not(goal)); s.check(); print(" model:",s.model())
# fixed code: pad[:kH]=psf; pad=roll(pad,-c): out[a]=pad0[(a+c) mod H]; pad0[b]=psf[b] if b<kH else 0
b=mod1(a_spec+c,H)
prove("pad centred fixed", [kH>=1,H>=kH,0<=u,u<kH], z3.And(b<kH,b==u))
# zero elsewhere (fixed): for any a in [0,H): if pad0[(a+c) mod H] nonzero-cell i.e. b'<kH then a == (b'-c) mod H
prove("pad fixed injective", [kH>=1,H>=kH,0<=a,a<H, mod1(a+c,H)<kH], mod1(mod1(a+c,H)-c,H)==a)
# permutation invariant under swap (LU IP): arrays
IP=z3.Array("IP",z3.IntSort(),z3.IntSort()); m,x,y,s1,s2=z3.Ints("m x y s1 s2")
perm=lambda A: z3.And(z3.ForAll([x],z3.Implies(z3.And(0<=x,x<m),z3.And(0<=A[x],A[x]<m))),
                      z3.ForAll([x,y],z3.Implies(z3.And(0<=x,x<m,0<=y,y<m,x!=y),A[x]!=A[y])))
IP2=z3.Store(z3.Store(IP,s1,IP[s2]),s2,IP[s1])
prove("swap keeps permutation", [m>0,0<=s1,s1<m,0<=s2,s2<m,perm(IP)], perm(IP2))
