import numpy as np, quaternion, warnings, itertools, traceback
warnings.filterwarnings("ignore")
from quatica.utils import *
from quatica.decomp import *
def Q(arr): return quaternion.as_quat_array(np.asarray(arr,float))
def rq(m,n,seed=0):
    r=np.random.default_rng(seed); return Q(r.standard_normal((m,n,4)))
def H(A): return quat_hermitian(A)
def mm(*a):
    r=a[0]
    for x in a[1:]: r=quat_matmat(r,x)
    return r
fn=quat_frobenius_norm
def diagq(v,m=None,n=None):
    k=len(v); D=Q(np.zeros((m or k,n or k,4)))
    for i in range(k): D[i,i]=quaternion.quaternion(v[i],0,0,0)
    return D
bad=0; tot=0
for (m,n) in [(3,3),(5,3),(3,5),(6,6),(2,7),(8,4)]:
  for rk in range(1,min(m,n)+1):
    A=mm(rq(m,rk,1),rq(rk,n,2))
    _,strue,_=classical_qsvd_full(A)
    for R in range(1,min(m,n)+1):
      for P in (0,2,10):
        for fnm,kw in (("rand",dict(n_iter=0)),("rand",dict(n_iter=2)),("pass",dict(n_passes=2)),("pass",dict(n_passes=3)),("pass",dict(n_passes=4))):
          np.random.seed(R*7+P); tot+=1
          try:
            U,s,V=(rand_qsvd if fnm=="rand" else pass_eff_qsvd)(A,R,oversample=P,**kw)
            oU=fn(mm(H(U),U)-quat_eye(U.shape[1])); oV=fn(mm(H(V),V)-quat_eye(V.shape[1]))
            rec=fn(A-mm(U,diagq(s),H(V))); opt=np.sqrt(np.sum(strue[R:]**2))
            ok = U.shape==(m,R) and V.shape==(n,R) and oU<1e-8 and oV<1e-8 and rec>=opt-1e-8 and rec<=fn(A)+1e-8 and np.all(s<=strue[:R]+1e-8) and (rk>R or rec<1e-8)
            if not ok:
                bad+=1
                if rk>=R: print("BAD",(m,n),"rk",rk,"R",R,"P",P,fnm,kw,"shapes",U.shape,V.shape,"oU %.1e oV %.1e rec %.2e opt %.2e"%(oU,oV,rec,opt), "s",np.round(s,3),"st",np.round(strue[:R],3))
          except Exception as e:
            bad+=1
            if True: print("EXC",(m,n),"rk",rk,"R",R,"P",P,fnm,kw,type(e).__name__,str(e)[:80])
print("bad",bad,"of",tot)
