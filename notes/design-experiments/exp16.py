import numpy as np, quaternion, warnings
warnings.filterwarnings("ignore")
import quatica; print(quatica.__file__)
from quatica.utils import *
from quatica.decomp import *
from quatica.decomp.qsvd import qr_qua
from quatica.decomp.LU import quaternion_tril
from quatica.data_gen import generate_random_unitary_matrix
def Q(arr): return quaternion.as_quat_array(np.asarray(arr,float))
def rq(m,n,seed=0):
    r=np.random.default_rng(seed); return Q(r.standard_normal((m,n,4)))
def H(A): return quat_hermitian(A)
def mm(*a):
    r=a[0]
    for x in a[1:]: r=quat_matmat(r,x)
    return r
fn=quat_frobenius_norm
def diagq(v):
    n=len(v); D=Q(np.zeros((n,n,4)))
    for i in range(n): D[i,i]=quaternion.quaternion(v[i],0,0,0)
    return D
for (m,n) in [(1,1),(1,3),(2,4),(3,5),(2,7),(3,3),(4,2)]:
    for seed in range(3):
        A=rq(m,n,seed); Qm,R=qr_qua(A); k=min(m,n)
        print("qr",(m,n),Qm.shape,R.shape,"recon %.1e orth %.1e tril %.1e diagimag %.1e"%(fn(mm(Qm,R)-A),fn(mm(H(Qm),Qm)-quat_eye(k)),fn(quaternion_tril(R,-1)), max(abs(quaternion.as_float_array(R[i,i])[1:]).max() for i in range(k))))
np.random.seed(1)
for spec in ([1,1,2,3],[2,2,2,5],[1,1,1,1],[0,0,1,2],[3,3,3,3,1,1],[1,2,3],[-1,-1,4]):
    n=len(spec); U=generate_random_unitary_matrix(n); A=mm(U,diagq(spec),H(U)); A=0.5*(A+H(A))
    w,V=quaternion_eigendecomposition(A)
    print(spec,"eig",np.round(np.sort(w.real),6),w.dtype,"VhV %.1e AV-VL %.1e"%(fn(mm(H(V),V)-quat_eye(n)),fn(mm(A,V)-mm(V,diagq(w.real)))))
