import numpy as np, quaternion, warnings
warnings.filterwarnings("ignore")
from quatica.utils import *
from quatica.solver import _solve_lower_triangular_quat,_solve_upper_triangular_quat
from quatica.decomp.LU import quaternion_triu, quaternion_tril
def Q(arr): return quaternion.as_quat_array(np.asarray(arr,float))
def rq(m,n,seed=0):
    r=np.random.default_rng(seed); return Q(r.standard_normal((m,n,4)))
fn=quat_frobenius_norm
for n in (1,2,3):
  for k in (1,2,4):
    R=quaternion_triu(rq(n,n,1)); X=rq(n,k,2); B=quat_matmat(R,X)
    Rc=quaternion.as_float_array(R); Bc=quaternion.as_float_array(B).copy()
    try:
        y=UtriangleQsparse(*(Rc[...,c].copy() for c in range(4)),*(Bc[...,c].copy() for c in range(4)))
        print("Utri n",n,"k",k,"err",fn(Q(np.stack(y,axis=-1))-X))
    except Exception as e: print("Utri n",n,"k",k,"EXC",type(e).__name__,str(e)[:90])
    print("   dense upper err",fn(_solve_upper_triangular_quat(R,B)-X), "lower err", fn(_solve_lower_triangular_quat(quaternion_tril(rq(n,n,3)),quat_matmat(quaternion_tril(rq(n,n,3)),X))-X))
# Hess_QR_ggivens contract check
def hessqr_check(k,seed,zero_sub=None):
    r=np.random.default_rng(seed); Hq=Q(r.standard_normal((k+1,k,4)))
    for i in range(k+1):
        for j in range(k):
            if i>j+1: Hq[i,j]=quaternion.quaternion(0,0,0,0)
    if zero_sub is not None: Hq[zero_sub+1,zero_sub]=quaternion.quaternion(0,0,0,0)
    Hc=quaternion.as_float_array(Hq); Hess=np.vstack([Hc[...,c] for c in range(4)])
    W,R=Hess_QR_ggivens(Hess.copy())
    W0,W1,W2,W3=A2A0123(W); R0,R1,R2,R3=A2A0123(R)
    Wq=Q(np.stack([W0,W1,W2,W3],-1)); Rq=Q(np.stack([R0,R1,R2,R3],-1))
    return Wq.shape,Rq.shape, fn(quat_matmat(Wq,Rq)-Hq), fn(quat_matmat(quat_hermitian(Wq),Wq)-quat_eye(Wq.shape[1])), fn(quaternion_tril(Rq,-1))
for k in (1,2,3,4): print("HessQR k",k,hessqr_check(k,0), "zero sub:",hessqr_check(k,1,zero_sub=0)[2:])
