import numpy as np, quaternion, warnings, itertools, hashlib, io, contextlib, inspect
warnings.filterwarnings("ignore")
import quatica
from quatica import utils as U, solver as S, tensor as T, qslst as L
from quatica.decomp import *
import importlib; LUm=importlib.import_module("quatica.decomp.LU"); HB=importlib.import_module("quatica.decomp.hessenberg"); SC=importlib.import_module("quatica.decomp.schur"); QS=importlib.import_module("quatica.decomp.qsvd"); TD=importlib.import_module("quatica.decomp.tridiagonalize"); EG=importlib.import_module("quatica.decomp.eigen")
def Q(arr): return quaternion.as_quat_array(np.asarray(arr,float))
def rq(m,n,seed=0):
    r=np.random.default_rng(seed); return Q(r.standard_normal((m,n,4)))
def H(A): return U.quat_hermitian(A)
def mm(*a):
    r=a[0]
    for x in a[1:]: r=U.quat_matmat(r,x)
    return r
fn=U.quat_frobenius_norm
def hsh(x):
    if isinstance(x,np.ndarray): return hashlib.sha1(np.ascontiguousarray(x).view(np.uint8)).hexdigest()
    if isinstance(x,U.SparseQuaternionMatrix): return tuple(hsh(c.toarray()) for c in (x.real,x.i,x.j,x.k))
    return repr(x)
# C14 argument mutation sweep
A=rq(4,4,1); Ah=0.5*(A+H(A)); At=rq(5,3,2); Aw=rq(3,5,3); b=rq(4,1,4)
calls={
 "quat_matmat":(U.quat_matmat,[A,A]),"fro":(U.quat_frobenius_norm,[A]),"herm":(U.quat_hermitian,[A]),"norm1":(U.induced_matrix_norm_1,[A]),"norm2":(U.spectral_norm_2,[A]),
 "real_expand":(U.real_expand,[A]),"rank":(U.rank,[At]),"null":(U.quat_null_space,[Aw]),"detD":(lambda X:U.det(X,"Dieudonne"),[A]),"detM":(lambda X:U.det(X,"Moore"),[Ah]),"isherm":(U.ishermitian,[Ah]),
 "power":(lambda X:U.power_iteration(X,return_eigenvalue=True),[Ah]),"power_nh":(U.power_iteration_nonhermitian,[A]),"adjoint":(U.quaternion_to_complex_adjoint,[A]),
 "qr":(QS.qr_qua,[At]),"qsvd":(QS.classical_qsvd_full,[At]),"qsvdR":(lambda X:QS.classical_qsvd(X,2),[At]),"rand":(lambda X:QS.rand_qsvd(X,2,oversample=2),[At]),"pass":(lambda X:QS.pass_eff_qsvd(X,2,oversample=2),[At]),
 "lu":(LUm.quaternion_lu,[At]),"luP":(lambda X:LUm.quaternion_lu(X,return_p=True),[A]),"triu":(LUm.quaternion_triu,[A]),
 "tridiag":(TD.tridiagonalize,[Ah]),"eig":(EG.quaternion_eigendecomposition,[Ah]),"hess":(HB.hessenbergize,[A]),
 "schur":(lambda X:SC.quaternion_schur(X,max_iter=50),[A]),"pure":(lambda X:SC.quaternion_schur_pure(X,max_iter=20),[A]),"impl":(lambda X:SC.quaternion_schur_pure_implicit(X,max_iter=20),[A]),"aed":(lambda X:SC.quaternion_schur_unified(X,variant="aed",max_iter=20),[A]),"exp":(lambda X:SC.quaternion_schur_experimental(X,max_iter=20),[A]),
 "ns":(S.NewtonSchulzPseudoinverse(max_iter=5).compute,[At]),"hon":(S.HigherOrderNewtonSchulzPseudoinverse(max_iter=5).compute,[At]),
 "gmres":(S.QGMRESSolver().solve,[A,b]),"gmres_lu":(S.QGMRESSolver(preconditioner="left_lu").solve,[A,b]),
 "rsp":(S.RandomizedSketchProjectPseudoinverse(max_iter=5,block_size=2,seed=0).compute,[At]),"rsp_row":(S.RandomizedSketchProjectPseudoinverse(max_iter=5,block_size=2,seed=0).compute,[Aw]),"hyb":(S.HybridRSPNewtonSchulz(max_iter=5,r=2,seed=0).compute,[At]),"cgne":(S.CGNEQSolver(max_iter=5).compute,[At]),
 "unfold":(lambda X:T.tensor_unfold(X,1),[rq(2,3,5).reshape(2,3,1)]),
}
sink=io.StringIO(); mut=[]
for nm,(f,args) in calls.items():
    args=[a.copy() for a in args]; h0=[hsh(a) for a in args]
    try:
        with contextlib.redirect_stdout(sink): f(*args)
    except Exception as e: print("EXC",nm,type(e).__name__,str(e)[:60])
    if [hsh(a) for a in args]!=h0: mut.append(nm)
print("mutating calls:",mut)
# kernels documented in-place
Hc=np.random.default_rng(0).standard_normal((8,1)); Hc0=Hc.copy(); U.Hess_QR_ggivens(Hc); print("Hess_QR mutates:",not np.array_equal(Hc,Hc0))
# self-state sweep
for nm,obj,args in [("ns",S.NewtonSchulzPseudoinverse(max_iter=5),[At]),("hon",S.HigherOrderNewtonSchulzPseudoinverse(max_iter=5),[At]),("gmres",S.QGMRESSolver(),[A,b]),("rsp",S.RandomizedSketchProjectPseudoinverse(max_iter=5,seed=0),[At]),("hyb",S.HybridRSPNewtonSchulz(max_iter=5,seed=0),[At]),("cgne",S.CGNEQSolver(max_iter=5),[At]),("deep",S.DeepLinearNewtonSchulz(max_iter=1),[At,[3,3]])]:
    d0=dict(obj.__dict__); 
    with contextlib.redirect_stdout(sink):
        (obj.compute if hasattr(obj,"compute") else obj.solve)(*args)
    ch={k:(d0[k],v) for k,v in obj.__dict__.items() if not (v is d0.get(k) or v==d0.get(k))}
    print("state",nm,ch)
