import sys, numpy as np, quaternion, warnings, itertools
warnings.filterwarnings("ignore")
from quatica.solver import *
from quatica.utils import *
from quatica.decomp import *
from quatica.decomp.qsvd import qr_qua
from quatica.decomp.schur import quaternion_schur_experimental
from quatica import qslst
def Q(arr): return quaternion.as_quat_array(np.asarray(arr,float))
def rq(m,n,seed=0):
    r=np.random.default_rng(seed); return Q(r.standard_normal((m,n,4)))
def H(A): return quat_hermitian(A)
def mm(*a):
    r=a[0]
    for x in a[1:]: r=quat_matmat(r,x)
    return r
fn=quat_frobenius_norm
# LU 3-cycle: want pivot sequence swaps (0<->2),(1<->2)
A=Q(np.zeros((3,3,4))); 
M=np.array([[1,2,3.],[2,1,0.5],[4,1,1]])
Af=np.zeros((3,3,4)); Af[...,0]=M; Af[...,1]=M.T*0.1; A=Q(Af)
L,U=quaternion_lu(A); print("LU 2-out err", fn(mm(L,U)-A))
L,U,P=quaternion_lu(A,return_p=True); print("LU 3-out err", fn(mm(L,U)-mm(P,A)), "P=",quaternion.as_float_array(P)[...,0].astype(int).tolist())
for seed in range(5):
    A=rq(4,4,seed); L,U=quaternion_lu(A); print(" rand4 2-out err", fn(mm(L,U)-A))
# pad psf
psf=np.arange(1,10.).reshape(3,3); psf/=psf.sum()
imp=np.zeros((6,6,4)); imp[2,3,:]=1
B=qslst.apply_blur_fft(imp,psf); print("blur impulse at (2,3):\n",np.round(B[...,0]*45,3))
# NS zero matrix
X,_,_=NewtonSchulzPseudoinverse(max_iter=3).compute(Q(np.zeros((2,3,4)))); print("NS zero:",X.ravel()[:2])
X,_,_=HigherOrderNewtonSchulzPseudoinverse(max_iter=3).compute(Q(np.zeros((2,3,4)))); print("HON zero:",X.ravel()[:2])
# qsvd repeated sv: random unitary
from quatica.data_gen import generate_random_unitary_matrix
np.random.seed(0)
Uu=generate_random_unitary_matrix(3)
print("unitary check", fn(mm(H(Uu),Uu)-quat_eye(3)))
U,s,V=classical_qsvd_full(Uu); S=Q(np.zeros((3,3,4))); 
for i in range(3): S[i,i]=quaternion.quaternion(s[i],0,0,0)
print("qsvd unitary: s",s,"UhU err",fn(mm(H(U),U)-quat_eye(3)),"recon",fn(mm(U,S,H(V))-Uu))
# rank-deficient: zeros repeated
B=mm(rq(4,1,1),rq(1,4,2)); U,s,V=classical_qsvd_full(B); print("rank1 4x4: s",s,"UhU err",fn(mm(H(U),U)-quat_eye(4)),"VhV",fn(mm(H(V),V)-quat_eye(4)))
N=quat_null_space(B); print("null shape",N.shape,"A N",fn(mm(B,N)),"N^H N - I",fn(mm(H(N),N)-quat_eye(N.shape[1])), "rank N", rank(N))
# QR wide
for (m,n) in [(2,4),(1,3),(3,3),(4,2)]:
    A=rq(m,n,5); Qm,R=qr_qua(A); print("qr",(m,n),"recon",fn(mm(Qm,R)-A),"orth",fn(mm(H(Qm),Qm)-quat_eye(Qm.shape[1])), "tril", fn(quaternion_tril(R,-1)))
A=mm(rq(4,1,1),rq(1,3,2)); Qm,R=qr_qua(A); print("qr rank1 4x3 recon",fn(mm(Qm,R)-A),"orth",fn(mm(H(Qm),Qm)-quat_eye(3)))
