import sys, numpy as np, quaternion, warnings, io, contextlib
warnings.filterwarnings("ignore")
import quatica; print(quatica.__file__)
from quatica.solver import *
from quatica.utils import *
from quatica.decomp.LU import quaternion_triu
def Q(arr): return quaternion.as_quat_array(np.asarray(arr,float))
def rq(m,n,seed=0):
    r=np.random.default_rng(seed); return Q(r.standard_normal((m,n,4)))
def H(A): return quat_hermitian(A)
def mm(*a):
    r=a[0]
    for x in a[1:]: r=quat_matmat(r,x)
    return r
fn=quat_frobenius_norm
def diagq(v):
    n=len(v); D=Q(np.zeros((n,n,4)))
    for i in range(n): D[i,i]=quaternion.quaternion(v[i],0,0,0)
    return D
def classes(n,seed):
    A=rq(n,n,seed); yield "generic",A
    yield "hermitian",0.5*(A+H(A))+quat_eye(n)*3
    yield "identity",quat_eye(n)
    yield "2I",quat_eye(n)*2.0
    u=rq(n,1,seed+5); yield "I+uuH",quat_eye(n)+mm(u,H(u))
    yield "triu",quaternion_triu(A)+quat_eye(n)*3
    yield "diagrep",diagq([1.0+(i%2) for i in range(n)])
    from quatica.decomp.qsvd import qr_qua
    yield "unitary",qr_qua(A)[0]
sink=io.StringIO(); bad=0;tot=0
for n in range(1,7):
  for seed in range(3):
    for nm,A0 in classes(n,seed):
      for sc in (1e-6,1e-3,1.0,1e3,1e6):
        A=A0*sc
        for rhsn,bb in (("generic",rq(n,1,seed+9)),("col",A0[:,:1].copy()),("zero",Q(np.zeros((n,1,4))))):
          b=bb*sc
          for prec in (None,"left_lu"):
            for tol in (1e-6,1e-12):
              tot+=1
              try:
                with contextlib.redirect_stdout(sink): x,info=QGMRESSolver(tol=tol,preconditioner=prec).solve(A,b)
              except Exception as e:
                bad+=1; print("EXC",n,nm,sc,rhsn,prec,tol,type(e).__name__,str(e)[:80]); continue
              true=fn(mm(A,x)-b)/(fn(b) if fn(b)>0 else 1)
              hist=[h[2] for h in info["residual_history"]]
              mono=all(hist[i+1]<=hist[i]*(1+1e-6)+1e-13 for i in range(len(hist)-1))
              ok = np.all(np.isfinite(quaternion.as_float_array(x))) and abs(info["residual"]-true)<=1e-9*max(1,true)+1e-13 and (not info["converged"] or true<=10*tol) and true<=max(100*tol,1e-9) and mono
              if not ok:
                bad+=1
                if bad<40: print("BAD",n,nm,"sc",sc,rhsn,prec,"tol",tol,"conv",info["converged"],"res",info["residual"],"true",true,"iters",info["iterations"],"mono",mono)
print("bad",bad,"of",tot)
