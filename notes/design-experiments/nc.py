# free *-algebra polynomials: dict word(tuple of (atom,transposed)) -> Fraction coeff (central scalars as commutative monomial part)
from fractions import Fraction
class NC:
    def __init__(s, terms=None): s.t={k:v for k,v in (terms or {}).items() if v!=0}
    @staticmethod
    def atom(n): return NC({((),((n,False),)):Fraction(1)})
    @staticmethod
    def scal(n): return NC({((n,),()):Fraction(1)})
    @staticmethod
    def const(c): return NC({((),()):Fraction(c)})
    def __add__(a,b):
        b=lift(b); d=dict(a.t)
        for k,v in b.t.items(): d[k]=d.get(k,0)+v
        return NC(d)
    __radd__=__add__
    def __neg__(a): return NC({k:-v for k,v in a.t.items()})
    def __sub__(a,b): return a+(-lift(b))
    def __rsub__(a,b): return lift(b)-a
    def mul(a,b):
        b=lift(b); d={}
        for (s1,w1),v1 in a.t.items():
            for (s2,w2),v2 in b.t.items():
                k=(tuple(sorted(s1+s2)), w1+w2); d[k]=d.get(k,0)+v1*v2
        return NC(d)
    __matmul__=mul
    def __mul__(a,b): return a.mul(b)   # scalar*matrix (scalars central)
    __rmul__=lambda a,b: lift(b).mul(a)
    @property
    def T(a): return NC({(s,tuple((n,not t) for n,t in reversed(w))):v for (s,w),v in a.t.items()})
    def __eq__(a,b): return a.t==lift(b).t
    def __repr__(a): return " + ".join(f"{v}*{'.'.join(s)}{'*' if s else ''}{'@'.join(n+('^T' if t else '') for n,t in w)}" for (s,w),v in a.t.items()) or "0"
def lift(x): return x if isinstance(x,NC) else NC.const(x)
