import numpy as np, quaternion, warnings, itertools, io, contextlib
warnings.filterwarnings("ignore")
from quatica import utils as U, solver as S
from quatica.decomp import *
def Q(arr): return quaternion.as_quat_array(np.asarray(arr,float))
def rq(m,n,seed=0):
    r=np.random.default_rng(seed); return Q(r.standard_normal((m,n,4)))
def H(A): return U.quat_hermitian(A)
def mm(*a):
    r=a[0]
    for x in a[1:]: r=U.quat_matmat(r,x)
    return r
fn=U.quat_frobenius_norm
def pinv_oracle(A):
    m,n=A.shape; Ar=U.real_expand(A); return U.real_contract(np.linalg.pinv(Ar),n,m)
# C11
bad=0;tot=0
for (m,n) in [(1,1),(2,2),(3,3),(4,4),(5,3),(3,5),(1,4),(4,1)]:
    for rk in range(0,min(m,n)+1):
        A=mm(rq(m,rk,1),rq(rk,n,2)) if rk>0 else Q(np.zeros((m,n,4)))
        tot+=1
        r1=U.rank(A); r2=U.rank(H(A)); N=U.quat_null_space(A); NL=U.quat_null_left(A)
        ok = r1==rk and r2==rk and N.shape==(n,n-rk) and NL.shape==(m,m-rk) and (N.shape[1]==0 or fn(mm(A,N))<1e-8*max(1,fn(A))) and (NL.shape[1]==0 or fn(mm(H(A),NL))<1e-8*max(1,fn(A)))
        indep = (N.shape[1]==0 or np.linalg.matrix_rank(U.real_expand(N))==4*N.shape[1]) and (NL.shape[1]==0 or np.linalg.matrix_rank(U.real_expand(NL))==4*NL.shape[1])
        if not (ok and indep): bad+=1; print("C11 BAD",(m,n),"rk",rk,"rank",r1,r2,"N",N.shape,"NL",NL.shape,"indep",indep)
for n in (1,2,3,4):
    A=rq(n,n,5);B=rq(n,n,6); d=U.det(mm(A,B),"Dieudonne"); d2=U.det(A,"Dieudonne")*U.det(B,"Dieudonne")
    Ah=0.5*(A+H(A)); w=quaternion_eigenvalues(Ah); 
    print("det mult",n,abs(d-d2)/abs(d2)<1e-9,"moore",abs(U.det(Ah,"Moore")-np.prod(w))<1e-9, "det singular", U.det(mm(rq(n,1,1),rq(1,n,2)),"Dieudonne") if n>1 else "")
print("C11 bad",bad,"of",tot)
# C13
sink=io.StringIO(); bad=0;tot=0;conv=0
for (m,n) in [(3,3),(5,3),(6,4),(8,5),(4,1)]:
  for seed in range(3):
    np.random.seed(seed); from quatica.data_gen import create_test_matrix
    A=create_test_matrix(m,n); Ap=pinv_oracle(A); cond=np.linalg.cond(U.real_expand(A))
    for tol in (1e-3,1e-6):
      for nm,mk in [("rsp-qr",lambda bs:S.RandomizedSketchProjectPseudoinverse(block_size=bs,max_iter=400,tol=tol,seed=seed)),("rsp-spd",lambda bs:S.RandomizedSketchProjectPseudoinverse(block_size=bs,max_iter=400,tol=tol,seed=seed,column_solver="spd")),("hyb",lambda bs:S.HybridRSPNewtonSchulz(r=bs,p=4,T=3,max_iter=400,tol=tol,seed=seed)),("cgne",lambda bs:S.CGNEQSolver(tol=tol,max_iter=500))]:
        for bs in range(1,n+1):
          if nm=="cgne" and bs>1: continue
          tot+=1
          try:
            with contextlib.redirect_stdout(sink): X,info=mk(bs).compute(A)
          except Exception as e: bad+=1; print("C13 EXC",nm,(m,n),bs,type(e).__name__,str(e)[:60]); continue
          res=fn(mm(X,A)-U.quat_eye(n))/np.sqrt(n); err=fn(X-Ap)/fn(Ap)
          if info["converged"]:
              conv+=1
              if res>50*tol or err>50*tol*cond: bad+=1; print("C13 BAD",nm,(m,n),"bs",bs,"tol",tol,"res",res,"err",err,"cond",cond)
          elif nm=="cgne": bad+=1; print("C13 cgne not converged",(m,n),tol,info["iterations"],res,"cond",cond)
print("C13 bad",bad,"converged",conv,"of",tot)
