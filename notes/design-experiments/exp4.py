import sys, numpy as np, quaternion, warnings, itertools
warnings.filterwarnings("ignore")
from quatica.solver import *
from quatica.utils import *
from quatica.decomp import *
from quatica.decomp.qsvd import qr_qua
from quatica.decomp.schur import quaternion_schur_experimental
from quatica.decomp.hessenberg import hessenbergize
from quatica import qslst
from quatica.data_gen import generate_random_unitary_matrix
def Q(arr): return quaternion.as_quat_array(np.asarray(arr,float))
def rq(m,n,seed=0):
    r=np.random.default_rng(seed); return Q(r.standard_normal((m,n,4)))
def H(A): return quat_hermitian(A)
def mm(*a):
    r=a[0]
    for x in a[1:]: r=quat_matmat(r,x)
    return r
fn=quat_frobenius_norm
def diagq(v):
    n=len(v); D=Q(np.zeros((n,n,4)))
    for i in range(n): D[i,i]=quaternion.quaternion(v[i],0,0,0)
    return D
# eigen repeated eigenvalues
np.random.seed(1)
for spec in ([1,1,2,3],[2,2,2,5],[1,1,1,1],[0,0,1,2],[3,3,3,3,1,1]):
    n=len(spec); U=generate_random_unitary_matrix(n); A=mm(U,diagq(spec),H(U)); A=0.5*(A+H(A))
    try:
        w,V=quaternion_eigendecomposition(A)
        print(spec,"eig",np.round(np.sort(w.real),6),"imag",np.abs(w.imag).max(),"VhV",fn(mm(H(V),V)-quat_eye(n)),"AV-VL",fn(mm(A,V)-mm(V,diagq(w.real))))
    except Exception as e: print(spec,"EXC",e)
# schur experimental false convergence
A=rq(3,3,2); A[1,0]=quaternion.quaternion(0,0,0,0); A[2,0]=quaternion.quaternion(0,0,0,0)
for var in ("aed_windowed","francis_ds"):
    Qm,T,d=quaternion_schur_experimental(A,variant=var,return_diagnostics=True)
    print("exp",var,"conv",d['converged'],"iters",d['iterations_run'],"below-diag",fn(quaternion_tril(T,-1)),"sim",fn(mm(Qm,T,H(Qm))-A))
# unified aed with window
A=rq(6,6,3)
Qm,T,d=quaternion_schur_unified(A,variant="aed",aed_window=2,return_diagnostics=True,max_iter=2000)
print("aed window2 conv",d['converged'],d['iterations_run'],"below",fn(quaternion_tril(T,-1)),"sim",fn(mm(Qm,T,H(Qm))-A))
# Utriangle small diag
from quatica.utils import UtriangleQsparse, timesQsparse
for sc in (1e-6,1e-3,1,1e3,1e6):
    n=3; R=rq(n,n,4); R=quaternion_triu(R)*sc; xtrue=rq(n,1,5); b=mm(R,xtrue)
    Rc=quaternion.as_float_array(R); bc=quaternion.as_float_array(b).copy()
    y=UtriangleQsparse(Rc[...,0].copy(),Rc[...,1].copy(),Rc[...,2].copy(),Rc[...,3].copy(),bc[...,0].copy(),bc[...,1].copy(),bc[...,2].copy(),bc[...,3].copy())
    x=Q(np.stack(y,axis=-1)); print("Utri scale",sc,"relerr",fn(x-xtrue)/fn(xtrue))
# QGMRES scaling
for sc in (1e-6,1e-3,1,1e3,1e6):
    A=rq(5,5,7)*sc; xt=rq(5,1,8); b=mm(A,xt); x,info=QGMRESSolver(tol=1e-12).solve(A,b); print("gmres scale",sc,info['converged'],info['residual'],"err",fn(x-xt)/fn(xt))
print("relerr(0,0)",qslst.relative_error(np.zeros(3),np.zeros(3)))
