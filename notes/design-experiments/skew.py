# Skew-domain feasibility: LU with abstract quaternion entries, all pivot sequences, check P A = L U and A = Lp U (with IP vs IX un-permutation)
import itertools, time
from fractions import Fraction
class P:  # noncommutative polynomial: dict word(tuple of atom ids)->coeff
    defs={}  # div atom -> (numerator poly, denominator poly)
    def __init__(s,t=None): s.t={k:v for k,v in (t or {}).items() if v!=0}
    @staticmethod
    def atom(n): return P({(n,):Fraction(1)})
    def __add__(a,b):
        d=dict(a.t)
        for k,v in b.t.items(): d[k]=d.get(k,0)+v
        return P(d)
    def __neg__(a): return P({k:-v for k,v in a.t.items()})
    def __sub__(a,b): return a+(-b)
    def __mul__(a,b):
        # Div rule: if a is single Div atom d=(q/p) and b == p -> q
        if len(a.t)==1:
            (w,c),=a.t.items()
            if len(w)>=1 and w[-1] in P.defs and P.defs[w[-1]][1]==b:
                return P({w[:-1]:c})*P.defs[w[-1]][0] if len(w)>1 else P({():c})*P.defs[w[-1]][0]
        d={}
        for w1,v1 in a.t.items():
            for w2,v2 in b.t.items():
                d[w1+w2]=d.get(w1+w2,0)+v1*v2
        return P(d)
    def __eq__(a,b): return a.t==b.t
    def __hash__(a): return hash(frozenset(a.t.items()))
ZERO=P(); ONE=P({():Fraction(1)})
cnt=[0]
def div(q,p):
    cnt[0]+=1; n=f"d{cnt[0]}"; P.defs[n]=(q,p); return P.atom(n)
def lu_paths(m,n):
    A0=[[P.atom(f"a{i}{j}") for j in range(n)] for i in range(m)]
    N=min(m,n); res=[]
    def rec(j,W,IP):
        if j==N: res.append((W,IP)); return
        for l in range(j,m):   # pivot row choice
            W2=[r[:] for r in W]; IP2=IP[:]
            if l!=j: IP2[j],IP2[l]=IP2[l],IP2[j]; W2[j],W2[l]=W2[l],W2[j]
            if j==m-1: res.append((W2,IP2)); continue
            piv=W2[j][j]
            for i in range(j+1,m): W2[i][j]=div(W2[i][j],piv)
            if j==n-1: res.append((W2,IP2)); continue
            for i in range(j+1,m):
                for k in range(j+1,n): W2[i][k]=W2[i][k]-W2[i][j]*W2[j][k]
            rec(j+1,W2,IP2)
    rec(0,A0,list(range(m)))
    return A0,res
def check(m,n):
    A0,paths=lu_paths(m,n); N=min(m,n); okP=okIX=okIP=0
    for W,IP in paths:
        L=[[W[i][j] if i>j else (ONE if i==j else ZERO) for j in range(N)] for i in range(m)]
        U=[[W[i][j] if j>=i else ZERO for j in range(n)] for i in range(N)]
        def LUrow(Lrow): 
            out=[]
            for k in range(n):
                s=ZERO
                for j in range(N): s=s+Lrow[j]*U[j][k]
                out.append(s)
            return out
        LU=[LUrow(L[i]) for i in range(m)]
        okP+= all(LU[i][k]==A0[IP[i]][k] for i in range(m) for k in range(n))
        IX=[0]*m
        for i in range(m): IX[IP[i]]=i
        Lp_code=[None]*m; Lp_fix=[None]*m
        for i in range(m): Lp_code[IX[i]]=L[i]; Lp_fix[IP[i]]=L[i]
        okIX+= all(LUrow(Lp_code[r])[k]==A0[r][k] for r in range(m) for k in range(n))
        okIP+= all(LUrow(Lp_fix[r])[k]==A0[r][k] for r in range(m) for k in range(n))
    return len(paths),okP,okIX,okIP
for (m,n) in [(2,2),(3,3),(3,2),(2,3),(4,4),(4,3),(3,4),(5,5)]:
    t=time.time(); P.defs.clear(); r=check(m,n); print((m,n),"paths %d  PA=LU ok %d  A=LpU(code IX) ok %d  A=LpU(fixed IP) ok %d"%r, "%.2fs"%(time.time()-t))
