import Mathlib.Algebra.Quaternion
import Mathlib.Data.Real.Basic
import Mathlib.LinearAlgebra.Matrix.ConjTranspose

open Quaternion

theorem ham_re (p q : ℍ[ℝ]) : (p*q).re = p.re*q.re - p.imI*q.imI - p.imJ*q.imJ - p.imK*q.imK := by
  simp [Quaternion.re_mul]
theorem conjT_mul {m n k : Type*} [Fintype n] (A : Matrix m n ℍ[ℝ]) (B : Matrix n k ℍ[ℝ]) :
    (A * B).conjTranspose = B.conjTranspose * A.conjTranspose := Matrix.conjTranspose_mul A B
