import numpy as np, quaternion, warnings, traceback
warnings.filterwarnings("ignore")
import quatica
from quatica import utils as U, solver as S, tensor as T, qslst as L
from quatica.decomp import *
from quatica.decomp import LU as LUm, eigen as E, tridiagonalize as TD, hessenberg as HB, schur as SC, qsvd as QS
def Q(arr): return quaternion.as_quat_array(np.asarray(arr,float))
def rq(*shape,seed=0):
    r=np.random.default_rng(seed); return Q(r.standard_normal(shape+(4,)))
def herm(n,seed=0):
    A=rq(n,n,seed=seed); return 0.5*(A+U.quat_hermitian(A))
nonsq=rq(2,3); sq=rq(3,3); nonherm=rq(3,3,seed=1); realm=np.random.default_rng(0).standard_normal((3,3)); cplx=realm+1j*realm
from scipy import sparse
spm=U.SparseQuaternionMatrix(sparse.csr_matrix(realm),sparse.csr_matrix(realm),sparse.csr_matrix(realm),sparse.csr_matrix(realm),(3,3))
cells=[]
def cell(name,fn,expect_raise=True):
    try:
        r=fn(); out=("returned",type(r).__name__)
    except BaseException as e:
        out=("raised",type(e).__name__,str(e)[:60])
    ok = (out[0]=="raised")==expect_raise
    cells.append((ok,name,out))
# norms
for f in (U.induced_matrix_norm_1,U.induced_matrix_norm_inf,U.spectral_norm_2):
    cell(f.__name__+":real",lambda f=f:f(realm)); cell(f.__name__+":complex",lambda f=f:f(cplx)); cell(f.__name__+":sparse",lambda f=f:f(spm)); cell(f.__name__+":list",lambda f=f:f([[1,2]]))
    for shp in ((1,1),(1,3),(3,1)): cell(f.__name__+f":indomain{shp}",lambda f=f,shp=shp:f(rq(*shp)),False)
for o in ("nuc",3,-1,"2","one",0): cell(f"matrix_norm:ord={o!r}",lambda o=o:U.matrix_norm(sq,o))
for o in (None,"fro","F",1,2,np.inf,"inf"): cell(f"matrix_norm:ok ord={o!r}",lambda o=o:U.matrix_norm(nonsq,o),False)
cell("real_expand:real",lambda:U.real_expand(realm)); cell("real_expand:complex",lambda:U.real_expand(cplx)); cell("real_expand:sparse",lambda:U.real_expand(spm))
cell("real_contract:badshape",lambda:U.real_contract(np.zeros((8,8)),2,3)); cell("real_contract:ok",lambda:U.real_contract(np.zeros((8,12)),2,3),False)
cell("ishermitian:nonsquare",lambda:U.ishermitian(nonsq)); cell("ishermitian:1x1",lambda:U.ishermitian(rq(1,1)),False)
cell("det:nonsquare",lambda:U.det(nonsq,"Dieudonne")); cell("det:unknown",lambda:U.det(sq,"foo")); cell("det:Moore nonherm",lambda:U.det(nonherm,"Moore")); cell("det:Study",lambda:U.det(sq,"Study"))
cell("det:Moore herm ok",lambda:U.det(herm(3),"Moore"),False); cell("det:Dieudonne 1x1",lambda:U.det(rq(1,1),"Dieudonné"),False)
cell("rank:real",lambda:U.rank(realm)); 
for shp in ((1,1),(1,3),(3,1)): cell(f"rank:indomain{shp}",lambda shp=shp:U.rank(rq(*shp)),False)
cell("power_iteration:nonsquare",lambda:U.power_iteration(nonsq)); cell("power_iteration:empty",lambda:U.power_iteration(rq(0,0))); cell("power_iteration:1x1",lambda:U.power_iteration(rq(1,1)),False)
cell("power_iteration:real",lambda:U.power_iteration(realm))
cell("adjoint:nonsquare",lambda:U.quaternion_to_complex_adjoint(nonsq)); cell("adjoint:real",lambda:U.quaternion_to_complex_adjoint(realm)); cell("adjoint:axis y",lambda:U.quaternion_to_complex_adjoint(sq,"y")); cell("adjoint:3d",lambda:U.quaternion_to_complex_adjoint(rq(2,2,2)))
cell("pi_nonherm:nonsquare",lambda:U.power_iteration_nonhermitian(nonsq)); cell("pi_nonherm:real",lambda:U.power_iteration_nonhermitian(realm))
cell("null:side",lambda:U.quat_null_space(sq,side="up")); cell("kernel:side",lambda:U.quat_kernel(sq,side="up")); cell("null:real",lambda:U.quat_null_space(realm))
for shp in ((1,1),(1,3),(3,1)): cell(f"null:indomain{shp}",lambda shp=shp:U.quat_null_space(rq(*shp)),False)
# solvers
b3=rq(3,1,seed=5)
cell("qgmres:nonsquare",lambda:S.QGMRESSolver().solve(nonsq,rq(2,1))); cell("qgmres:nonsquare lu",lambda:S.QGMRESSolver(preconditioner="left_lu").solve(nonsq,rq(2,1)))
cell("qgmres:rhs mismatch",lambda:S.QGMRESSolver().solve(sq,rq(2,1))); cell("qgmres:1x1",lambda:S.QGMRESSolver().solve(rq(1,1),rq(1,1)),False)
cell("qgmres:real",lambda:S.QGMRESSolver().solve(realm,realm[:,:1]))
cell("rsp col:wide",lambda:S.RandomizedSketchProjectPseudoinverse(seed=0,max_iter=5).compute_column_variant(nonsq)); cell("rsp row:tall",lambda:S.RandomizedSketchProjectPseudoinverse(seed=0,max_iter=5).compute_row_variant(rq(3,2)))
cell("hybrid:wide",lambda:S.HybridRSPNewtonSchulz(seed=0,max_iter=5).compute(nonsq)); cell("cgne:wide",lambda:S.CGNEQSolver(max_iter=5).compute(nonsq))
cell("deeplinear:layers",lambda:S.DeepLinearNewtonSchulz(max_iter=1).compute(rq(4,3),[2,3]))
for shp in ((1,1),(3,1)): cell(f"cgne:indomain{shp}",lambda shp=shp:S.CGNEQSolver(max_iter=5).compute(rq(*shp)),False)
cell("rsp:1x3 row ok",lambda:S.RandomizedSketchProjectPseudoinverse(seed=0,max_iter=5).compute(rq(1,3)),False)
cell("ns:real",lambda:S.NewtonSchulzPseudoinverse(max_iter=2).compute(realm))
# LU
for f in (LUm.quaternion_modulus,LUm.quaternion_triu,LUm.quaternion_tril,LUm.quaternion_lu):
    cell(f.__name__+":real",lambda f=f:f(realm)); cell(f.__name__+":complex",lambda f=f:f(cplx)); cell(f.__name__+":sparse",lambda f=f:f(spm))
cell("lu:zero pivot",lambda:LUm.quaternion_lu(Q(np.zeros((3,3,4)))));
for shp in ((1,1),(1,3),(3,1)): cell(f"lu:indomain{shp}",lambda shp=shp:LUm.quaternion_lu(rq(*shp)),False)
# eigen/tridiag/hess/schur
cell("eig:nonsquare",lambda:quaternion_eigendecomposition(nonsq)); cell("eig:nonherm",lambda:quaternion_eigendecomposition(nonherm)); cell("eigvals:nonherm",lambda:quaternion_eigenvalues(nonherm)); cell("eigvecs:nonherm",lambda:quaternion_eigenvectors(nonherm))
Hm=herm(3); Hm2=Hm.copy(); Hm2[0,1]=Hm2[0,1]+quaternion.quaternion(1e-6,0,0,0)
cell("eig:nonherm 1e-6 margin",lambda:quaternion_eigendecomposition(Hm2)); cell("tridiag:nonherm 1e-6 margin",lambda:tridiagonalize(Hm2))
cell("eig:1x1 ok",lambda:quaternion_eigendecomposition(herm(1)),False); cell("eig:real",lambda:quaternion_eigendecomposition(realm+realm.T))
cell("tridiag:nonsquare",lambda:tridiagonalize(nonsq)); cell("tridiag:1x1",lambda:tridiagonalize(herm(1))); cell("tridiag:nonherm",lambda:tridiagonalize(nonherm)); cell("tridiag:2x2 ok",lambda:tridiagonalize(herm(2)),False)
cell("hess:nonsquare",lambda:HB.hessenbergize(nonsq)); cell("hess:1x1 ok",lambda:HB.hessenbergize(rq(1,1)),False); cell("hess:3d",lambda:HB.hessenbergize(rq(2,2,2)))
for nm,f in (("schur",SC.quaternion_schur),("pure",SC.quaternion_schur_pure),("implicit",SC.quaternion_schur_pure_implicit),("unified",SC.quaternion_schur_unified),("experimental",SC.quaternion_schur_experimental)):
    cell(nm+":nonsquare",lambda f=f:f(nonsq)); cell(nm+":1x1 ok",lambda f=f:f(rq(1,1)),False)
cell("unified:unknown variant",lambda:SC.quaternion_schur_unified(sq,variant="bogus",max_iter=3)); cell("experimental:unknown variant",lambda:SC.quaternion_schur_experimental(sq,variant="bogus",max_iter=3))
cell("schur:unknown shift",lambda:SC.quaternion_schur(sq,shift="bogus",max_iter=3)); cell("pure:unknown shift",lambda:SC.quaternion_schur_pure(sq,shift_mode="bogus",max_iter=3))
# tensor
T3=rq(2,3,4)
cell("unfold:mode3",lambda:T.tensor_unfold(T3,3)); cell("unfold:mode-1",lambda:T.tensor_unfold(T3,-1)); cell("unfold:order2",lambda:T.tensor_unfold(sq,0)); cell("unfold:real",lambda:T.tensor_unfold(np.zeros((2,3,4)),0))
cell("fold:mode3",lambda:T.tensor_fold(rq(2,12),3,(2,3,4))); cell("fold:shape mismatch",lambda:T.tensor_fold(rq(2,12),1,(2,3,4))); cell("fold:ok",lambda:T.tensor_fold(rq(3,8),1,(2,3,4)),False)
cell("fold:real",lambda:T.tensor_fold(np.zeros((2,12)),0,(2,3,4)))
for shp in ((1,1,1),(1,3,1)): 
    for mo in (0,1,2): cell(f"unfold:indomain{shp},{mo}",lambda shp=shp,mo=mo:T.tensor_unfold(rq(*shp),mo),False)
# qslst
psf=np.ones((3,3))/9; img=np.zeros((4,5,4))
cell("rgb_to_quat:2d",lambda:L.rgb_to_quat(np.zeros((4,5)))); cell("rgb_to_quat:4ch",lambda:L.rgb_to_quat(np.zeros((4,5,4)))); cell("quat_to_rgb:3ch",lambda:L.quat_to_rgb(np.zeros((4,5,3))))
cell("blur:boundary",lambda:L.apply_blur_fft(img,psf,boundary="zero")); cell("restore_fft:boundary",lambda:L.qslst_restore_fft(img,psf,1e-3,boundary="reflect")); cell("restore_matrix:size",lambda:L.qslst_restore_matrix(img,np.eye(19),1e-3))
cell("blur:psf larger than image",lambda:L.apply_blur_fft(np.zeros((2,2,4)),np.ones((3,3))/9))
cell("blur:1x1 ok",lambda:L.apply_blur_fft(np.zeros((1,1,4)),np.ones((1,1))),False)
# qsvd
cell("qsvd_full:real",lambda:QS.classical_qsvd_full(realm)); cell("qr:real",lambda:QS.qr_qua(realm)); cell("rand_qsvd:real",lambda:QS.rand_qsvd(realm,2)); cell("qsvd:R too big",lambda:QS.classical_qsvd(sq,5))
bad=[c for c in cells if not c[0]]
print(len(cells),"cells;",len(bad),"unexpected:")
for c in bad: print("  ",c[1],"->",c[2])
