import z3, time
R=z3.Real
x1=[R(f"a{i}") for i in range(4)]; x2=[R(f"b{i}") for i in range(4)]
t=R("t"); n1=R("n1"); n2=R("n2")
def ham(p,q):
    a,b,c,d=p; e,f,g,h=q
    return [a*e-b*f-c*g-d*h, a*f+b*e+c*h-d*g, a*g-b*h+c*e+d*f, a*h+b*g-c*f+d*e]
def conj(p): return [p[0],-p[1],-p[2],-p[3]]
def sq(p): return sum(c*c for c in p)
q1=[c/t for c in x1]; q2=[c/t for c in x2]
hyp=[t>0, t*t==sq(x1)+sq(x2), n1>=0,n2>=0, n1*n1==sq(q1), n2*n2==sq(q2), n1<n2]
q3=[n2,0,0,0]
q4=[c/(-n2) for c in ham(q2,conj(q1))]
# unitarity of [[q1,q3],[q2,q4]]: col norms and orthogonality; G^H [x1;x2] = [t;0]
goals=[]
goals.append(sq(q3)+sq(q4)==1)
orth=[u+v for u,v in zip(ham(conj(q1),q3),ham(conj(q2),q4))]
goals+= [o==0 for o in orth]
# G^H x: first row conj(q1) x1 + conj(q2) x2 = t ; second row conj(q3) x1 + conj(q4) x2 = 0
r1=[u+v for u,v in zip(ham(conj(q1),x1),ham(conj(q2),x2))]
goals+= [r1[0]==t]+[r1[i]==0 for i in (1,2,3)]
r2=[u+v for u,v in zip(ham(conj(q3),x1),ham(conj(q4),x2))]
goals+= [r2[i]==0 for i in range(4)]
for i,g in enumerate(goals):
    s=z3.Solver(); s.set("timeout",60000); s.add(hyp); s.add(z3.Not(g))
    t0=time.time(); r=s.check(); print(i,r,round(time.time()-t0,2))
