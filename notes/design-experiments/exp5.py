import numpy as np, quaternion, warnings
warnings.filterwarnings("ignore")
from quatica.solver import *
from quatica.utils import *
def Q(arr): return quaternion.as_quat_array(np.asarray(arr,float))
fn=quat_frobenius_norm
def diagq(v):
    n=len(v); D=Q(np.zeros((n,n,4)))
    for i in range(n): D[i,i]=quaternion.quaternion(v[i],0,0,0)
    return D
for sv in ([10,20],[5,50],[0.1,0.2],[100,100.5,300]):
  for gamma in (0.5,1.0):
    for tol in (1e-2,1e-4,1e-6):
      for cr in (False,True):
        A=diagq(sv); Ap=diagq([1/s for s in sv])
        X,res,cov=NewtonSchulzPseudoinverse(gamma=gamma,max_iter=2000,tol=tol,compute_residuals=cr).compute(A)
        err=fn(X-Ap); bound=tol/min(sv)**2
        if err>bound: print("VIOL sv",sv,"gamma",gamma,"tol",tol,"resid",cr,"iters",len(cov),"err",err,"bound",bound)
print("done")
