import numpy as np, quaternion, warnings
warnings.filterwarnings("ignore")
from quatica.utils import *
from quatica.data_gen import generate_random_unitary_matrix
def Q(arr): return quaternion.as_quat_array(np.asarray(arr,float))
def H(A): return quat_hermitian(A)
def mm(*a):
    r=a[0]
    for x in a[1:]: r=quat_matmat(r,x)
    return r
fn=quat_frobenius_norm
def diagq(v):
    n=len(v); D=Q(np.zeros((n,n,4)))
    for i in range(n): D[i,i]=quaternion.quaternion(v[i],0,0,0)
    return D
bad=0;tot=0
for spec in ([3,1],[-3,1],[-3,2.4,1],[5,-4,1,0.5],[-5,4,-1],[2],[-2],[1,0.8],[-1,0.8,0.8,-0.8]):
    n=len(spec)
    for seed in range(6):
        np.random.seed(100+seed)
        Uu=generate_random_unitary_matrix(n) if n>1 else Q(np.array([[[1,0,0,0.]]]))
        A=mm(Uu,diagq(spec),H(Uu)); A=0.5*(A+H(A))
        np.random.seed(seed)
        v,lam=power_iteration(A,max_iterations=3000,tol=1e-12,return_eigenvalue=True)
        lmax=max(spec,key=abs); tot+=1
        res=min(fn(mm(A,v)-v*lam), fn(mm(A,v)+v*lam)); sgnres=fn(mm(A,v)-v*(np.sign(lmax)*lam))
        ok=abs(fn(v)-1)<1e-10 and abs(lam-abs(lmax))<1e-6 and sgnres<1e-5
        if not ok: bad+=1; print("BAD spec",spec,"seed",seed,"lam",lam,"|lmax|",abs(lmax),"norm",fn(v),"res",sgnres)
        np.random.seed(seed)
        out=power_iteration_nonhermitian(A,max_iterations=3000,seed=seed)
        qv,l2,_=out
        if abs(fn(qv.reshape(n,1))-1)>1e-10 or abs(np.imag(l2))>0: print("BAD nonherm",spec,seed,l2,fn(qv.reshape(n,1)))
print("bad",bad,"of",tot)
# nonhermitian boundedness
for seed in range(5):
    r=np.random.default_rng(seed); A=Q(r.standard_normal((4,4,4))); np.random.seed(seed)
    v,lam=power_iteration(A,return_eigenvalue=True); print("nonherm lam",lam,"<= ||A||2",spectral_norm_2(A), "norm v",fn(v))
    qv,l2,res=power_iteration_nonhermitian(A,seed=seed); print("  complex variant norm",fn(qv.reshape(4,1)),"lam",l2,"|lam|<=",spectral_norm_2(A))
