import numpy as np, quaternion, warnings, itertools, hashlib, io, contextlib
warnings.filterwarnings("ignore")
from quatica.utils import *
from quatica.solver import *
from quatica.decomp import *
from quatica.decomp.hessenberg import hessenbergize, is_hessenberg
from quatica.decomp.schur import quaternion_schur_experimental
from quatica.decomp.LU import quaternion_tril
def Q(arr): return quaternion.as_quat_array(np.asarray(arr,float))
def rq(m,n,seed=0):
    r=np.random.default_rng(seed); return Q(r.standard_normal((m,n,4)))
def H(A): return quat_hermitian(A)
def mm(*a):
    r=a[0]
    for x in a[1:]: r=quat_matmat(r,x)
    return r
fn=quat_frobenius_norm
def classes(n,seed):
    A=rq(n,n,seed); yield "generic",A
    yield "hermitian",0.5*(A+H(A))
    from quatica.decomp.LU import quaternion_triu
    yield "triu",quaternion_triu(A)
    yield "lowrank",mm(rq(n,1,seed+1),rq(1,n,seed+2))
    r=np.random.default_rng(seed); yield "integer",Q(r.integers(-2,3,(n,n,4)))
    Z=A.copy(); Z[:,0]=quaternion.quaternion(0,0,0,0); yield "zerocol",Z
    yield "zero",Q(np.zeros((n,n,4)))
# C09
bad=0;tot=0
for n in range(1,7):
  for seed in range(2):
    for nm,A in classes(n,seed):
        P,Hh=hessenbergize(A); tot+=1
        e1=fn(mm(H(P),P)-quat_eye(n)); e2=fn(Hh-mm(P,A,H(P))); ok=e1<1e-10 and e2<1e-9*max(1,fn(A)) and is_hessenberg(Hh) and abs(fn(Hh)-fn(A))<1e-9*max(1,fn(A))
        if not ok: bad+=1; print("C09 BAD",n,nm,e1,e2,is_hessenberg(Hh))
print("C09 bad",bad,"of",tot)
# C10 similarity & flag
bad=0;tot=0;flagbad=0
sink=io.StringIO()
for n in range(1,6):
  for nm,A in classes(n,3):
    for vname,call in [("schur-w",lambda A,b:quaternion_schur(A,max_iter=b,shift="wilkinson",return_diagnostics=True)),("schur-r",lambda A,b:quaternion_schur(A,max_iter=b,shift="rayleigh",return_diagnostics=True)),("schur-d",lambda A,b:quaternion_schur(A,max_iter=b,shift="double",return_diagnostics=True)),
        ("pure-none",lambda A,b:quaternion_schur_unified(A,variant="none",max_iter=b,return_diagnostics=True)),("pure-ray",lambda A,b:quaternion_schur_unified(A,variant="rayleigh",max_iter=b,return_diagnostics=True)),("implicit",lambda A,b:quaternion_schur_unified(A,variant="implicit",max_iter=b,return_diagnostics=True)),
        ("aed",lambda A,b:quaternion_schur_unified(A,variant="aed",max_iter=b,return_diagnostics=True)),("ds",lambda A,b:quaternion_schur_unified(A,variant="ds",max_iter=b,return_diagnostics=True)),
        ("exp-aed",lambda A,b:quaternion_schur_experimental(A,variant="aed_windowed",max_iter=b,return_diagnostics=True)),("exp-fds",lambda A,b:quaternion_schur_experimental(A,variant="francis_ds",max_iter=b,return_diagnostics=True))]:
      for budget in (0,1,3,300):
        tot+=1
        try:
            with contextlib.redirect_stdout(sink): Qm,Tm,d=call(A,budget)
        except Exception as e:
            bad+=1; print("C10 EXC",n,nm,vname,budget,type(e).__name__,str(e)[:70]); continue
        e1=fn(mm(H(Qm),Qm)-quat_eye(n)); e2=fn(mm(Qm,Tm,H(Qm))-A); sc=max(1,fn(A))
        if e1>1e-8 or e2>1e-6*sc: bad+=1; print("C10 BAD sim",n,nm,vname,budget,"unit",e1,"sim",e2)
        if d["converged"] and fn(quaternion_tril(Tm,-1))>1e-6*sc: flagbad+=1; print("C10 FLAG",n,nm,vname,budget,fn(quaternion_tril(Tm,-1)))
print("C10 bad",bad,"flagbad",flagbad,"of",tot)
