import sys, numpy as np, quaternion, warnings
warnings.filterwarnings("ignore")
from quatica.solver import *
from quatica.utils import *
def Q(arr): return quaternion.as_quat_array(np.asarray(arr,float))
def rq(m,n,seed=0):
    r=np.random.default_rng(seed); return Q(r.standard_normal((m,n,4)))
for n in (1,2,3,4):
  for seed in range(6):
    A=quat_eye(n); b=rq(n,1,seed)
    x,info=QGMRESSolver(tol=1e-10,verbose=False).solve(A,b)
    print(n,seed,"conv",info['converged'],"res",info['residual'],"iters",info['iterations'], "hist",info['residual_history'])
# scaled identity, diag repeated, low-rank plus identity
for seed in range(5):
    n=4
    A=quat_eye(n)*2.0; b=rq(n,1,seed)
    x,info=QGMRESSolver(tol=1e-10).solve(A,b); print("2I",info['converged'],info['residual'],info['iterations'])
    u=rq(n,1,seed+10); A=quat_eye(n)+quat_matmat(u,quat_hermitian(u))
    x,info=QGMRESSolver(tol=1e-10).solve(A,b); print("I+uu^H",info['converged'],info['residual'],info['iterations'])
    x,info=QGMRESSolver(tol=1e-10,preconditioner='left_lu').solve(rq(n,n,seed+20),b); print("LUprec",info['converged'],info['residual'],info['iterations'])
