import sys, numpy as np, quaternion, warnings
warnings.filterwarnings("ignore")
import quatica
from quatica.solver import *
from quatica.utils import *
from quatica.decomp import *
from quatica.decomp.qsvd import qr_qua
def Q(arr): return quaternion.as_quat_array(np.asarray(arr,float))
def rq(m,n,seed=0):
    r=np.random.default_rng(seed); return Q(r.standard_normal((m,n,4)))
I=lambda n: quat_eye(n)
# C04: identity system
for n in (1,2,3):
    A=I(n); b=rq(n,1,1)
    x,info=QGMRESSolver(tol=1e-10).solve(A,b)
    print("QGMRES I n=",n,"conv",info['converged'],"res",info['residual'],"iters",info['iterations'], "err",quat_frobenius_norm(x-b))
A=rq(1,1,3); b=rq(1,1,4)
x,info=QGMRESSolver(tol=1e-10).solve(A,b); print("1x1 generic", info['converged'], info['residual'])
A=rq(4,4,3); b=Q(np.zeros((4,1,4)))
x,info=QGMRESSolver(tol=1e-10).solve(A,b); print("b=0", info['converged'], info['residual'], x.ravel())
# state leak
s=QGMRESSolver(tol=1e-12)
A=rq(2,2,5); b=rq(2,1,6); s.solve(A,b); print("max_iter after", s.max_iter)
A=rq(6,6,7); b=rq(6,1,8); x,info=s.solve(A,b); x2,info2=QGMRESSolver(tol=1e-12).solve(A,b)
print("reused", info['residual'], info['iterations'], "fresh", info2['residual'], info2['iterations'])
