#!/bin/bash
# Builds /verif/.venv offline: python 3.12 from /venv + z3-solver, cvc5, sympy, jsonschema from the
# wheelhouse, plus a .pth that exposes /venv's site-packages (numpy, numpy-quaternion, scipy).
set -e
cd "$(dirname "$0")"
V=.venv
if [ -x "$V/bin/python" ] && "$V/bin/python" -c "import z3, numpy, quaternion, scipy, jsonschema" 2>/dev/null; then
  exit 0
fi
rm -rf "$V"
/venv/bin/python -m venv "$V"
PIP_NO_INDEX=1 "$V/bin/pip" install -q --no-index --find-links /opt/veriftools/wheels z3-solver cvc5 sympy jsonschema >/dev/null
echo "import site; site.addsitedir('/venv/lib/python3.12/site-packages')" > "$V/lib/python3.12/site-packages/_venv_overlay.pth"
"$V/bin/python" -c "import z3, numpy, quaternion, scipy, jsonschema; print('qv venv ok', z3.get_version_string())"
