#!/usr/bin/env python3
"""tools_keep_seed.py <src out/i dir> <seed id> <property> <caught_by> <needs...>: store a confirmed seeded change under /verif/seeded/<id>/"""
import json, os, shutil, sys
src, sid, prop, caught = sys.argv[1:5]
needs = " ".join(sys.argv[5:])
dst = os.path.join("/verif/seeded", sid)
os.makedirs(dst, exist_ok=True)
for f in ("patch.diff", "demo.py", "notes.md"):
    if os.path.exists(os.path.join(src, f)):
        shutil.copy(os.path.join(src, f), os.path.join(dst, f))
meta = {"property": prop, "needs_to_manifest": needs, "caught_by": caught.split(";"),
        "confirmed": "demo.py exits 0 on the pristine worktree and 1 with patch.diff applied (tools_try_seed.sh); relevant repository tests pass with the patch (sub-agent notes.md)",
        "ran": f"tools_try_seed.sh <scratch worktree> {src} {prop}  (QV_REPO=<worktree> ./check {prop})"}
json.dump(meta, open(os.path.join(dst, "meta.json"), "w"), indent=1)
print("kept", dst)
