#!/usr/bin/env python3
"""Regenerates MANIFEST.json from the table below (kept valid at all times)."""
import json, os
ROOT = os.path.dirname(os.path.abspath(__file__))
CLAIMED = json.load(open(os.path.join(ROOT, "manifest_checks.json")))
ALL = [f"C{i:02d}" for i in range(1, 21)]
checks = []
for pid in ALL:
    c = CLAIMED.get(pid)
    if not c:
        continue
    checks.append({
        "property_id": pid,
        "quick_cmd": f"./check {pid} --tier quick",
        "thorough_cmd": f"./check {pid} --tier thorough",
        "evidence_file": f"/verif/evidence/{pid}.json",
        "replay_cmd_template": f"./check {pid} --replay {{path}}",
        "engine": "qv",
        "level_claimed": {"category": c["level"], "text": c["text"], "design_ref": c.get("design_ref", f"DESIGN.md section 4 ({pid})")},
        "level_note": c["note"],
        "technique": c["technique"],
    })
na = [{"property_id": p, "reason": CLAIMED.get("_na", {}).get(p, "check not built yet in this session (framework under construction); planned per DESIGN.md section 4")}
      for p in ALL if p not in CLAIMED]
man = {
    "version": 1,
    "setup_cmd": "./setup.sh",
    "hooks": {"guard": "QUATICA_VERIF", "enable": "no source hooks are needed: contracts are sidecar files under /verif/qv and the real sources are parsed from /repo (or $QV_REPO) on every run",
              "baseline_off_cmd": "cd /repo && /venv/bin/python -m pytest -ra -q -p no:cacheprovider --timeout=900 --continue-on-collection-errors",
              "source_commits": [], "add_only": True},
    "engines": [{"name": "qv", "path": "/verif/qv", "serves_properties": [c["property_id"] for c in checks],
                 "kind_free_text": "contract-based deductive verifier for Python written for this repository: AST symbolic executor over the real sources + free *-algebra normal forms + index-level VCs discharged by z3 5.1 (cvc5 / z3 4.8 fallback), sidecar contracts, bounded run-time stand-ins on the real code"}],
    "checks": checks,
    "not_applicable": na,
    "notes": "See DESIGN.md. Bounded stand-ins are labelled in every evidence file and never counted in 'discharged'. known_findings.json lists genuine defects (known / fixed).",
}
json.dump(man, open(os.path.join(ROOT, "MANIFEST.json"), "w"), indent=1)
import jsonschema
jsonschema.validate(man, json.load(open("/root/.vp/MANIFEST.schema.json")))
print("MANIFEST ok:", len(checks), "claimed;", len(na), "not applicable")
