"""Computer-algebra back end for polynomial / rational identities over the reals with square-root
definitions:  every sqrt variable s introduced by the executor comes with  s*s = E.  An identity
lhs == rhs is proved by clearing denominators (sympy.together), expanding the numerator and reducing
even powers of the sqrt variables through their definitions until a fixpoint; a zero remainder proves
the identity for every valuation satisfying the definitions with non-zero denominators (the
denominators' non-vanishing is a separate site obligation of the division).  A non-zero remainder
proves nothing: the caller falls back to the SMT back end."""
from __future__ import annotations

import time

import sympy
import z3


def z3_to_sympy(e, cache=None):
    cache = {} if cache is None else cache
    key = e.get_id()
    if key in cache:
        return cache[key]
    if z3.is_rational_value(e):
        r = sympy.Rational(e.numerator_as_long(), e.denominator_as_long())
    elif z3.is_int_value(e):
        r = sympy.Integer(e.as_long())
    elif z3.is_const(e) and e.decl().kind() == z3.Z3_OP_UNINTERPRETED:
        r = sympy.Symbol(e.decl().name(), real=True)
    else:
        k = e.decl().kind()
        args = [z3_to_sympy(a, cache) for a in e.children()]
        if k == z3.Z3_OP_ADD:
            r = sympy.Add(*args)
        elif k == z3.Z3_OP_MUL:
            r = sympy.Mul(*args)
        elif k == z3.Z3_OP_SUB:
            r = args[0] - sympy.Add(*args[1:]) if len(args) > 1 else -args[0]
        elif k == z3.Z3_OP_UMINUS:
            r = -args[0]
        elif k == z3.Z3_OP_DIV:
            r = args[0] / args[1]
        elif k == z3.Z3_OP_POWER:
            r = args[0] ** args[1]
        elif k == z3.Z3_OP_TO_REAL:
            r = args[0]
        else:
            raise ValueError(f"not a polynomial/rational term: {e.decl().name()}")
    cache[key] = r
    return r


def sqrt_defs_from_hyps(hyps):
    """Definitions s*s == E among the hypotheses (as produced by sym.ssqrt): list of (Symbol, sympy expr)."""
    defs = []
    for h in hyps:
        for c in (h.children() if z3.is_and(h) else [h]):
            if z3.is_eq(c):
                l, r = c.children()
                if z3.is_mul(l) and len(l.children()) == 2 and l.children()[0].eq(l.children()[1]) and z3.is_const(l.children()[0]):
                    try:
                        defs.append((sympy.Symbol(l.children()[0].decl().name(), real=True), z3_to_sympy(r)))
                    except ValueError:
                        pass
    return defs


def const_substs_from_hyps(hyps):
    """Hypotheses of the form  x == numeral  (e.g. eps == 0) as substitutions."""
    out = {}
    for h in hyps:
        for c in (h.children() if z3.is_and(h) else [h]):
            if z3.is_eq(c):
                l, r = c.children()
                for a, b in ((l, r), (r, l)):
                    if z3.is_const(a) and a.decl().kind() == z3.Z3_OP_UNINTERPRETED and (z3.is_rational_value(b) or z3.is_int_value(b)):
                        out[sympy.Symbol(a.decl().name(), real=True)] = z3_to_sympy(b)
    return out


def reduce_with(num, defs):
    num = sympy.expand(num)
    for _ in range(12):
        changed = False
        for s, E in reversed(defs):
            p = sympy.Poly(num, s)
            if p.degree() < 2:
                continue
            new = 0
            for (k,), coef in p.terms():
                new += coef * (E ** (k // 2)) * (s ** (k % 2))
            new = sympy.together(new)
            n2, d2 = sympy.fraction(new)
            num = sympy.expand(n2)
            changed = True
        if not changed:
            break
    return num


def prove_identity(hyps, lhs, rhs):
    """True if lhs == rhs follows from the sqrt definitions in hyps by algebra; False = not shown."""
    t0 = time.time()
    try:
        defs = sqrt_defs_from_hyps(hyps)
        sub = const_substs_from_hyps(hyps)
        # a vanishing square root of a sum of squares makes every summand vanish (real closed field)
        for s_, E in defs:
            if sub.get(s_) == 0:
                Ee = sympy.expand(E)
                terms = Ee.as_ordered_terms()
                if all(t_.is_Pow and t_.exp == 2 and t_.base.is_Symbol for t_ in terms):
                    for t_ in terms:
                        sub[t_.base] = sympy.Integer(0)
        expr = z3_to_sympy(lhs) - z3_to_sympy(rhs)
        if sub:
            expr = expr.subs(sub)
            defs = [(s_, E.subs(sub)) for s_, E in defs]
        expr = sympy.together(expr)
        num, den = sympy.fraction(expr)
        rem = reduce_with(num, defs)
        return (rem == 0), time.time() - t0
    except Exception:
        return False, time.time() - t0
