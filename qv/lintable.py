"""Concrete-shape tables of terms that are linear in a few scalar variables (the image of one
quaternion under an embedding), with substitution and coefficient extraction.  The table is obtained
by symbolically executing the real function on a 1x1 input; linearity is verified by SMT, not assumed."""
from __future__ import annotations

import itertools
from fractions import Fraction

import z3

from . import smt
from .idx import CScal, IArr, QScal
from .sym import SReal, SInt, is_reallike


def subst(v, pairs):
    if isinstance(v, SReal):
        return SReal.mk(z3.substitute(v.z, *pairs))
    if isinstance(v, CScal):
        return CScal(subst(v.re, pairs), subst(v.im, pairs))
    if isinstance(v, QScal):
        return QScal(*[subst(c, pairs) for c in v.c])
    return v


class LinTable:
    def __init__(self, arr: IArr, var_terms):
        """arr: concrete-shape IArr whose entries are terms over var_terms (list of z3 Real consts)."""
        self.shape = tuple(arr.vshape)
        self.vars = list(var_terms)
        self.cplx = arr.cplx
        self.entries = {vi: v for vi, v in arr.concrete_entries()}

    def apply(self, vals):
        """Table instantiated at the scalars vals (list of real-likes) -> dict idx -> value."""
        pairs = [(v, SReal.lift(x)) for v, x in zip(self.vars, vals)]
        return {k: subst(e, pairs) for k, e in self.entries.items()}

    def at(self, vals, idx):
        """Entry at a (possibly symbolic) index for the scalars vals."""
        from .idx import ite
        from .sym import sand
        t = self.apply(vals)
        if all(isinstance(i, int) for i in idx):
            return t[tuple(idx)]
        res = None
        for k, x in reversed(list(t.items())):
            c = sand(*[a == b for a, b in zip(idx, k)])
            res = x if res is None else ite(c, x, res)
        return res

    def coefs(self):
        """coef[idx][c] (Fraction or (re, im) pair) with entry == sum_c coef_c * var_c; verified by SMT."""
        out = {}
        ok = True
        for k, e in self.entries.items():
            cs = []
            for c in range(len(self.vars)):
                unit = [Fraction(1) if d == c else Fraction(0) for d in range(len(self.vars))]
                pairs = [(v, SReal.lift(x)) for v, x in zip(self.vars, unit)]
                val = subst(e, pairs)
                if isinstance(val, CScal):
                    if not (isinstance(val.re, Fraction) and isinstance(val.im, Fraction)):
                        ok = False
                    cs.append((val.re, val.im))
                else:
                    if not isinstance(val, Fraction):
                        ok = False
                    cs.append(val)
            out[k] = cs
        return out, ok

    def verify_linear(self, hyps=()):
        """SMT check that every entry equals its extracted linear form."""
        co, ok = self.coefs()
        if not ok:
            return smt.Verdict(smt.UNDECIDED, "probe", 0.0, detail="non-numeric coefficient")
        goals = []
        for k, e in self.entries.items():
            if isinstance(e, CScal):
                re = sum((SReal.lift(c[0]) * v for c, v in zip(co[k], self.vars)), z3.RealVal(0))
                im = sum((SReal.lift(c[1]) * v for c, v in zip(co[k], self.vars)), z3.RealVal(0))
                goals.append(SReal.lift(e.re) == re)
                goals.append(SReal.lift(e.im) == im)
            else:
                lin = sum((SReal.lift(c) * v for c, v in zip(co[k], self.vars)), z3.RealVal(0))
                goals.append(SReal.lift(e) == lin)
        return smt.prove(list(hyps), z3.And(*goals), 10)
