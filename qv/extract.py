"""Mechanical extraction: every run re-reads the files under $QV_REPO (default /repo), parses them with
`ast` and selects functions by qualified name  'quatica/utils.py::Class.method'.  Nothing is copied
by hand; the source hash and line span of each function go into the evidence."""
from __future__ import annotations

import ast
import hashlib
import os


def repo_root():
    return os.environ.get("QV_REPO", "/repo")


class Module:
    def __init__(self, root, rel):
        self.root, self.rel = root, rel
        self.path = os.path.join(root, rel)
        with open(self.path, encoding="utf-8") as f:
            self.src = f.read()
        self.tree = ast.parse(self.src, filename=self.path)
        self.lines = self.src.splitlines()
        self.defs = {}      # qualname -> node (functions, classes, methods)
        for n in self.tree.body:
            if isinstance(n, (ast.FunctionDef, ast.AsyncFunctionDef)):
                self.defs[n.name] = n
            elif isinstance(n, ast.ClassDef):
                self.defs[n.name] = n
                for m in n.body:
                    if isinstance(m, ast.FunctionDef):
                        self.defs[f"{n.name}.{m.name}"] = m

    def segment(self, node):
        return "\n".join(self.lines[node.lineno - 1:node.end_lineno])


class Repo:
    def __init__(self, root=None):
        self.root = root or repo_root()
        self._mods = {}

    def module(self, rel) -> Module:
        if rel not in self._mods:
            self._mods[rel] = Module(self.root, rel)
        return self._mods[rel]

    def exists(self, rel):
        return os.path.exists(os.path.join(self.root, rel))

    def function(self, qual):
        rel, name = qual.split("::")
        m = self.module(rel)
        if name not in m.defs:
            raise KeyError(f"{qual}: not found in the current tree")
        return m, m.defs[name]

    def info(self, qual):
        m, n = self.function(qual)
        seg = m.segment(n)
        return {"function": qual, "lines": [n.lineno, n.end_lineno],
                "sha256": hashlib.sha256(seg.encode()).hexdigest()[:16]}

    def head(self):
        import subprocess
        try:
            h = subprocess.run(["git", "-C", self.root, "rev-parse", "HEAD"], capture_output=True, text=True).stdout.strip()
            d = subprocess.run(["git", "-C", self.root, "status", "--porcelain", "--untracked-files=no"], capture_output=True, text=True).stdout.strip()
            return h + ("+dirty" if d else "")
        except Exception:
            return "unknown"
