"""SMT back end: obligations are discharged by the z3 5.1 Python API; `unknown` / timeout is retried
through SMT-LIB text on /usr/bin/cvc5 and /usr/bin/z3 (4.8).  Verdicts are never collapsed:
  proved    - solver answered unsat on (hyps and not goal)
  refuted   - solver answered sat; a model is attached
  undecided - unknown / timeout / error on every back end  (never reported as a violation)
"""
from __future__ import annotations

import os
import subprocess
import tempfile
import time
from fractions import Fraction

import z3

OUT_DIR = os.path.join(os.path.dirname(os.path.dirname(os.path.abspath(__file__))), "out", "obligations")

PROVED, REFUTED, UNDECIDED = "proved", "refuted", "undecided"


class Verdict:
    __slots__ = ("status", "backend", "secs", "model", "detail", "smt2")

    def __init__(self, status, backend, secs, model=None, detail="", smt2=None):
        self.status, self.backend, self.secs, self.model, self.detail, self.smt2 = (
            status, backend, secs, model, detail, smt2)

    def __repr__(self):
        return f"<{self.status} by {self.backend} in {self.secs:.3f}s {self.detail}>"


def _model_to_dict(m):
    d = {}
    for decl in m.decls():
        try:
            v = m[decl]
            d[decl.name()] = str(v)
        except Exception:
            pass
    return d


def _run_cli(cmd, smt2, timeout):
    with tempfile.NamedTemporaryFile("w", suffix=".smt2", delete=False, dir="/var/tmp") as f:
        f.write(smt2)
        path = f.name
    try:
        t0 = time.time()
        p = subprocess.run(cmd + [path], capture_output=True, text=True, timeout=timeout + 5)
        out = (p.stdout or "").strip().splitlines()
        ans = out[0].strip() if out else "unknown"
        return ans, time.time() - t0
    except subprocess.TimeoutExpired:
        return "unknown", timeout
    except Exception as e:  # pragma: no cover
        return "unknown", 0.0
    finally:
        try:
            os.unlink(path)
        except OSError:
            pass


CVC5_FIRST_AFTER = float(os.environ["QV_CVC5_FIRST"]) if os.environ.get("QV_CVC5_FIRST") else None      # seconds; when set (by a case, for its duration) a query z3 has not answered by then goes to cvc5 before z3 gets its full budget


def check_sat(constraints, timeout_s=20.0, logic=None, want_model=True, fallback=True, tactic=None):
    """Satisfiability of the conjunction `constraints` (list of z3 BoolRef). Returns Verdict-like
    tuple (answer in {'sat','unsat','unknown'}, backend, secs, model dict|None, smt2 text)."""
    t0 = time.time()
    s = z3.Solver() if tactic is None else z3.Tactic(tactic).solver()
    staged = CVC5_FIRST_AFTER is not None and fallback and timeout_s > CVC5_FIRST_AFTER and os.path.exists("/usr/bin/cvc5")
    s.set("timeout", int((CVC5_FIRST_AFTER if staged else timeout_s) * 1000))
    for c in constraints:
        s.add(c)
    try:
        r = s.check()
    except z3.Z3Exception as e:
        r = z3.unknown
    secs = time.time() - t0
    smt2 = None
    if staged and r == z3.unknown:
        # families of queries on which cvc5 answers in seconds where z3 needs its whole budget (opt-in per case): ask cvc5 next, then z3 again in full
        smt2 = s.to_smt2()
        ans, dt = _run_cli(["/usr/bin/cvc5", f"--tlimit={int(timeout_s*1000)}"], smt2, timeout_s)
        secs += dt
        if ans in ("sat", "unsat"):
            return ans, "cvc5-1.0.3", secs, None, smt2
        t1 = time.time()
        s.set("timeout", int(timeout_s * 1000))
        try:
            r = s.check()
        except z3.Z3Exception:
            r = z3.unknown
        secs += time.time() - t1
        if r == z3.unknown:
            ans, dt = _run_cli(["/usr/bin/z3", f"-T:{int(timeout_s)}"], smt2, timeout_s)
            secs += dt
            if ans in ("sat", "unsat"):
                return ans, "z3-4.8.12", secs, None, smt2
            return "unknown", "z3-5.1(api)+cvc5+z3-4.8", secs, None, smt2
    if r == z3.unsat:
        return "unsat", "z3-5.1(api)", secs, None, smt2
    if r == z3.sat:
        md = _model_to_dict(s.model()) if want_model else None
        return "sat", "z3-5.1(api)", secs, md, smt2
    if not fallback:
        return "unknown", "z3-5.1(api)", secs, None, smt2
    # fall back to the CLIs through SMT-LIB text
    smt2 = s.to_smt2()
    for name, cmd in (("cvc5-1.0.3", ["/usr/bin/cvc5", f"--tlimit={int(timeout_s*1000)}"]),
                      ("z3-4.8.12", ["/usr/bin/z3", f"-T:{int(timeout_s)}"])):
        if not os.path.exists(cmd[0]):
            continue
        ans, dt = _run_cli(cmd, smt2, timeout_s)
        secs += dt
        if ans in ("sat", "unsat"):
            return ans, name, secs, None, smt2
    return "unknown", "z3-5.1(api)+cvc5+z3-4.8", secs, None, smt2


def prove(hyps, goal, timeout_s=20.0, tactic=None, fallback=True):
    """Validity of  /\\hyps -> goal."""
    ans, be, secs, model, smt2 = check_sat(list(hyps) + [z3.Not(goal)], timeout_s, tactic=tactic, fallback=fallback)
    if ans == "unsat":
        return Verdict(PROVED, be, secs, smt2=smt2)
    if ans == "sat":
        return Verdict(REFUTED, be, secs, model=model, smt2=smt2)
    return Verdict(UNDECIDED, be, secs, detail="unknown/timeout", smt2=smt2)


def satisfiable(hyps, timeout_s=10.0):
    """Cover query: are the hypotheses jointly satisfiable?  ('sat' | 'unsat' | 'unknown')."""
    ans, be, secs, model, _ = check_sat(list(hyps), timeout_s, fallback=False)
    return ans, model, secs


def cross_check_unsat(hyps, goal, timeout_s=20.0):
    """Second-solver confirmation of an unsat (thorough tier). Returns (answer, backend)."""
    s = z3.Solver()
    for c in list(hyps) + [z3.Not(goal)]:
        s.add(c)
    smt2 = s.to_smt2()
    ans, dt = _run_cli(["/usr/bin/cvc5", f"--tlimit={int(timeout_s*1000)}"], smt2, timeout_s)
    if ans in ("sat", "unsat"):
        return ans, "cvc5-1.0.3"
    ans, dt = _run_cli(["/usr/bin/z3", f"-T:{int(timeout_s)}"], smt2, timeout_s)
    return ans, "z3-4.8.12"


def to_real(x):
    if isinstance(x, z3.ExprRef):
        return z3.ToReal(x) if x.sort() == z3.IntSort() else x
    if isinstance(x, bool):
        raise TypeError("bool in arithmetic")
    if isinstance(x, int):
        return z3.RealVal(x)
    if isinstance(x, Fraction):
        return z3.RealVal(str(x.numerator)) / z3.RealVal(str(x.denominator)) if x.denominator != 1 else z3.RealVal(str(x.numerator))
    if isinstance(x, float):
        fr = Fraction(repr(x))
        return to_real(fr)
    raise TypeError(f"cannot convert {type(x)} to z3 Real")


# ---------------------------------------------------------------------------------------------------
# parallel discharge (heavy QF_NRA obligations): each query travels as SMT-LIB text to a worker process
def _worker(job):
    idx, smt2, timeout_s = job
    import time as _t
    import z3 as _z3
    t0 = _t.time()
    try:
        s = _z3.Solver()
        s.set("timeout", int(timeout_s * 1000))
        s.from_string(smt2)
        r = s.check()
        ans = "unsat" if r == _z3.unsat else ("sat" if r == _z3.sat else "unknown")
        model = None
        if r == _z3.sat:
            try:
                m = s.model()
                model = {d.name(): str(m[d]) for d in m.decls()}
            except Exception:
                model = None
        be = "z3-5.1(api,worker)"
        if ans == "unknown":
            for name, cmd in (("cvc5-1.0.3", ["/usr/bin/cvc5", f"--tlimit={int(timeout_s*1000)}"]), ("z3-4.8.12", ["/usr/bin/z3", f"-T:{int(timeout_s)}"])):
                a2, dt = _run_cli(cmd, smt2, timeout_s)
                if a2 in ("sat", "unsat"):
                    ans, be = a2, name
                    break
        return idx, ans, be, _t.time() - t0, model
    except Exception as e:  # pragma: no cover
        return idx, "unknown", f"worker error {type(e).__name__}: {e}", _t.time() - t0, None


def prove_many(queries, timeout_s=60.0, procs=None):
    """queries: list of (hyps, goal).  Returns a list of Verdict in the same order, discharged in parallel."""
    import multiprocessing as mp
    jobs = []
    for i, (hyps, goal) in enumerate(queries):
        s = z3.Solver()
        for h in hyps:
            s.add(h)
        s.add(z3.Not(goal))
        jobs.append((i, s.to_smt2(), timeout_s))
    if not jobs:
        return []
    procs = procs or min(16, max(1, (os.cpu_count() or 2)), len(jobs))
    ctx = mp.get_context("fork")
    with ctx.Pool(procs) as pool:
        res = pool.map(_worker, jobs, chunksize=1)
    out = [None] * len(jobs)
    for idx, ans, be, secs, model in res:
        if ans == "unsat":
            out[idx] = Verdict(PROVED, be, secs)
        elif ans == "sat":
            out[idx] = Verdict(REFUTED, be, secs, model=model)
        else:
            out[idx] = Verdict(UNDECIDED, be, secs, detail="unknown/timeout")
    return out
