from __future__ import annotations

import argparse
import importlib
import json
import os
import sys
import traceback


def main(argv=None):
    ap = argparse.ArgumentParser(prog="check")
    ap.add_argument("prop")
    ap.add_argument("--tier", default=os.environ.get("VERIF_TIER", "quick"), choices=["quick", "thorough"])
    ap.add_argument("--replay", default=None)
    ap.add_argument("--seed", type=int, default=int(os.environ.get("VERIF_SEED", "0") or 0))
    a = ap.parse_args(argv)
    prop = a.prop.upper()
    import warnings
    warnings.filterwarnings("ignore")
    try:
        import numpy as _np
        _np.seterr(all="ignore")
    except Exception:
        pass
    try:
        mod = importlib.import_module(f"qv.props.{prop.lower()}")
    except ModuleNotFoundError as e:
        print(f"INTERNAL: no check module for {prop}: {e}")
        return 3
    try:
        if a.replay:
            return mod.replay(a.replay)
        rep = mod.run(a.tier, a.seed)
        return rep.finish()
    except Exception:
        traceback.print_exc()
        print(f"INTERNAL: harness failure in {prop}")
        return 3


if __name__ == "__main__":
    sys.exit(main())
