"""Spec layer: written from the property statements, never read from the code.

The Hamilton product is generated from the multiplication table of {1,i,j,k}:  e_a e_b = SIGN[a][b] e_{IDX[a][b]}.
spec/Spec.lean (generated from this very table by `qv.leanspec`) is checked by Lean against Mathlib's
Quaternion so a wrong table fails there, independently of the code under verification."""
from __future__ import annotations

from fractions import Fraction

# component order (w, x, y, z) = (1, i, j, k)
IDX = [[0, 1, 2, 3],
       [1, 0, 3, 2],
       [2, 3, 0, 1],
       [3, 2, 1, 0]]
SIGN = [[1, 1, 1, 1],
        [1, -1, 1, -1],
        [1, -1, -1, 1],
        [1, 1, -1, -1]]


def hamilton(A, B, mul, add=None, neg=None, zero=None):
    """Generic Hamilton product of two 4-component objects; `mul` multiplies components (matrix
    product, scalar product, ...).  C_c = sum_{a.b=c} SIGN[a][b] A_a B_b."""
    out = [None] * 4
    for a in range(4):
        for b in range(4):
            t = mul(A[a], B[b])
            if SIGN[a][b] < 0:
                t = -t
            c = IDX[a][b]
            out[c] = t if out[c] is None else out[c] + t
    return out


def ham_sym(A, B):
    """A, B: lists of four RMat/NC-like objects supporting @, +, unary -."""
    return hamilton(A, B, lambda x, y: x @ y)


def herm_sym(A):
    return [A[0].T, -A[1].T, -A[2].T, -A[3].T]


def conj4(q):
    return [q[0], -q[1], -q[2], -q[3]]


# -- exact rational oracle on concrete data (bounded stand-ins / replay) -----------------------------
def ham_exact(A, B):
    """A: m x k, B: k x n nested lists of 4-tuples of Fractions/ints -> m x n of 4-tuples (exact)."""
    m, k, n = len(A), len(B), len(B[0]) if B else 0
    C = [[[Fraction(0)] * 4 for _ in range(n)] for _ in range(m)]
    for i in range(m):
        for j in range(n):
            acc = [Fraction(0)] * 4
            for l in range(k):
                p, q = A[i][l], B[l][j]
                for a in range(4):
                    if p[a] == 0:
                        continue
                    for b in range(4):
                        if q[b] == 0:
                            continue
                        acc[IDX[a][b]] += SIGN[a][b] * Fraction(p[a]) * Fraction(q[b])
            C[i][j] = acc
    return C


def ham_np(A4, B4):
    """numpy: A4 (m,k,4), B4 (k,n,4) float arrays -> (m,n,4), straight from the table (einsum per term)."""
    import numpy as np
    m, n = A4.shape[0], B4.shape[1]
    C = np.zeros((m, n, 4))
    for a in range(4):
        for b in range(4):
            C[..., IDX[a][b]] += SIGN[a][b] * (A4[..., a] @ B4[..., b])
    return C


def herm_np(A4):
    import numpy as np
    H = np.transpose(A4, (1, 0, 2)).copy()
    H[..., 1:] *= -1
    return H
