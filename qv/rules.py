"""Reusable loop rules (sidecar side of the invariant rule)."""
from __future__ import annotations

from . import idx as ix
from .interp import LoopRule
from .sym import cur, sand, SBool
from .values import Opaque


class FunctionalInv(LoopRule):
    """Invariant of the form  'array V equals the closed form F_V(k)' / 'scalar v equals f_v(k)'.

    arrays : name -> closed(interp, frame, k) returning a function  view-index -> value
    scalars: name -> closed(interp, frame, k) returning the value
    extra  : optional callable(interp, frame, k) adding assumptions at havoc time (facts about ghost
             functions instantiated at k), and check(interp, frame, k) for additional obligations.
    """

    def __init__(self, arrays=None, scalars=None, assume=None, tag=""):
        self.arrays = arrays or {}
        self.scalars = scalars or {}
        self.assume_fn = assume
        self.modifies = tuple(self.arrays) + tuple(self.scalars)
        self.tag = tag

    def _check(self, it, fr, k, phase):
        c = cur()
        for name, closed in self.arrays.items():
            arr = fr.vars.get(name)
            if not isinstance(arr, ix.IArr):
                c.require(f"inv.{phase}.{name}", False, f"{name} is not an array at loop {phase}", key=f"{self.tag}inv.{phase}.{name}")
                continue
            want = closed(it, fr, k)
            cond, _ = ix.pointwise_eq(c, arr, want)
            c.require(f"inv.{phase}", cond, f"{name}[idx] equals its closed form at k={k}", key=f"{self.tag}inv.{phase}.{name}")
        for name, closed in self.scalars.items():
            have = fr.vars.get(name)
            want = closed(it, fr, k)
            c.require(f"inv.{phase}", ix.scal_eq(have, want), f"{name} equals its closed form at k={k}", key=f"{self.tag}inv.{phase}.{name}")

    def establish(self, it, fr, start):
        if self.assume_fn is not None:
            self.assume_fn(it, fr, start)
        self._check(it, fr, start, "establish")

    def havoc(self, it, fr, k):
        if self.assume_fn is not None:
            self.assume_fn(it, fr, k)
        for name, closed in self.arrays.items():
            arr = fr.vars[name]
            f = closed(it, fr, k)
            _set_whole(arr, f)
        for name, closed in self.scalars.items():
            fr.vars[name] = closed(it, fr, k)

    def preserve(self, it, fr, k):
        if self.assume_fn is not None:
            self.assume_fn(it, fr, k + 1)
        self._check(it, fr, k + 1, "preserve")


def _set_whole(arr: ix.IArr, f):
    """Replace the contents of the store behind a whole-array view by the closed form f(view idx)."""
    for a, ax in enumerate(arr.axes):
        if ax[0] == "rng" and not (isinstance(ax[1], int) and ax[1] == 0 and ax[2] == a):
            raise ix.OutOfReach("loop invariant on a non-trivial view")
        if ax[0] == "fix":
            raise ix.OutOfReach("loop invariant on a partial view")
    if arr.quat:
        memo = {}

        def cell(idx):
            k = ix._ikey(idx[:-1])
            if k is not None and k in memo:
                q = memo[k]
            else:
                q = ix.QScal.lift(f(tuple(idx[:-1])))
                if k is not None:
                    memo[k] = q
            comp = idx[-1]
            if isinstance(comp, int):
                return q.c[comp]
            return ix.ite(comp == 0, q.c[0], ix.ite(comp == 1, q.c[1], ix.ite(comp == 2, q.c[2], q.c[3])))
    else:
        def cell(idx):
            return f(tuple(idx))
    arr.store.cell = cell


class ListInv(LoopRule):
    """Invariant for loops that only append to Python lists: after k iterations list L has exactly k
    entries and entry j is entry_L(j) (closed form, independent of k).  Other managed variables can be
    given as scalars (closed forms) like in FunctionalInv."""

    def __init__(self, lists, scalars=None, tag=""):
        self.lists = lists            # name -> f(interp, frame) returning entry function j -> value
        self.scalars = scalars or {}
        self.modifies = tuple(lists) + tuple(self.scalars)
        self.tag = tag

    def establish(self, it, fr, start):
        c = cur()
        for name in self.lists:
            v = fr.vars.get(name)
            ok = isinstance(v, list) and len(v) == 0 and (isinstance(start, int) and start == 0)
            c.require("inv.establish", ok, f"{name} is an empty list at loop entry", key=f"{self.tag}inv.establish.{name}")
        for name, closed in self.scalars.items():
            c.require("inv.establish", ix.scal_eq(fr.vars.get(name), closed(it, fr, start)), f"{name} closed form at entry", key=f"{self.tag}inv.establish.{name}")

    def havoc(self, it, fr, k):
        from .values import SymList
        for name, mk in self.lists.items():
            fr.vars[name] = SymList(k, name, entry=mk(it, fr))
        for name, closed in self.scalars.items():
            fr.vars[name] = closed(it, fr, k)

    def preserve(self, it, fr, k):
        from .values import SymList
        c = cur()
        for name, mk in self.lists.items():
            v = fr.vars.get(name)
            ok = isinstance(v, SymList) and len(v.items) == 1
            c.require("inv.preserve", ok, f"exactly one append to {name} per iteration", key=f"{self.tag}inv.preserve.{name}.one_append")
            if ok:
                c.require("inv.preserve", ix.scal_eq(v.items[0], mk(it, fr)(k)), f"{name}[k] equals its closed form", key=f"{self.tag}inv.preserve.{name}.value")
        for name, closed in self.scalars.items():
            c.require("inv.preserve", ix.scal_eq(fr.vars.get(name), closed(it, fr, k + 1)), f"{name} closed form", key=f"{self.tag}inv.preserve.{name}")


class HavocAll(LoopRule):
    """Invariant 'True': after the loop every variable the body may modify holds an arbitrary value of
    its kind (given by a factory).  Used to verify code after a loop for *any* result of the loop (including
    exits through break); it proves nothing about the loop body, which is not executed."""
    skip_body = True

    def __init__(self, factories):
        self.factories = factories
        self.modifies = tuple(factories)

    def havoc(self, it, fr, k):
        for name, mk in self.factories.items():
            fr.vars[name] = mk(it, fr)
