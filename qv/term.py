"""Term-level array domain: arrays are opaque terms with a symbolic shape.  Nothing is known about their entries;
what is tracked is PROVENANCE - which (contracted) operations produced a value from which arguments.  Callee contracts
are deterministic abstract functions of their arguments (hash-consed term nodes), so "the residual that is returned
is norm(b - A*xm)/norm(b) of the xm that is returned" is a structural equality of terms.

Used for bookkeeping obligations of code whose numerics are outside contract reach (C04: the Arnoldi core)."""
from __future__ import annotations

from fractions import Fraction

import z3

from .sym import OutOfReach, Raised, SBool, SInt, SReal, cur, is_reallike


def _is_cscal(x):
    return any(c.__name__ == "CScal" for c in type(x).__mro__)


def _key(x):
    """Canonical hashable key of an index / scalar."""
    if isinstance(x, TArr):
        return x.node
    if isinstance(x, (SInt, SReal, SBool)):
        return ("z3", str(x.z))
    if _is_cscal(x):
        return ("cx", _key(x.re), _key(x.im))
    if isinstance(x, slice):
        return ("slice", _key(x.start), _key(x.stop), _key(x.step))
    if isinstance(x, tuple):
        return tuple(_key(i) for i in x)
    if isinstance(x, list):
        return ("list",) + tuple(_key(i) for i in x)
    if isinstance(x, float):
        return Fraction(repr(x))
    return x


def _len(sl, dim):
    lo = 0 if sl.start is None else sl.start
    hi = dim if sl.stop is None else sl.stop
    if sl.step not in (None, 1):
        raise OutOfReach("strided slice of a term array")
    return hi - lo


class TArr:
    qv_value = True

    def __init__(self, node, shape, **attrs):
        self.node, self.shape = node, tuple(shape)
        self.attrs = dict(attrs)

    @property
    def ndim(self):
        return len(self.shape)

    @property
    def T(self):
        return TArr(("T", self.node), tuple(reversed(self.shape)))

    @property
    def size(self):
        n = 1
        for d in self.shape:
            n = n * d
        return n

    def copy(self):
        return TArr(self.node, self.shape, **self.attrs)

    def flatten(self):
        return TArr(("flat", self.node), (self.size,))

    def has_attr(self, name):
        return name in ("shape", "ndim", "T", "size", "copy", "flatten", "dtype", "reshape")

    def reshape(self, *shape):
        """Layout only: recorded as a node so that provenance can be compared modulo layout (see strip)."""
        if len(shape) == 1 and isinstance(shape[0], tuple):
            shape = shape[0]
        if len(shape) == 1 and isinstance(shape[0], int) and shape[0] == -1:
            return TArr(("reshape", self.node, _key((-1,))), (self.size,))
        return TArr(("reshape", self.node, _key(tuple(shape))), tuple(shape))

    def __matmul__(self, o):
        if not isinstance(o, TArr):
            return NotImplemented
        shp = (self.shape[0],) if len(o.shape) == 1 else (self.shape[0], o.shape[1])
        return TArr(("matmul", self.node, o.node), shp)

    # numpy functions reached through the library's dispatch
    def _np_stack(self, args, axis=0):
        parts = list(args[0])
        if not all(isinstance(p, TArr) for p in parts):
            raise OutOfReach("np.stack of mixed values")
        shp = tuple(parts[0].shape) + (len(parts),) if axis == -1 else (len(parts),) + tuple(parts[0].shape)
        return TArr(("stack", tuple(p.node for p in parts), axis), shp)

    def _np_norm(self, args, ord=None):
        if ord not in (None, 2, "fro"):
            raise OutOfReach("norm order of a term array")
        return norm_term([self])

    def _q_as_quat_array(self, args):
        if not self.shape or not (isinstance(self.shape[-1], int) and self.shape[-1] == 4):
            raise Raised("ValueError", "as_quat_array needs a trailing axis of length 4")
        return TArr(("asquat", self.node), self.shape[:-1])

    def _bin(self, op, o, swap=False):
        if isinstance(o, TArr):
            a, b = (o, self) if swap else (self, o)
            shp = a.shape if len(a.shape) >= len(b.shape) else b.shape
            return TArr((op, a.node, b.node), shp)
        if is_reallike(o) or isinstance(o, (int, Fraction)) or _is_cscal(o):
            k = _key(o)
            return TArr((op, k, self.node) if swap else (op, self.node, k), self.shape)
        return NotImplemented

    def __add__(self, o):
        return self._bin("add", o)

    def __radd__(self, o):
        return self._bin("add", o, True)

    def __sub__(self, o):
        return self._bin("sub", o)

    def __rsub__(self, o):
        return self._bin("sub", o, True)

    def __mul__(self, o):
        return self._bin("mul", o)

    def __rmul__(self, o):
        return self._bin("mul", o, True)

    def __truediv__(self, o):
        return self._bin("div", o)

    def __neg__(self):
        return TArr(("neg", self.node), self.shape)

    def __pow__(self, o):
        return self._bin("pow", o)

    def sum(self, axis=None, **kw):
        """total of all entries: a real named by the array term (the same array gives the same total)"""
        if axis is not None or kw:
            raise OutOfReach("sum over an axis of an abstract array")
        return NPFloat(z3.Real("sum[" + repr(strip(self.node)) + "]"))

    def getitem(self, idx):
        t = idx if isinstance(idx, tuple) else (idx,)
        if any(i is Ellipsis for i in t):
            k = [j for j, i in enumerate(t) if i is Ellipsis]
            if len(k) > 1:
                raise Raised("IndexError", "an index can only have a single ellipsis")
            t = t[:k[0]] + (slice(None),) * (len(self.shape) - (len(t) - 1)) + t[k[0] + 1:]
        if len(t) > len(self.shape):
            raise Raised("IndexError", "too many indices")
        t = t + (slice(None),) * (len(self.shape) - len(t))
        shp = []
        for i, d in zip(t, self.shape):
            if isinstance(i, slice):
                shp.append(_len(i, d))
        if not shp:
            # scalar cell: an uninterpreted real named by its provenance
            return SReal(z3.Real("cell[" + repr(("get", self.node, _key(t))) + "]"))
        out = TArr(("get", self.node, _key(t)), shp)
        if len(self.shape) == 1 and isinstance(t[0], slice) and t[0].step in (None, 1):
            _register_slice(self, t[0], out)
        return out

    def setitem(self, idx, val):
        self.node = ("set", self.node, _key(idx), _key(val))
        self.attrs = {}


def _register_slice(parent, sl, part):
    """Layout axiom (Frobenius norm of a vector cut in two): once both v[:a] and v[a:] of a 1-D array v have been taken,
    ||v||^2 = ||v[:a]||^2 + ||v[a:]||^2  is assumed for the norm terms.  (A fact about slicing and the definition of the norm; listed
    with the library axioms A3.)"""
    c = cur()
    reg = c.ghost.setdefault("term_slices", {})
    lo = 0 if sl.start is None else sl.start
    hi = parent.shape[0] if sl.stop is None else sl.stop
    lst = reg.setdefault(parent.node, [])
    for lo2, hi2, other in lst:
        for (a0, a1, x), (b0, b1, y) in (((lo, hi, part), (lo2, hi2, other)), ((lo2, hi2, other), (lo, hi, part))):
            cond = SBool.mk(z3.And(SInt.lift(a0) == 0, SInt.lift(a1) == SInt.lift(b0), SInt.lift(b1) == SInt.lift(parent.shape[0])))
            if c.valid(cond) is True:
                nv, nx, ny = norm_term([parent]), norm_term([x]), norm_term([y])
                c.assume(nv * nv == nx * nx + ny * ny)
    lst.append((lo, hi, part))


def atom(name, shape, **attrs):
    return TArr(("atom", name), shape, **attrs)


# ---------------------------------------------------------------------------------------------------
# library pieces
def np_zeros(shape, dtype=None):
    shape = shape if isinstance(shape, tuple) else (shape,)
    return TArr(("zeros", _key(shape)), shape)


def np_zeros_like(a, dtype=None):
    return TArr(("zeros", _key(tuple(a.shape))), a.shape)


def np_column_stack(parts):
    parts = list(parts)
    rows = parts[0].shape[0]
    cols = 0
    for p in parts:
        cols = cols + (p.shape[1] if len(p.shape) == 2 else 1)
    return TArr(("colstack",) + tuple(p.node for p in parts), (rows, cols))


def np_vstack(parts):
    parts = list(parts)
    rows = 0
    for p in parts:
        rows = rows + p.shape[0]
    out = TArr(("vstack",) + tuple(p.node for p in parts), (rows, parts[0].shape[1]))
    if len(parts) == 4:
        out.attrs["quarter_rows"] = parts[0].shape[0]
    return out


def strip(node):
    """Provenance modulo layout: reshape / flatten wrappers removed (they do not change the multiset of entries
    nor their order for the vectors they are applied to)."""
    if isinstance(node, tuple):
        if node and node[0] in ("reshape", "flat") and len(node) >= 2:
            return strip(node[1])
        return tuple(strip(x) for x in node)
    return node


def _fallthrough(orig, pred, mine):
    def f(*a, **k):
        if pred(a):
            return mine(*a, **k)
        if orig is None:
            raise OutOfReach("library function not modelled for these arguments")
        return orig(*a, **k)
    return f


def _first_is_tarr(a):
    return bool(a) and (isinstance(a[0], TArr) or (isinstance(a[0], (list, tuple)) and a[0] and isinstance(a[0][0], TArr)))


def np_real(a):
    return TArr(("real", a.node), a.shape)


def np_imag(a):
    return TArr(("imag", a.node), a.shape)


def np_concatenate(parts, axis=0):
    parts = list(parts)
    n = 0
    for p in parts:
        n = n + p.shape[0]
    return TArr(("concat",) + tuple(p.node for p in parts), (n,) + tuple(parts[0].shape[1:]))


_NPC = None


def np_complex(re, im):
    """A numpy complex scalar produced by a kernel: dividing by it never raises (nan / inf instead; not modelled, A1), and
    multiplying an array by it is the array's business."""
    global _NPC
    if _NPC is None:
        from .idx import CScal

        class NPCScal(CScal):
            __slots__ = ()

            def __mul__(self, o):
                if isinstance(o, TArr) or getattr(o, "takes_complex_scalar", False):
                    return NotImplemented
                return CScal.__mul__(self, o)

            __rmul__ = __mul__

            def __truediv__(self, o):
                if isinstance(o, NPCScal):
                    d = NPFloat((o.re * o.re + o.im * o.im).z)
                    n = CScal.__mul__(self, o.conjugate())
                    return NPCScal(n.re / d, n.im / d)
                return CScal.__truediv__(self, o)
        _NPC = NPCScal
    return _NPC(re, im)


def np_vdot(a, b):
    k = repr(("vdot", _key(a), _key(b)))
    return np_complex(SReal(z3.Real("re" + k)), SReal(z3.Real("im" + k)))


def install(lib):
    t = lib.np.table
    t["zeros"], t["column_stack"], t["vstack"] = np_zeros, np_column_stack, np_vstack
    for name, mine in (("zeros_like", np_zeros_like), ("real", np_real), ("imag", np_imag), ("concatenate", np_concatenate), ("vdot", np_vdot)):
        t[name] = _fallthrough(t.get(name), _first_is_tarr, mine)
    return lib


# ---------------------------------------------------------------------------------------------------
# kernel contracts as abstract functions
class NPFloat(SReal):
    """A numpy float64 result of a kernel: dividing by it never raises (inf / nan instead; not modelled, A1)."""
    __slots__ = ()
    np_float64 = True


def norm_term(comps):
    """normQsparse(x0..x3) as an uninterpreted non-negative real named by the argument terms."""
    s = NPFloat(z3.Real("norm[" + repr(tuple(strip(_key(c)) for c in comps)) + "]"))
    cur().assume(s >= 0, base=True)
    return s


def k_norm(I, args, kwargs):
    return norm_term(args[:4])


def times_terms(B, C):
    nb, nc = tuple(_key(x) for x in B), tuple(_key(x) for x in C)
    shapeB = B[0].shape if isinstance(B[0], TArr) else ()
    shapeC = C[0].shape if isinstance(C[0], TArr) else ()
    if len(shapeB) == 2 and len(shapeC) == 2:
        shp = (shapeB[0], shapeC[1])
    elif len(shapeB) == 2:
        shp = shapeB
    else:
        shp = shapeC
    return tuple(TArr(("times", c, nb, nc), shp) for c in range(4))


def k_times(I, args, kwargs):
    return times_terms(args[:4], args[4:8])


def k_hess_qr(I, args, kwargs):
    (H,) = args
    M = H.attrs.get("quarter_rows")
    if M is None:
        raise OutOfReach("Hess_QR_ggivens on an array that is not a 4-fold vertical stack")
    n = H.shape[1]
    return (TArr(("hessU", H.node), (M, 4 * M), quarter_cols=M), TArr(("hessR", H.node), (M, 4 * n), quarter_cols=n))


def k_a2a0123(I, args, kwargs):
    (A,) = args
    q = A.attrs.get("quarter_cols")
    if q is None:
        raise OutOfReach("A2A0123 on an array of unknown block structure")
    return tuple(TArr(("block", c, A.node), (A.shape[0], q)) for c in range(4))


def k_utriangle(I, args, kwargs):
    R, b = args[:4], args[4:8]
    return tuple(TArr(("utri", c, tuple(_key(x) for x in R), tuple(_key(x) for x in b)), b[0].shape) for c in range(4))
