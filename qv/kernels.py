"""Contracts of the quaternion kernels at the level of the abstract quaternion algebra (HMat) and at
component level (QMat / sparse objects).  Callers (solvers, decompositions) are verified against these,
never against the kernel bodies; the bodies are verified against the same specs in C01 / C15."""
from __future__ import annotations

from fractions import Fraction

from . import nc as ncm
from . import spec
from .nc import NC
from .sym import OutOfReach, Raised, ssqrt
from .values import HMat, QMat, RMat, Obj

U = "quatica/utils.py::"


def k_quat_matmat(I, args, kwargs):
    A, B = args
    if isinstance(A, HMat) and isinstance(B, HMat):
        return HMat(A.p @ B.p)
    from .props.c01 import k_matmul, comps_of
    return k_matmul(I, [A, B], {})


def k_quat_hermitian(I, args, kwargs):
    (A,) = args
    if isinstance(A, HMat):
        return HMat(A.p.star)
    from . import idx as ix
    if isinstance(A, ix.IArr):
        return A.conj().transpose()
    from .props.c01 import comps_of, is_sparse_obj, mk_sparse_from
    c = spec.herm_sym(comps_of(A))
    if is_sparse_obj(A):
        return mk_sparse_from(I, c, (A.fields["shape"][1], A.fields["shape"][0]))
    return QMat([RMat(x.p, "dense") for x in c])


def k_quat_frobenius_norm(I, args, kwargs):
    (A,) = args
    if isinstance(A, HMat):
        return ssqrt(ncm.fro2(A.p))
    from .props.c01 import comps_of
    tot = Fraction(0)
    for c in comps_of(A):
        tot = tot + ncm.fro2(c.p)
    return ssqrt(tot)


def k_quat_eye(I, args, kwargs):
    (n,) = args
    mode = getattr(I.lib, "qmode", "H")
    if mode == "H":
        return HMat(NC.eye(n))
    z = RMat(NC.zero(n, n))
    return QMat([RMat(NC.eye(n)), z, z, z])


ALGEBRA = {
    U + "quat_matmat": k_quat_matmat,
    U + "quat_hermitian": k_quat_hermitian,
    U + "quat_frobenius_norm": k_quat_frobenius_norm,
    U + "quat_eye": k_quat_eye,
}
