"""Obligation bookkeeping, per-property report, evidence file, verdict mapping.

Exit codes of ./check:  0 held (incl. known findings) / 1 violation (VIOLATION line printed) /
3 internal failure of the harness (never printed as a violation).
"""
from __future__ import annotations

import json
import os
import sys
import time
import traceback
from fractions import Fraction

from . import smt
from .extract import Repo
from .sym import Ctx, OutOfReach, PathAbort, Raised, explore
from . import nc as ncm

ROOT = os.path.dirname(os.path.dirname(os.path.abspath(__file__)))


class Obligation:
    __slots__ = ("id", "fn", "scope", "status", "backend", "secs", "detail", "replay", "kind")

    def __init__(self, id, fn, scope="all-shapes", status=smt.UNDECIDED, backend="", secs=0.0, detail=None,
                 replay=None, kind="post"):
        self.id, self.fn, self.scope, self.status, self.backend, self.secs, self.detail, self.replay, self.kind = (
            id, fn, scope, status, backend, secs, detail, replay, kind)

    def to_json(self):
        d = {"id": self.id, "function": self.fn, "scope": self.scope, "result": self.status,
             "backend": self.backend, "seconds": round(self.secs, 4), "kind": self.kind}
        if self.detail and self.status != smt.PROVED:
            d["detail"] = _jsonable(self.detail)
        return d


def _jsonable(x, depth=0):
    if depth > 6:
        return str(x)[:200]
    if isinstance(x, (str, int, bool)) or x is None:
        return x
    if isinstance(x, float):
        if x != x or x in (float("inf"), float("-inf")):
            return repr(x)
        return x
    if isinstance(x, Fraction):
        return float(x) if abs(x.denominator) < 10**6 else str(x)
    if isinstance(x, dict):
        return {str(k): _jsonable(v, depth + 1) for k, v in list(x.items())[:60]}
    if isinstance(x, (list, tuple, set)):
        return [_jsonable(v, depth + 1) for v in list(x)[:60]]
    try:
        import numpy as np
        if isinstance(x, np.ndarray):
            if x.dtype.name == "quaternion":
                import quaternion
                return {"quaternion_array": quaternion.as_float_array(x).tolist()}
            if x.dtype.kind == "c":
                return {"complex_array": [x.real.tolist(), x.imag.tolist()]}
            return x.tolist()
        if isinstance(x, np.generic):
            return _jsonable(x.item(), depth + 1)
    except Exception:
        pass
    return str(x)[:300]


class Bounded:
    """A bounded stand-in: enumeration of concrete cases run on the real code (never counted as proved)."""

    def __init__(self, name, bound, rule, rep=None):
        self.name, self.bound, self.rule, self.rep = name, bound, rule, rep
        self.evaluations = 0
        self.distinct = set()
        self.failures = []
        self.failed_ids = set()
        self.samples = []
        self.known_hits = []
        self.secs = 0.0
        self.t0 = time.time()

    def case(self, cid, key, fn, text, facts=None, nontrivial=True, inputs=None):
        """Run one concrete case.  fn() returns None/True when the runtime contract holds, or a dict /
        False describing the failure.  An exception raised by the real code on an in-domain input is a
        contract failure like any other."""
        self.evaluations += 1
        if nontrivial:
            self.distinct.add(key)
        import contextlib
        import io
        try:
            with contextlib.redirect_stdout(io.StringIO()):     # the library prints progress / warnings
                res = fn()
        except Exception as e:
            tb = traceback.format_exc().splitlines()
            res = {"exception": f"{type(e).__name__}: {e}", "trace": tb[-6:]}
        if res is None or res is True:
            return True
        if res is False:
            res = {}
        known = self.rep.known if self.rep is not None else []
        kf = match_known(known, cid, facts if facts is not None else {})
        if kf is not None:
            self.known_hits.append((kf["key"], f"{cid}: {kf['text']}"))
            return False
        if cid not in self.failed_ids:
            self.failed_ids.add(cid)
            d = {"id": cid, "text": text, "failed": True, "case_key": key, "facts": facts}
            if inputs is not None:
                d["inputs"] = inputs() if callable(inputs) else inputs
            d.update(res)
            self.failures.append(d)
        return False

    def done(self):
        self.secs = time.time() - self.t0

    def to_json(self):
        return {"name": self.name, "bound": self.bound, "rule": self.rule, "evaluations": self.evaluations,
                "distinct_nontrivial": len(self.distinct), "failures": len(self.failures),
                "known_finding_hits": len(self.known_hits), "seconds": round(self.secs, 2),
                "samples": _jsonable(self.samples[:3])}


class Report:
    def __init__(self, prop, tier, seed, level):
        self.prop, self.tier, self.seed, self.level = prop, tier, seed, level
        self.repo = Repo()
        self.obligations = []
        self.bounded = []
        self.functions = {}
        self.assumptions = []
        self.trusted = []
        self.notes = []
        self.violations = []     # dicts: id, text, replay(dict), no_failing_input(bool)
        self.known_hits = []     # (key, text)
        self.t0 = time.time()
        self.solver_secs = 0.0
        self.canaries = []       # (id, refuted?)
        self.inlined = set()
        self.used_contracts = set()
        self.dropped = set()
        self.known = load_known(prop)
        self.internal_errors = []

    # -- registration --------------------------------------------------------------------------
    def function(self, qual):
        if qual not in self.functions:
            try:
                self.functions[qual] = self.repo.info(qual)
            except KeyError as e:
                self.functions[qual] = {"function": qual, "missing": True}
        return self.functions[qual]

    def add(self, ob: Obligation):
        self.obligations.append(ob)
        self.solver_secs += ob.secs
        return ob

    def add_bounded(self, b: Bounded):
        b.rep = self
        self.bounded.append(b)
        return b

    def canary(self, id, refuted, detail=""):
        self.canaries.append({"id": id, "refuted": bool(refuted), "detail": detail})

    # -- finishing -----------------------------------------------------------------------------
    def finish(self):
        out_lines = []
        baseline = load_baseline()
        # 1. deductive obligations
        for ob in self.obligations:
            if ob.status != smt.REFUTED:
                continue
            kf = match_known(self.known, ob.id, None)
            if kf is not None:
                self.known_hits.append((kf["key"], f"obligation {ob.id} refuted: {kf['text']}"))
                ob.kind = "known-finding"
                continue
            rep = None
            if ob.replay is not None:
                try:
                    rep = ob.replay(self.seed)
                except Exception as e:
                    rep = {"failed": False, "error": f"replay crashed: {type(e).__name__}: {e}"}
            failed = bool(rep and rep.get("failed"))
            cr = None
            if isinstance(ob.detail, dict):
                cr = ob.detail.get("counterexample_replay") or (ob.detail.get("model") or {}).get("counterexample_replay") if isinstance(ob.detail.get("model"), dict) or ob.detail.get("counterexample_replay") else None
            if cr and cr.get("real_code_fails"):
                # the verifier's own counterexample, shrunk to a small shape, fails on the real code
                rep = {"failed": True, "source": "verifier counterexample (shrunk) replayed on the real code", **cr}
                failed = True
            if not failed and ob.id not in baseline.get(self.prop, []) and baseline.get(self.prop) is not None and not os.environ.get("QV_STRICT"):
                # refuted, not reproduced, and never proved on the unchanged tree: contract suspect -> undecided
                ob.status = smt.UNDECIDED
                ob.detail = {"note": "refuted but not in baseline and no failing input: treated as undecided", "was": ob.detail}
                continue
            self.violations.append({"id": ob.id, "text": f"obligation {ob.id} on {ob.fn} refuted by {ob.backend}",
                                    "solver": ob.detail, "replay": rep, "no_failing_input": not failed})
        # 2. canaries must be refuted
        for c in self.canaries:
            if not c["refuted"]:
                self.internal_errors.append(f"canary {c['id']} was not refuted: the encoding is vacuous or unsound")
        # 3. bounded stand-ins
        for b in self.bounded:
            for f in b.failures:
                self.violations.append({"id": f.get("id", b.name), "text": f.get("text", f"bounded stand-in {b.name} failed"),
                                        "replay": f, "no_failing_input": False, "bounded": True})
            for k in b.known_hits:
                self.known_hits.append(k)
        counted = [o for o in self.obligations if o.kind != "known-finding"]
        n_ob = len(counted)
        n_ok = sum(1 for o in counted if o.status == smt.PROVED)
        n_und = sum(1 for o in counted if o.status == smt.UNDECIDED)
        if n_ob == 0 and not self.bounded:
            self.internal_errors.append("zero obligations generated: vacuous run")
        # baseline drift: obligations proved on the unchanged tree that are no longer proved
        lost = []
        if baseline.get(self.prop):
            have = {o.id: o.status for o in self.obligations}
            for oid in baseline[self.prop]:
                if have.get(oid) != smt.PROVED and not any(v["id"] == oid for v in self.violations):
                    if self.tier == "quick" and oid.startswith(self.prop) and oid in load_baseline_thorough_only():
                        continue
                    lost.append(oid)
        level = self.level
        if level == "proof" and (n_und or lost or n_ok != n_ob):
            if not self.violations:
                level_eff = "exploration" if self.bounded and sum(len(b.distinct) for b in self.bounded) >= 2 else "other"
            else:
                level_eff = level
        else:
            level_eff = level
        # distinct known hits
        seen = set()
        for key, text in self.known_hits:
            if key in seen:
                continue
            seen.add(key)
            out_lines.append(f"KNOWN-FINDING: property={self.prop} {text}")
        wall = time.time() - self.t0
        # replay files + violation lines
        rc = 0
        # runs against a scratch tree (QV_REPO set by my own seed trials) must not overwrite the evidence of /repo
        scratch = os.environ.get("QV_REPO") not in (None, "", "/repo") or os.environ.get("QV_DEV_SKIP_DEDUCTIVE") == "1"
        OUT = os.path.join(ROOT, "out", "scratch") if scratch else ROOT
        for i, v in enumerate(self.violations):
            os.makedirs(os.path.join(OUT, "replays", self.prop), exist_ok=True)
            path = os.path.join(OUT, "replays", self.prop, f"{_safe(v['id'])}.json")
            payload = {"property": self.prop, "obligation": v["id"], "text": v["text"], "solver_output": v.get("solver"),
                       "replay": v.get("replay"), "repo_head": self.repo.head(), "seed": self.seed,
                       "rerun": f"./check {self.prop} --replay {os.path.relpath(path, ROOT)}"}
            with open(path, "w") as f:
                json.dump(_jsonable(payload), f, indent=1)
            suffix = " no-failing-input-found" if v.get("no_failing_input") else ""
            out_lines.append(f"VIOLATION property={self.prop} replay={path}{suffix}")
            out_lines.append(f"  {v['text']}")
            rc = 1
        ev = self.evidence(level_eff, wall, n_ob, n_ok, n_und, lost)
        os.makedirs(os.path.join(OUT, "evidence"), exist_ok=True)
        with open(os.path.join(OUT, "evidence", f"{self.prop}.json"), "w") as f:
            json.dump(ev, f, indent=1)
        try:
            import jsonschema
            with open("/root/.vp/EVIDENCE.schema.json") as f:
                jsonschema.validate(ev, json.load(f))
        except FileNotFoundError:
            pass
        except Exception as e:
            self.internal_errors.append(f"evidence does not validate: {str(e)[:300]}")
        print(f"[{self.prop}] tier={self.tier} obligations={n_ob} proved={n_ok} undecided={n_und} refuted={n_ob-n_ok-n_und} "
              f"bounded_evals={sum(b.evaluations for b in self.bounded)} known_findings={len(seen)} "
              f"violations={len(self.violations)} wall={wall:.1f}s solver={self.solver_secs:.1f}s level={level_eff}")
        for o in self.obligations:
            if o.status == smt.UNDECIDED:
                print(f"  undecided: {o.id}: {str(o.detail)[:160]}")
        for l in lost:
            print(f"  baseline obligation no longer proved (undecided, not a violation): {l}")
        for l in out_lines:
            print(l)
        if self.internal_errors:
            for e in self.internal_errors:
                print(f"INTERNAL: {e}")
            if rc == 0:
                rc = 3
        return rc

    def evidence(self, level, wall, n_ob, n_ok, n_und, lost):
        evals = sum(b.evaluations for b in self.bounded)
        distinct = sum(len(b.distinct) for b in self.bounded)
        samples = []
        for o in self.obligations[:4]:
            samples.append({"obligation": o.id, "function": o.fn, "result": o.status, "backend": o.backend})
        for b in self.bounded[:3]:
            samples.extend(_jsonable(b.samples[:2]))
        counted = [o for o in self.obligations if o.kind != "known-finding"]
        unb = [o for o in counted if o.scope == "all-shapes"]
        shb = [o for o in counted if o.scope != "all-shapes"]
        cov = {
            "obligations": len(unb), "discharged": sum(1 for o in unb if o.status == smt.PROVED),
            "undecided": n_und, "refuted": n_ob - n_ok - n_und,
            "obligations_note": "'obligations'/'discharged' count only obligations valid for all shapes; shape-bounded symbolic obligations "
                                "(complete per enumerated shape, all entries and paths) are counted separately below; bounded stand-ins are never counted",
            "shape_bounded_obligations_discharged": sum(1 for o in shb if o.status == smt.PROVED),
            "checker_cmd": f"./check {self.prop} --tier {self.tier}",
            "trusted_base": self.trusted,
            "evaluations": max(evals, 0), "distinct_nontrivial": distinct,
            "rule": "; ".join(f"{b.name}: {b.rule} [bound: {b.bound}]" for b in self.bounded) or "no bounded stand-in in this run",
            "samples": samples or [{"note": "no samples"}],
            "explanation": "contract-based deductive verification of the real code: obligations generated from the AST of /repo "
                           "on this run and discharged by normal forms + SMT; bounded stand-ins are labelled and never counted in 'discharged'",
            "functions_under_contract": list(self.functions.values()),
            "obligation_list": [o.to_json() for o in self.obligations],
            "shape_bounded_obligations": sum(1 for o in self.obligations if o.scope != "all-shapes"),
            "unbounded_obligations": sum(1 for o in self.obligations if o.scope == "all-shapes"),
            "bounded_standins": [b.to_json() for b in self.bounded],
            "canaries": self.canaries,
            "solver_seconds": round(self.solver_secs, 3),
            "callees_by_contract": sorted(self.used_contracts),
            "callees_inlined_without_contract": sorted(self.inlined),
            "dropped_by_extraction": sorted(self.dropped),
            "baseline_obligations_not_proved_now": lost,
            "known_finding_obligations": [o.id for o in self.obligations if o.kind == "known-finding"],
            "known_findings_reported": sorted({k for k, _ in self.known_hits}),
            "repo_head": self.repo.head(),
            "notes": self.notes,
        }
        return {"property_id": self.prop, "tier": self.tier, "seed": int(self.seed), "level": level, "coverage": cov,
                "assumptions": self.assumptions, "wall_s": round(wall, 2), "violations": len(self.violations)}


def _safe(s):
    return "".join(c if c.isalnum() or c in "._-" else "_" for c in s)[:120]


# -- known findings / baseline ---------------------------------------------------------------------
def load_known(prop):
    p = os.path.join(ROOT, "known_findings.json")
    if not os.path.exists(p):
        return []
    with open(p) as f:
        d = json.load(f)
    return [e for e in d.get("findings", []) if e.get("property") == prop and e.get("kind") == "known"]


def match_known(known, site, facts):
    """A known finding matches a failure by its `where` (obligation id or bounded check id prefix) and,
    for bounded checks, by a predicate over the facts of the failing case (see qv/predicates.py)."""
    from . import predicates
    for k in known:
        w = k.get("where")
        ws = w if isinstance(w, list) else [w]
        if not any(site == x or (x.endswith("*") and site.startswith(x[:-1])) for x in ws):
            continue
        pred = k.get("predicate")
        if pred is None or facts is None:
            return k
        fn = getattr(predicates, pred, None)
        if fn is not None and fn(facts):
            return k
    return None


_BASE = None


def load_baseline():
    global _BASE
    if _BASE is None:
        p = os.path.join(ROOT, "baseline_obligations.json")
        if os.path.exists(p):
            with open(p) as f:
                _BASE = json.load(f)
        else:
            _BASE = {}
    return _BASE


def load_baseline_thorough_only():
    return set(load_baseline().get("_thorough_only", []))


# -- running a function symbolically ----------------------------------------------------------------
class Case:
    """One symbolic run configuration of a function under contract."""

    def __init__(self, rep: Report, prop, qual, name, scope="all-shapes"):
        self.rep, self.prop, self.qual, self.name, self.scope = rep, prop, qual, name, scope
        rep.function(qual)

    def oid(self, clause):
        fn = self.qual.split("::")[1]
        return f"{self.prop}.{fn}.{self.name}.{clause}" if self.name else f"{self.prop}.{fn}.{clause}"


def run_case(rep: Report, prop, qual, name, setup, post, *, contracts=None, loop_rules=None, lib=None,
             scope="all-shapes", replay=None, timeout_s=10.0, expect="return", inline=(), clauses=None,
             site_obligations=True, max_paths=400, loop_end=False, algebra=False, model_replay=None):
    """Symbolically execute `qual` on the inputs built by setup(interp, ctx) over every feasible path.
    post(interp, ctx, outcome, value, aux) yields (clause, status, backend, secs, detail) tuples or
    (clause, nc_a, nc_b) equalities or (clause, z3cond).  A clause is proved iff proved on every path.
    `clauses`: the clause names expected (used to report undecided when the function is out of reach)."""
    from .interp import Interp
    from .libmodel import Library
    from .sym import as_z3bool
    case = Case(rep, prop, qual, name, scope)
    lib = lib or Library()
    ctx = Ctx(name=f"{qual}[{name}]", timeout_s=timeout_s)
    ctx.use_algebra = algebra
    ctx.model_replay = model_replay        # run-time contract on concrete inputs: used to replay shrunk counterexamples on the real code
    per_clause = {}
    t0 = time.time()
    reach_error = None
    npaths = 0
    interp = None
    try:
        with ctx:
            ncm.reset_atoms()

            def body():
                nonlocal interp
                ncm.reset_atoms()
                interp = Interp(rep.repo, lib, contracts or {}, loop_rules or {}, inline=inline)
                args, kwargs, aux = setup(interp, ctx)
                body.aux = aux
                return interp.call_qual(qual, *args, **kwargs)

            body.aux = None
            trail = []
            n = 0
            while True:
                ctx.begin_path(trail)
                ctx.path_index = n
                try:
                    val = body()
                    outcome = "return"
                except Raised as e:
                    val, outcome = e, "raise"
                except PathAbort as e:
                    val, outcome = e, "abort"
                npaths += 1
                if interp is not None:
                    rep.inlined |= interp.inlined
                    rep.used_contracts |= interp.used_contracts
                if loop_end and outcome == "abort" and "loop_end" in ctx.ghost:
                    outcome = "loop_end"
                if outcome != "abort":
                    for item in post(interp, ctx, outcome, val, body.aux) or []:
                        _record_clause(per_clause, item, ctx, timeout_s)
                n += 1
                if n >= max_paths:
                    raise OutOfReach(f"more than {max_paths} paths")
                d = [list(x) for x in ctx.decisions]
                while d and (d[-1][1] or d[-1][0] is False):
                    d.pop()
                if not d:
                    break
                d[-1][0] = False
                trail = [x[0] for x in d]
    except OutOfReach as e:
        reach_error = f"out of reach: {e}"
    except RecursionError:
        reach_error = "out of reach: recursion"
    except Exception as e:
        reach_error = f"engine exception: {type(e).__name__}: {e} | {traceback.format_exc().splitlines()[-3:]}"
        if os.environ.get("QV_TRACE") == "1":
            traceback.print_exc()
    secs_total = time.time() - t0
    rep.dropped |= set(ctx.notes)
    out = []
    names = list(per_clause)
    for c in (clauses or []):
        if c not in per_clause:
            names.append(c)
    for c in names:
        recs = per_clause.get(c, [])
        if reach_error is not None:
            # a refutation found before the engine gave up is still a refutation
            ref = [r for r in recs if r[0] == smt.REFUTED]
            if ref:
                st, be, sc, det = ref[0]
            else:
                st, be, sc, det = smt.UNDECIDED, "", sum(r[2] for r in recs), reach_error
        elif not recs:
            st, be, sc, det = smt.UNDECIDED, "", 0.0, "clause not produced on any path"
        else:
            ref = [r for r in recs if r[0] == smt.REFUTED]
            und = [r for r in recs if r[0] == smt.UNDECIDED]
            if ref:
                st, be, sc, det = ref[0]
            elif und:
                st, be, sc, det = und[0]
            else:
                st, be, sc, det = smt.PROVED, recs[0][1], sum(r[2] for r in recs), None
        ob = Obligation(case.oid(c), qual, scope, st, be, sc, det, replay=replay)
        rep.add(ob)
        out.append(ob)
    # site obligations (conformability, division, sqrt, index ranges), aggregated per site
    if site_obligations:
        agg = {}
        for s in ctx.sites:
            if callable(site_obligations) and not site_obligations(s.key):
                continue            # (a case may report only the sites of its own loop invariants)
            agg.setdefault(s.key, []).append(s)
        for key, ss in agg.items():
            ref = [s for s in ss if s.verdict.status == smt.REFUTED]
            und = [s for s in ss if s.verdict.status == smt.UNDECIDED]
            pick = (ref or und or ss)[0]
            st = pick.verdict.status if reach_error is None or pick.verdict.status != smt.PROVED else smt.UNDECIDED
            det = None if st == smt.PROVED else {"text": pick.text, "model": pick.verdict.model, "where": pick.where,
                                                 "reach": reach_error}
            ob = Obligation(case.oid("site." + key.split("::")[-1]), qual, scope, st, pick.verdict.backend,
                            sum(s.verdict.secs for s in ss), det, replay=replay, kind="site:" + pick.kind)
            rep.add(ob)
            out.append(ob)
    rep.solver_secs += 0.0
    if reach_error and not names:
        rep.add(Obligation(case.oid("reach"), qual, scope, smt.UNDECIDED, "", 0.0, reach_error, kind="reach"))
    rep.notes.append(f"{qual}[{name}]: {npaths} path(s), {ctx.queries} feasibility/site queries, {secs_total:.2f}s"
                     + (f" -- {reach_error}" if reach_error else ""))
    return out


def model_inputs(hyps, neg_goal, stores, bounds=(2, 3, 4, 6), timeout_s=10.0, max_cells=4000, ints=None):
    """Counterexample shrinking: re-solve the refuted query with every shape variable of the input arrays bounded by a small
    constant and read the input arrays off the model.  Returns {name: numpy array} or None."""
    import z3
    import numpy as np
    dimv = []
    for _, shape, _ in stores:
        for d in shape:
            dz = getattr(d, "z", None)
            if dz is not None:
                for v in _int_consts(dz):
                    if all(not v.eq(x) for x in dimv):
                        dimv.append(v)
    ints = ints or {}
    for iv in ints.values():        # integer arguments of the case (image sizes, ...) are bounded and read off the model like the shapes
        dz = getattr(iv, "z", None)
        if dz is not None:
            for v in _int_consts(dz):
                if all(not v.eq(x) for x in dimv):
                    dimv.append(v)
    for B in bounds:
        s = z3.Solver()
        s.set("timeout", int(timeout_s * 1000))
        for h in hyps:
            s.add(h)
        s.add(neg_goal)
        for v in dimv:
            s.add(v >= 1, v <= B)
        if s.check() != z3.sat:
            continue
        m = s.model()
        out = {}
        try:
            for nm, iv in ints.items():
                out[nm] = iv if isinstance(iv, int) else m.eval(iv.z, model_completion=True).as_long()
            for name, shape, f in stores:
                dims = []
                for d in shape:
                    if isinstance(d, int):
                        dims.append(d)
                    else:
                        dims.append(m.eval(d.z, model_completion=True).as_long())
                if any(x <= 0 for x in dims) or int(np.prod(dims)) > max_cells:
                    raise ValueError("shape")
                arr = np.zeros(dims)
                for idx in np.ndindex(*dims):
                    val = m.eval(f(*[z3.IntVal(int(i)) for i in idx]), model_completion=True)
                    arr[idx] = _to_float(val)
                out[name] = arr
        except Exception:
            continue
        return out
    return None


def _int_consts(e):
    import z3
    out, seen, stack = [], set(), [e]
    while stack:
        x = stack.pop()
        if x.get_id() in seen:
            continue
        seen.add(x.get_id())
        if z3.is_const(x) and x.decl().kind() == z3.Z3_OP_UNINTERPRETED and x.sort() == z3.IntSort():
            out.append(x)
        stack.extend(x.children())
    return out


def _to_float(v):
    import z3
    if z3.is_rational_value(v):
        return float(v.numerator_as_long()) / float(v.denominator_as_long())
    if z3.is_algebraic_value(v):
        return float(v.approx(20).numerator_as_long()) / float(v.approx(20).denominator_as_long())
    return float(str(v))


def concrete_replay(ctx, z_goal):
    """If the case registered a run-time contract for its inputs (ctx.model_replay), shrink the counterexample of the refuted goal,
    build the input arrays and run the contract on the REAL code.  Returns a dict for the obligation's detail, or None."""
    fn = getattr(ctx, "model_replay", None)
    if fn is None or z_goal is None or isinstance(z_goal, bool):
        return None
    import z3
    try:
        inputs = model_inputs(ctx.hyps(), z3.Not(z_goal), ctx.ghost.get("input_stores", []), ints=ctx.ghost.get("input_ints"))
        if inputs is None:
            return {"concrete_inputs": None, "note": "no small counterexample (shape bounds 2..6) within the time limit"}
        res = fn(inputs)
        return {"concrete_inputs": _jsonable(inputs), "real_code_fails": bool(res), "real_code_result": _jsonable(res)}
    except Exception as e:
        return {"concrete_inputs": None, "note": f"replay of the counterexample crashed: {type(e).__name__}: {e}"}


def _record_clause(per_clause, item, ctx, timeout_s):
    from .sym import as_z3bool, SBool
    clause = item[0]
    if len(item) == 5:
        _, st, be, sc, det = item
    elif len(item) == 3 and isinstance(item[1], ncm.NC):
        st, be, sc, det = ncm.nc_equal_obligation(item[1], item[2], ctx.hyps(), timeout_s)
        if st == smt.REFUTED and ctx.uncertain:
            st = smt.UNDECIDED
    elif len(item) == 2:
        z = as_z3bool(item[1])
        if z is True:
            st, be, sc, det = smt.PROVED, "syntactic", 0.0, None
        elif z is False:
            st, be, sc, det = smt.REFUTED, "syntactic", 0.0, {"cond": "False"}
        else:
            done = False
            if getattr(ctx, "use_algebra", False):
                ok, secs = algebra_try(ctx.hyps(), z)
                if ok:
                    st, be, sc, det, done = smt.PROVED, "sympy-ideal-reduction", secs, None, True
            if not done:
                v = smt.prove(ctx.hyps(), z, timeout_s)
                st, be, sc, det = v.status, v.backend, v.secs, ({"model": v.model, "goal": str(z)[:300]} if v.status != smt.PROVED else None)
                if st == smt.REFUTED and ctx.uncertain:
                    st = smt.UNDECIDED
                if st == smt.REFUTED:
                    cr = concrete_replay(ctx, z)
                    if cr is not None:
                        det["counterexample_replay"] = cr
    else:
        raise ValueError(f"bad clause item {item!r}")
    per_clause.setdefault(clause, []).append((st, be, sc, det))


def algebra_try(hyps, z):
    """Try to prove a conjunction of real equalities by computer algebra (qv/alg.py)."""
    import z3
    from . import alg
    goals = list(z.children()) if z3.is_and(z) else [z]
    total = 0.0
    for g in goals:
        if z3.is_true(g):
            continue
        if not z3.is_eq(g):
            return False, total
        l, r = g.children()
        if l.sort() != z3.RealSort():
            return False, total
        ok, secs = alg.prove_identity(hyps, l, r)
        total += secs
        if not ok:
            return False, total
    return True, total
