"""Library model (assumption A3): numpy, numpy-quaternion, scipy.sparse, math, time as functions over
the symbolic value classes.  Every function here is an axiom about the library; each has an executable
counterpart in qv/libconf.py that is run against the installed libraries."""
from __future__ import annotations

import math as _math
from fractions import Fraction

import z3

from . import nc as ncm
from . import sym
from .nc import NC
from .sym import (OutOfReach, Raised, SBool, SInt, SReal, cur, is_reallike, sand, smax, smin, snot, sor, ssqrt)
from .values import (C128, CSR, ElemSq, F4, F64, HMat, I64, NDARRAY, NPFLOATING, QMat, QSCALAR, QUAT, RMat,
                     ClassVal, DType, FuncVal, ModVal, Obj, Opaque, TypeTag, BoundMethod)
from .interp import SymRange, _MISSING, ExcClass, _EXC


class BlockRow:
    """np.hstack of real matrices: only norms are taken of it."""
    qv_value = True

    def __init__(self, parts):
        self.parts = parts
        self.ndim = 2

    def fro2(self):
        tot = Fraction(0)
        for p in self.parts:
            tot = tot + ncm.fro2(p.p)
        return tot


class Library:
    def __init__(self, mode="nc"):
        self.mode = mode
        self.alloc_hooks = []
        self.mods = {}
        self.extra_types = []     # (predicate(value) -> set of type tags) hooks from other domains
        self.np = ModVal("numpy", self._np_table())
        self.quaternion = ModVal("quaternion", self._quat_table())
        self.sparse = ModVal("scipy.sparse", self._sparse_table())
        self.scipy = ModVal("scipy", {"sparse": self.sparse, "linalg": ModVal("scipy.linalg", {})})
        self.math = ModVal("math", {"sqrt": lambda x: ssqrt(x), "pi": Fraction(_math.pi), "inf": _math.inf,
                                    "log10": lambda x: sym.slog10(x)})
        self.time = ModVal("time", {"time": lambda: Opaque("time"), "perf_counter": lambda: Opaque("time")})
        self.fft = ModVal("numpy.fft", self._fft_table())
        self.np.table["fft"] = self.fft
        self.mods.update({"numpy": self.np, "np": self.np, "quaternion": self.quaternion,
                          "scipy": self.scipy, "scipy.sparse": self.sparse, "math": self.math, "time": self.time,
                          "scipy.linalg": self.scipy.table["linalg"],
                          "numpy.fft": self.fft,
                          "typing": ModVal("typing", {k: Opaque("typing") for k in ("List", "Tuple", "Optional", "Dict", "Any")}),
                          "__future__": ModVal("__future__", {"annotations": None}),
                          "os": ModVal("os", {}), "sys": ModVal("sys", {})})
        self.np.table["quaternion"] = QUAT

    # -- lookup --------------------------------------------------------------------------------
    def module(self, name):
        return self.mods.get(name)

    def getattr(self, mv: ModVal, name):
        if name in mv.table:
            return mv.table[name]
        raise OutOfReach(f"library function {mv.name}.{name} is not modelled")

    def value_getattr(self, v, name):
        if isinstance(v, (RMat, QMat, HMat, F4)) or getattr(v, "qv_value", False):
            if hasattr(type(v), name) or hasattr(v, name):
                return getattr(v, name)
            return _MISSING
        if isinstance(v, list):
            if name == "append":
                return v.append
            if name == "extend":
                return v.extend
            if name == "copy":
                return lambda: list(v)
            if name == "pop":
                return v.pop
        if isinstance(v, dict):
            if name in ("keys", "values", "items", "get", "copy", "update"):
                if name == "keys":
                    return lambda: list(v.keys())
                if name == "values":
                    return lambda: list(v.values())
                if name == "items":
                    return lambda: list(v.items())
                return getattr(v, name)
        if isinstance(v, str):
            if name in ("lower", "upper", "strip", "startswith", "endswith", "format"):
                return getattr(v, name)
        if isinstance(v, (Fraction, SReal)):
            if name == "real":
                return v
            if name == "imag":
                return Fraction(0)
        if isinstance(v, tuple) and name in ("count", "index"):
            return getattr(v, name)
        return _MISSING

    def builtin(self, name, interp):
        t = self._builtins(interp)
        return t.get(name, _MISSING)

    # -- type model ----------------------------------------------------------------------------
    def isinstance(self, v, T):
        if isinstance(T, tuple):
            return any(self.isinstance(v, t) for t in T)
        if isinstance(T, ClassVal):
            return isinstance(v, Obj) and v.cls is T
        for hook in self.extra_types:
            r = hook(v, T)
            if r is not None:
                return r
        if isinstance(T, TypeTag):
            from . import idx as ix
            if isinstance(v, ix.IArr):
                return T is NDARRAY
            if isinstance(v, ix.QScal):
                return T is QSCALAR
            if isinstance(v, ix.CScal):
                return False
            if T is NDARRAY:
                from .values import HSub, RVec
                return (isinstance(v, RMat) and v.storage == "dense") or isinstance(v, (QMat, HMat, F4, HSub, RVec))
            if T is CSR:
                return isinstance(v, RMat) and v.storage == "csr"
            if T is NPFLOATING:
                return isinstance(v, (SReal, Fraction))
            if T is QSCALAR:
                return False
            return False
        if T is int:
            return (isinstance(v, int) and not isinstance(v, bool)) or isinstance(v, SInt)
        if T is float:
            return isinstance(v, (Fraction, SReal, float))
        if T is bool:
            return isinstance(v, (bool, SBool))
        if T in (str, list, tuple, dict):
            return isinstance(v, T)
        if T is complex:
            return False
        if isinstance(T, ExcClass):
            return False
        raise OutOfReach(f"isinstance against {T!r}")

    def hasattr(self, v, name):
        if isinstance(v, Obj):
            return name in v.fields or name in v.cls.methods
        if hasattr(v, "has_attr"):
            return v.has_attr(name)
        if isinstance(v, (Fraction, SReal, SInt, int)):
            return name in ("real", "imag", "conjugate")
        if isinstance(v, (list, tuple, dict, str)):
            return hasattr(v, name)
        if isinstance(v, (F4,)):
            return name in ("shape", "ndim", "dtype")
        raise OutOfReach(f"hasattr on {type(v).__name__}")

    # -- builtins ------------------------------------------------------------------------------
    def _builtins(self, interp):
        lib = self

        def b_len(x):
            if isinstance(x, (list, tuple, dict, str)):
                return len(x)
            if hasattr(x, "shape"):
                return x.shape[0]
            if hasattr(x, "length"):
                return x.length()
            raise OutOfReach(f"len of {type(x).__name__}")

        def b_range(*a):
            if all(isinstance(x, int) and not isinstance(x, bool) for x in a):
                return range(*a)
            if len(a) == 1:
                return SymRange(0, a[0])
            if len(a) == 2:
                return SymRange(a[0], a[1])
            return SymRange(a[0], a[1], a[2])

        def b_float(x):
            if isinstance(x, str):
                if x.lower() in ("inf", "+inf"):
                    return _math.inf
                if x.lower() == "-inf":
                    return -_math.inf
                if x.lower() == "nan":
                    return _math.nan
                return Fraction(x)
            if isinstance(x, (Fraction, SReal)):
                return x
            if isinstance(x, bool):
                return Fraction(int(x))
            if isinstance(x, int):
                return Fraction(x)
            if isinstance(x, SInt):
                return SReal(z3.ToReal(x.z))
            if isinstance(x, float):
                return x
            raise OutOfReach(f"float() of {type(x).__name__}")

        def b_int(x):
            if isinstance(x, (int, SInt)):
                return x
            if isinstance(x, Fraction):
                return int(x)
            if isinstance(x, SReal):
                raise OutOfReach("int() of symbolic real")
            if isinstance(x, SBool):
                return SInt.mk(z3.If(x.z, 1, 0))
            raise OutOfReach(f"int() of {type(x).__name__}")

        def b_abs(x):
            if isinstance(x, float):
                return abs(x)
            return abs(x)

        def b_sum(xs, start=0):
            from .values import SymList
            if isinstance(xs, SymList):
                if "time" in xs.name.lower():
                    return Opaque("time")
                raise OutOfReach("sum of an abstract list")
            tot = start
            for x in xs:
                tot = tot + x
            return tot

        def b_isinstance(v, T):
            return lib.isinstance(v, T)

        def b_hasattr(v, name):
            return lib.hasattr(v, name)

        def b_getattr(v, name, *d):
            try:
                return interp.getattr(v, name)
            except (Raised, OutOfReach):
                if d:
                    return d[0]
                raise

        def b_bool(x=False):
            return interp.truth(x)

        def _unknown_fold(xs, name):
            # all() / any() over a list of symbolic length given by a closed form: the value is left open (both outcomes are explored)
            from .values import SymList
            if isinstance(xs, SymList):
                return SBool(z3.Bool(cur().fresh_name(name)))
            return None

        def b_any(xs):
            u = _unknown_fold(xs, "any")
            if u is not None:
                return u
            return sor(*list(xs)) if xs else False

        def b_all(xs):
            u = _unknown_fold(xs, "all")
            if u is not None:
                return u
            return sand(*list(xs)) if xs else True

        def b_round(x, n=None):
            if isinstance(x, Fraction):
                return round(x, n) if n is not None else round(x)
            raise OutOfReach("round of symbolic")

        def b_divmod(a, b):
            if isinstance(a, (int, SInt)) and isinstance(b, (int, SInt)):
                return (a // b, a % b)
            raise OutOfReach("divmod of non-integers")

        return {"len": b_len, "range": b_range, "float": b_float, "int": b_int, "abs": b_abs, "min": smin, "max": smax, "divmod": b_divmod,
                "sum": b_sum, "isinstance": b_isinstance, "hasattr": b_hasattr, "getattr": b_getattr, "bool": b_bool,
                "enumerate": lambda xs, start=0: list(enumerate(xs, start)), "zip": lambda *a: list(zip(*a)),
                "list": lambda x=(): list(x), "tuple": lambda x=(): tuple(x), "dict": dict, "str": lambda x="": x if isinstance(x, str) else Opaque("str"),
                "any": b_any, "all": b_all, "round": b_round, "sorted": sorted, "reversed": lambda x: list(reversed(x)),
                "True": True, "False": False, "None": None, "complex": lambda a=0, b=0: _oor("complex()"),
                "callable": lambda x: isinstance(x, (FuncVal, BoundMethod, ClassVal)) or callable(x),
                "int_type": int, "type": lambda x: _oor("type()"),
                "__builtins_types__": None,
                # python types used in isinstance
                **{"int": _TypeAndCall(int, b_int), "float": _TypeAndCall(float, b_float), "bool": _TypeAndCall(bool, b_bool),
                   "str": _TypeAndCall(str, lambda x="": x if isinstance(x, str) else Opaque("str")),
                   "list": _TypeAndCall(list, lambda x=(): list(x)), "tuple": _TypeAndCall(tuple, lambda x=(): tuple(x)),
                   "dict": _TypeAndCall(dict, dict), "complex": _TypeAndCall(complex, _mk_complex)}}

    # -- numpy ---------------------------------------------------------------------------------
    def _np_table(self):
        lib = self

        def np_stack(parts, axis=0):
            parts = list(parts)
            if axis == -1 and len(parts) == 4 and all(isinstance(p, RMat) for p in parts):
                for p in parts[1:]:
                    ncm.dims_equal(parts[0].shape[0], p.shape[0], "conformable.stack")
                    ncm.dims_equal(parts[0].shape[1], p.shape[1], "conformable.stack")
                return F4([RMat(p.p, "dense") if p.storage == "dense" else _raise_sparse_stack() for p in parts])
            h = _dispatch("np_stack", [parts], axis=axis)
            if h is not _MISSING:
                return h
            raise OutOfReach("np.stack form")

        def np_sqrt(x):
            if is_reallike(x):
                return ssqrt(x)
            h = _dispatch("np_sqrt", [x])
            if h is not _MISSING:
                return h
            raise OutOfReach("np.sqrt of array")

        def np_sum(x, axis=None):
            if isinstance(x, ElemSq) and axis is None:
                return x.sum()
            h = _dispatch("np_sum", [x], axis=axis)
            if h is not _MISSING:
                return h
            if isinstance(x, (list, tuple)):
                tot = Fraction(0)
                for e in x:
                    tot = tot + e
                return tot
            raise OutOfReach(f"np.sum of {type(x).__name__}")

        def np_transpose(x, axes=None):
            if isinstance(x, (RMat, QMat)) and axes is None:
                return x.T
            if isinstance(x, _ConjH) and axes is None:
                return HMat(x.h.p.star)
            h = _dispatch("np_transpose", [x], axes=axes)
            if h is not _MISSING:
                return h
            raise OutOfReach(f"np.transpose of {type(x).__name__}")

        def np_conjugate(x):
            if isinstance(x, QMat):
                return x.conj()
            if isinstance(x, RMat):
                return x
            if isinstance(x, HMat):
                return _ConjH(x)
            if is_reallike(x):
                return x
            h = _dispatch("np_conjugate", [x])
            if h is not _MISSING:
                return h
            raise OutOfReach(f"np.conjugate of {type(x).__name__}")

        def np_isscalar(x):
            if is_reallike(x) or isinstance(x, (bool, str, SBool)):
                return True
            if getattr(x, "qv_scalar", False):
                return True
            return False

        def np_hstack(parts):
            parts = list(parts)
            if all(isinstance(p, RMat) for p in parts):
                for p in parts[1:]:
                    ncm.dims_equal(parts[0].shape[0], p.shape[0], "conformable.hstack")
                return BlockRow(parts)
            h = _dispatch("np_hstack", parts)
            if h is not _MISSING:
                return h
            raise OutOfReach("np.hstack form")

        def norm(x, ord=None, axis=None):
            if isinstance(x, BlockRow) and ord in ("fro", None):
                return ssqrt(x.fro2())
            if isinstance(x, RMat) and ord in ("fro", None):
                return ssqrt(ncm.fro2(x.p))
            from . import idx as ix
            if isinstance(x, (list, tuple)):
                x = ix.array_from_nested(list(x))
            if isinstance(x, ix.IArr) and ord in (None, 2, "fro") and not x.quat:
                ents = x.concrete_entries()
                tot = Fraction(0)
                for _, v in ents:
                    tot = tot + (v * v if not isinstance(v, ix.CScal) else v.re * v.re + v.im * v.im)
                return ssqrt(tot)
            h = _dispatch("np_norm", [x], ord=ord)
            if h is not _MISSING:
                return h
            raise OutOfReach(f"np.linalg.norm of {type(x).__name__} ord={ord!r}")

        def np_zeros(shape, dtype=None):
            h = lib.alloc("zeros", shape, dtype)
            return h

        def np_eye(n, m=None, dtype=None, k=0):
            return lib.alloc("eye", (n, n if m is None else m), dtype)

        def np_abs(x):
            if is_reallike(x):
                return abs(x)
            h = _dispatch("np_abs", [x])
            if h is not _MISSING:
                return h
            raise OutOfReach(f"np.abs of {type(x).__name__}")

        def np_max(x, axis=None):
            if isinstance(x, (list, tuple)):
                return smax(*x)
            h = _dispatch("np_max", [x])
            if h is not _MISSING:
                return h
            raise OutOfReach("np.max")

        class _Finfo:
            qv_value = True

            def __init__(self, t=None):
                self.eps = Fraction(2) ** -52
                self.tiny = Fraction(2) ** -1022
                self.max = Fraction(2) ** 1023 * (2 - Fraction(2) ** -52)

        linalg = ModVal("numpy.linalg", {"norm": norm, "LinAlgError": _EXC["LinAlgError"]})
        rnd = ModVal("numpy.random", {})
        t = {"stack": np_stack, "sqrt": np_sqrt, "sum": np_sum, "transpose": np_transpose, "conjugate": np_conjugate,
             "conj": np_conjugate, "isscalar": np_isscalar, "hstack": np_hstack, "linalg": linalg, "random": rnd,
             "zeros": np_zeros, "eye": np_eye, "abs": np_abs, "max": np_max, "finfo": _Finfo, "inf": _math.inf,
             "ndarray": NDARRAY, "floating": NPFLOATING, "float64": _TypeAndCall(float, lambda x: x), "pi": Fraction(_math.pi),
             "complex128": C128, "int64": I64}
        t["absolute"] = np_abs
        t.update(self._np_idx_table())
        return t

    def _np_idx_table(self):
        """numpy functions that only make sense in the index-level domain."""
        lib = self
        from . import idx as ix

        def np_array(v, dtype=None):
            from .values import SymList
            if isinstance(v, SymList):
                if v.entry is None:
                    raise OutOfReach("np.array of an abstract list without a closed form")
                items, pl, ent = list(v.items), v.prefix_len, v.entry

                def fn(vi):
                    j = vi[0]
                    res = ent(j)
                    for t, it in enumerate(items):
                        res = ix.ite(j == pl + t, it, res)
                    return res
                c_ = cur()
                c_.suppress = getattr(c_, "suppress", 0) + 1        # the probe index is not a program index
                try:
                    probe = ent(SInt.var(c_.fresh_name("probe")))
                finally:
                    c_.suppress -= 1
                return ix.IArr.from_fn([pl + len(items)], fn, quat=isinstance(probe, ix.QScal))
            if isinstance(v, ix.IArr):
                return v.copy()
            if isinstance(v, (list, tuple)):
                return ix.array_from_nested(v)
            if is_reallike(v):
                return v
            raise OutOfReach(f"np.array of {type(v).__name__}")

        def np_roll(a, shift, axis=None):
            if isinstance(shift, (tuple, list)) and isinstance(axis, (tuple, list)) and len(shift) == len(axis):
                for sh_, ax_ in zip(shift, axis):
                    a = np_roll(a, sh_, ax_)
                return a
            if not isinstance(a, ix.IArr) or axis is None:
                raise OutOfReach("np.roll form")
            n = a.vshape[axis]
            snap = a._snapshot()
            # np.roll(x, s)[i] = x[(i - s) mod n]; for |s| <= n the reduction is one conditional step
            one_period = cur().valid(sand(shift <= n, shift >= -n)) is True

            def fn(vi):
                vi = list(vi)
                j = vi[axis] - shift
                if one_period:
                    vi[axis] = ix.ite(j >= n, j - n, ix.ite(j < 0, j + n, j))
                else:
                    vi[axis] = j % n
                return snap(tuple(vi))
            return ix.IArr.from_fn(a.vshape, fn, quat=a.quat, cplx=a.cplx)

        def np_argmax(a):
            """Index of a maximal element: non-deterministic choice among the (concrete) positions, with the
            contract  a[r] >= a[t] for all t  assumed on the chosen branch."""
            if not (isinstance(a, ix.IArr) and a.ndim == 1 and isinstance(a.vshape[0], int)) or a.quat or a.cplx or a.hcell:
                raise OutOfReach("np.argmax form")
            n = a.vshape[0]
            vals = [a.at(i) for i in range(n)]
            c = cur()
            choice = n - 1
            for r in range(n - 1):
                if bool(SBool(z3.Bool(c.fresh_name(f"argmax_is_{r}")))):
                    choice = r
                    break
            for t in range(n):
                if t != choice:
                    c.assume(vals[choice] >= vals[t])
            return choice

        def np_zeros_like(a, dtype=None):
            if isinstance(a, ix.IArr):
                if a.hcell and dtype is None:
                    return ix.zeros(a.vshape, hcell=True)
                return ix.zeros(a.vshape, quat=a.quat if dtype is None else dtype == QUAT, cplx=a.cplx)
            if isinstance(a, RMat):
                return RMat(NC.zero(*a.shape))
            if isinstance(a, HMat):
                return HMat(NC.zero(*a.shape))
            if isinstance(a, QMat):
                z = RMat(NC.zero(*a.shape))
                return QMat([z, z, z, z])
            raise OutOfReach("zeros_like")

        def np_empty(shape, dtype=None):
            return lib.alloc("zeros", shape, dtype)

        def np_concatenate(parts, axis=0):
            parts = list(parts)
            if all(isinstance(p, ix.IArr) for p in parts) and all(p.ndim == 1 for p in parts) and axis == 0:
                lens = [p.vshape[0] for p in parts]
                snaps = [p._snapshot() for p in parts]
                offs = [0]
                for l in lens:
                    offs.append(offs[-1] + l)
                if all(isinstance(l, int) for l in lens):
                    table = []
                    for k, l in enumerate(lens):
                        for i in range(l):
                            table.append((k, i))

                    def fn(vi):
                        i = vi[0]
                        if isinstance(i, int):
                            k, j = table[i]
                            return snaps[k]((j,))
                        res = None
                        for pos, (k, j) in reversed(list(enumerate(table))):
                            x = snaps[k]((j,))
                            res = x if res is None else ix.ite(i == pos, x, res)
                        return res
                else:
                    def fn(vi):
                        i = vi[0]
                        res = None
                        for k in range(len(parts) - 1, -1, -1):
                            x = snaps[k]((i - offs[k],))
                            res = x if res is None else ix.ite(i < offs[k + 1], x, res)
                        return res
                return ix.IArr.from_fn([offs[-1]], fn, quat=parts[0].quat)
            raise OutOfReach("np.concatenate form")

        def np_real(a):
            if isinstance(a, ix.IArr):
                return a.real
            if isinstance(a, ix.CScal):
                return a.re
            if is_reallike(a):
                return a
            raise OutOfReach("np.real")

        def np_imag(a):
            if isinstance(a, ix.IArr):
                if a.quat:
                    return a.map(lambda q: ix.QScal(Fraction(0)))   # observed numpy-quaternion behaviour
                if not a.cplx:
                    return a.map(lambda x: Fraction(0))
                return a.imag
            if isinstance(a, ix.CScal):
                return a.im
            if is_reallike(a):
                return Fraction(0)
            raise OutOfReach("np.imag")

        def np_any(a):
            if isinstance(a, ix.IArr):
                return a.any_true()
            return a

        def np_prod(a):
            if isinstance(a, ix.IArr):
                return a.prod_all()
            if isinstance(a, (list, tuple)):
                tot = Fraction(1)
                for x in a:
                    tot = tot * x
                return tot
            raise OutOfReach("np.prod form")

        def np_allclose(a, b, rtol=Fraction(1, 100000), atol=Fraction(1, 10**8), **kw):
            """|a - b| <= atol + rtol |b| for all entries (concrete-shape real data only)."""
            def flat(x):
                if isinstance(x, ix.IArr):
                    if x.quat or x.cplx or x.hcell:
                        raise OutOfReach("np.allclose on non-real symbolic arrays")
                    return [v for _, v in x.concrete_entries()]
                if isinstance(x, (list, tuple)):
                    out = []
                    for y in x:
                        out += flat(y)
                    return out
                if is_reallike(x):
                    return [x]
                raise OutOfReach("np.allclose operand")
            fa, fb = flat(a), flat(b)
            if len(fb) == 1:
                fb = fb * len(fa)
            if len(fa) != len(fb):
                raise OutOfReach("np.allclose broadcasting")
            return sand(*[abs(x - y) <= atol + rtol * abs(y) for x, y in zip(fa, fb)]) if fa else True

        def np_mean(a):
            if isinstance(a, ElemSq):
                return a.mean()
            raise OutOfReach("np.mean form")

        def np_clip(a, lo, hi):
            if isinstance(a, ix.IArr):
                return a.map(lambda x: ix.ite(x < lo, lo, ix.ite(x > hi, hi, x)))
            raise OutOfReach("np.clip form")

        def np_block(rows):
            """np.block of a nested list [[B00, B01, ...], [B10, ...]] of 2-D index-level arrays."""
            if not (isinstance(rows, list) and rows and all(isinstance(r, list) and r for r in rows)):
                raise OutOfReach("np.block form")
            blocks = [[b for b in r] for r in rows]
            if not all(isinstance(b, ix.IArr) and b.ndim == 2 for r in blocks for b in r):
                raise OutOfReach("np.block of non-2-D pieces")
            ncols = len(blocks[0])
            for r in blocks:
                if len(r) != ncols:
                    raise Raised("ValueError", "np.block: ragged rows")
            heights = [r[0].vshape[0] for r in blocks]
            widths = [b.vshape[1] for b in blocks[0]]
            for r, h in zip(blocks, heights):
                for b, w in zip(r, widths):
                    ncm.dims_equal(b.vshape[0], h, "conformable.block.rows")
                    ncm.dims_equal(b.vshape[1], w, "conformable.block.cols")
            snaps = [[b._snapshot() for b in r] for r in blocks]
            roff, coff = [0], [0]
            for h in heights:
                roff.append(roff[-1] + h)
            for w in widths:
                coff.append(coff[-1] + w)
            cp = any(b.cplx for r in blocks for b in r)

            def fn(vi):
                p_, q_ = vi
                res = None
                for a in range(len(blocks) - 1, -1, -1):
                    for b in range(ncols - 1, -1, -1):
                        v = snaps[a][b]((p_ - roff[a], q_ - coff[b]))
                        if res is None:
                            res = v
                        else:
                            res = ix.ite(sand(p_ < roff[a + 1], q_ < coff[b + 1], q_ >= coff[b]) if b else sand(p_ < roff[a + 1], q_ < coff[1]), v, res)
                return res
            return ix.IArr.from_fn([roff[-1], coff[-1]], fn, cplx=cp)

        def np_isclose(a, b, rtol=Fraction(1, 10**5), atol=Fraction(1, 10**8), **kw):
            if is_reallike(a) and is_reallike(b):
                return abs(a - b) <= atol + rtol * abs(b)
            raise OutOfReach("np.isclose on arrays")

        def np_diag(a, k=0):
            if isinstance(a, ix.IArr) and len(a.vshape) == 2 and k == 0:
                snap = a._snapshot()
                return ix.IArr.from_fn([smin(a.vshape[0], a.vshape[1])], lambda vi: snap((vi[0], vi[0])), quat=a.quat, cplx=a.cplx)
            raise OutOfReach("np.diag form")

        def np_where(c, x=None, y=None):
            if x is None or y is None:
                raise OutOfReach("np.where with one argument")
            if isinstance(c, ix.IArr):
                sc = c._snapshot()
                fx = x._snapshot() if isinstance(x, ix.IArr) else (lambda vi: x)
                fy = y._snapshot() if isinstance(y, ix.IArr) else (lambda vi: y)
                for z in (x, y):
                    if isinstance(z, ix.IArr):
                        for d1, d2 in zip(z.vshape, c.vshape):
                            ncm.dims_equal(d1, d2, "conformable.where")
                lift = lambda v: Fraction(repr(v)) if isinstance(v, float) else v
                return ix.IArr.from_fn(list(c.vshape), lambda vi: ix.ite(sc(tuple(vi)), lift(fx(tuple(vi))), lift(fy(tuple(vi)))))
            raise OutOfReach("np.where form")

        def np_sign(x):
            one = lambda v: ix.ite(v > 0, Fraction(1), ix.ite(v < 0, Fraction(-1), Fraction(0)))
            if isinstance(x, ix.IArr):
                if x.quat or x.cplx or x.hcell:
                    raise OutOfReach("np.sign of a non-real array")
                return x.map(one)
            if is_reallike(x):
                return one(x)
            raise OutOfReach("np.sign form")

        def np_dot(a, b):
            # inner product of two real 1-D arrays of the same concrete length (other forms: not modelled)
            if isinstance(a, ix.IArr) and isinstance(b, ix.IArr) and len(a.vshape) == 1 and len(b.vshape) == 1 and isinstance(a.vshape[0], int) \
                    and a.vshape[0] == b.vshape[0] and not (a.quat or a.cplx or a.hcell or b.quat or b.cplx or b.hcell):
                tot = Fraction(0)
                for i in range(a.vshape[0]):
                    tot = tot + a.at(i) * b.at(i)
                return tot
            raise OutOfReach("np.dot form")

        return {"dot": np_dot, "sign": np_sign, "newaxis": None, "diag": np_diag, "where": np_where, "prod": np_prod, "argmax": np_argmax, "isclose": np_isclose, "mean": np_mean, "clip": np_clip, "block": np_block, "array": np_array, "roll": np_roll, "zeros_like": np_zeros_like, "empty_like": np_zeros_like, "empty": np_empty,
                "concatenate": np_concatenate, "real": np_real, "imag": np_imag, "any": np_any, "allclose": np_allclose}

    # -- FFT (axiomatised): fft2 of a real array is an uninterpreted complex function of the frequency;
    #    ifft2 of a spectrum is an uninterpreted spatial array; the registry records arguments so that
    #    contracts can state  ifft2(fft2(x) * fft2(h)) = x (*) h  (DFT convolution theorem, assumption A3)
    def _fft_table(self):
        from . import idx as ix

        def reg():
            return cur().ghost.setdefault("fft", {"fwd": [], "inv": []})

        def fft2(x):
            if not isinstance(x, ix.IArr) or x.ndim != 2 or x.quat:
                raise OutOfReach("fft2 form")
            k = len(reg()["fwd"])
            fre = z3.Function(f"FT{k}_re", z3.IntSort(), z3.IntSort(), z3.RealSort())
            fim = z3.Function(f"FT{k}_im", z3.IntSort(), z3.IntSort(), z3.RealSort())
            out = ix.IArr.from_fn(list(x.vshape), lambda vi: ix.CScal(SReal(fre(*[SInt.lift(ix.as_int(i)) for i in vi])),
                                                                     SReal(fim(*[SInt.lift(ix.as_int(i)) for i in vi]))), cplx=True)
            reg()["fwd"].append({"src": x._snapshot(), "shape": list(x.vshape), "out": out, "src_cplx": x.cplx})
            return out

        def ifft2(s):
            if not isinstance(s, ix.IArr) or s.ndim != 2 or not s.cplx:
                raise OutOfReach("ifft2 form")
            k = len(reg()["inv"])
            gre = z3.Function(f"IFT{k}_re", z3.IntSort(), z3.IntSort(), z3.RealSort())
            gim = z3.Function(f"IFT{k}_im", z3.IntSort(), z3.IntSort(), z3.RealSort())
            out = ix.IArr.from_fn(list(s.vshape), lambda vi: ix.CScal(SReal(gre(*[SInt.lift(ix.as_int(i)) for i in vi])),
                                                                     SReal(gim(*[SInt.lift(ix.as_int(i)) for i in vi]))), cplx=True)
            reg()["inv"].append({"spec": s._snapshot(), "shape": list(s.vshape), "out": out, "re": gre, "im": gim})
            return out
        return {"fft2": fft2, "ifft2": ifft2}

    # allocation hook: the active domain decides what np.zeros / np.eye produce
    def alloc(self, what, shape, dtype):
        for h in self.alloc_hooks:
            r = h(what, shape, dtype)
            if r is not None:
                return r
        if isinstance(shape, list):
            shape = tuple(shape)
        if not isinstance(shape, tuple):
            shape = (shape,)
        if self.mode == "idxh":
            from . import idx as ix
            isq = dtype == QUAT
            if what in ("zeros", "empty"):
                return ix.zeros(shape, hcell=isq)
            if what == "eye":
                return ix.eye(shape[0], shape[1], hcell=isq)
        if self.mode == "idx":
            from . import idx as ix
            isq = dtype == QUAT
            isc = dtype is complex or dtype == C128 or (isinstance(dtype, _TypeAndCall) and dtype.t is complex)
            if what in ("zeros", "empty"):
                return ix.zeros(shape, quat=isq, cplx=isc)
            if what == "eye":
                return ix.eye(shape[0], shape[1], quat=isq)
        if len(shape) == 1 and self.mode == "nc" and (dtype is None or dtype is float or dtype == F64):
            from .values import RVec
            return RVec(shape[0])
        if len(shape) == 2 and dtype == QUAT and getattr(self, "qmode", "Q") == "H":
            r, c = shape
            if what == "zeros":
                return HMat(NC.zero(r, c))
            ncm.dims_equal(r, c, "eye.square")
            return HMat(NC.eye(r))
        if len(shape) == 2:
            r, c = shape
            if dtype is None or dtype is float or dtype == F64 or (isinstance(dtype, _TypeAndCall) and dtype.t is float):
                if what == "zeros":
                    return RMat(NC.zero(r, c))
                ncm.dims_equal(r, c, "eye.square")
                return RMat(NC.eye(r))
            if dtype == QUAT:
                z = RMat(NC.zero(r, c))
                if what == "zeros":
                    return QMat([z, z, z, z])
                return QMat([RMat(NC.eye(r)), z, z, z])
        raise OutOfReach(f"np.{what}{shape} dtype={dtype}")

    # -- quaternion ----------------------------------------------------------------------------
    def _quat_table(self):
        lib_mode = lambda: self.mode

        def as_float_array(a):
            if isinstance(a, QMat):
                return F4(a.c)
            h = _dispatch("q_as_float_array", [a])
            if h is not _MISSING:
                return h
            if isinstance(a, HMat):
                raise OutOfReach("component access to an abstract quaternion matrix")
            raise OutOfReach(f"as_float_array of {type(a).__name__}")

        def as_quat_array(a):
            if isinstance(a, F4):
                return QMat(a.c)
            h = _dispatch("q_as_quat_array", [a])
            if h is not _MISSING:
                return h
            raise OutOfReach(f"as_quat_array of {type(a).__name__}")

        def quat(*a):
            h = _dispatch("q_scalar", list(a))
            if h is not _MISSING:
                return h
            from . import idx as ix
            vals = [x if not isinstance(x, float) else Fraction(repr(x)) for x in a]
            while len(vals) < 4:
                vals.append(Fraction(0))
            if lib_mode() == "idxh":
                from .skew import HScal
                if all(isinstance(v, (int, Fraction)) and v == 0 for v in vals[1:]):
                    return HScal.real(vals[0])
                raise OutOfReach("non-real quaternion constant in the abstract-scalar domain")
            return ix.QScal(*vals)

        return {"as_float_array": as_float_array, "as_quat_array": as_quat_array,
                "quaternion": _TypeAndCall(QSCALAR, quat)}

    # -- scipy.sparse ----------------------------------------------------------------------------
    def _sparse_table(self):
        def csr_matrix(a, shape=None):
            if isinstance(a, RMat):
                return RMat(a.p, "csr")
            raise OutOfReach("csr_matrix form")

        return {"csr_matrix": csr_matrix, "issparse": lambda x: isinstance(x, RMat) and x.storage == "csr"}


class _ConjH:
    """np.conjugate(H) of an abstract quaternion matrix, only consumable by np.transpose."""

    def __init__(self, h):
        self.h = h


class _TypeAndCall:
    """A name that is both a type (for isinstance / dtype=) and callable (float(x), np.float64(x))."""

    def __init__(self, t, f):
        self.t, self.f = t, f

    def __call__(self, *a, **k):
        return self.f(*a, **k)


def _unwrap_type(T):
    return T.t if isinstance(T, _TypeAndCall) else T


_orig_isinstance = Library.isinstance


def _isinstance(self, v, T):
    if isinstance(T, tuple):
        return any(_isinstance(self, v, t) for t in T)
    return _orig_isinstance(self, v, _unwrap_type(T))


Library.isinstance = _isinstance


def _dispatch(name, args, **kw):
    for a in args:
        f = getattr(a, "_" + name, None)
        if f is not None:
            return f(args, **kw)
        if isinstance(a, (list, tuple)):
            for b in a:
                f = getattr(b, "_" + name, None)
                if f is not None:
                    return f(args, **kw)
    return _MISSING


def _oor(what):
    raise OutOfReach(what)


def _mk_complex(re=0, im=0):
    from . import idx as ix
    if is_reallike(re) and is_reallike(im):
        return ix.CScal(re if not isinstance(re, float) else Fraction(repr(re)), im if not isinstance(im, float) else Fraction(repr(im)))
    raise OutOfReach("complex() of non-real arguments")


def _raise_sparse_stack():
    raise Raised("ValueError", "np.stack of sparse matrices")
