"""Index-level array domain: arrays of symbolic shape given by a cell function  index -> term.

Store   shape (tuple of int|SInt) + cell(idx tuple) -> scalar value (Fraction | SReal | CScal)
IArr    a view of a store: each store axis is either fixed to an index expression or ranges over a
        view axis with an offset;  quaternion arrays are float stores with a hidden trailing axis of 4.
Writes go through views to the store (numpy basic-indexing aliasing).  Reads by interpreted code emit
index-range obligations; contract/spec code uses .at() which does not.
"""
from __future__ import annotations

import itertools
from fractions import Fraction

import z3

from . import sym
from .sym import (OutOfReach, Raised, SBool, SInt, SReal, cur, is_intlike, is_reallike, sand, sor, ssqrt, _frac)
from .values import F64, QUAT, C128, I64, DType


# -- scalar helpers -------------------------------------------------------------------------------
class CScal:
    """Complex scalar as (re, im) of real-likes."""
    qv_scalar = True
    qv_value = True
    __slots__ = ("re", "im")

    def __init__(self, re, im=Fraction(0)):
        self.re, self.im = re, im

    @staticmethod
    def lift(x):
        if isinstance(x, CScal):
            return x
        if is_reallike(x):
            return CScal(_frac(x) if isinstance(x, float) else x, Fraction(0))
        if isinstance(x, complex):
            return CScal(Fraction(repr(x.real)), Fraction(repr(x.imag)))
        raise OutOfReach(f"not a complex scalar: {type(x).__name__}")

    def __add__(self, o):
        o = CScal.lift(o)
        return CScal(self.re + o.re, self.im + o.im)

    __radd__ = __add__

    def __sub__(self, o):
        o = CScal.lift(o)
        return CScal(self.re - o.re, self.im - o.im)

    def __rsub__(self, o):
        return CScal.lift(o) - self

    def __mul__(self, o):
        if isinstance(o, IArr) or getattr(o, "takes_complex_scalar", False):
            return NotImplemented
        o = CScal.lift(o)
        return CScal(self.re * o.re - self.im * o.im, self.re * o.im + self.im * o.re)

    __rmul__ = __mul__

    def __neg__(self):
        return CScal(-self.re, -self.im)

    def __truediv__(self, o):
        if is_reallike(o):
            return CScal(self.re / o, self.im / o)
        o = CScal.lift(o)
        d = o.re * o.re + o.im * o.im
        n = self * o.conjugate()
        return CScal(n.re / d, n.im / d)

    def __rtruediv__(self, o):
        return CScal.lift(o) / self

    def __abs__(self):
        return ssqrt(self.re * self.re + self.im * self.im)

    def _np_abs(self, args):
        return abs(self)

    def conjugate(self):
        return CScal(self.re, -self.im)

    conj = conjugate

    @property
    def real(self):
        return self.re

    @property
    def imag(self):
        return self.im

    def __eq__(self, o):
        o = CScal.lift(o)
        return sand(self.re == o.re, self.im == o.im)

    __hash__ = None

    def __repr__(self):
        return f"CScal({self.re}, {self.im})"


class QScal:
    """Quaternion scalar (w, x, y, z) of real-likes with the Hamilton product (from the spec table)."""
    qv_scalar = True
    qv_value = True
    __slots__ = ("c",)
    mul_hook = None          # optional: Hamilton product kept as an uninterpreted function (only congruence is used by the proof)
    quotient_hook = None     # optional: right division as a named quotient y with the defining equation y * b == a (b != 0)

    def __init__(self, w, x=Fraction(0), y=Fraction(0), z=Fraction(0)):
        self.c = (w, x, y, z)

    w = property(lambda s: s.c[0])
    x = property(lambda s: s.c[1])
    y = property(lambda s: s.c[2])
    z = property(lambda s: s.c[3])
    real = property(lambda s: s.c[0])

    @property
    def imag(self):
        return (self.c[1], self.c[2], self.c[3])

    @property
    def vec(self):
        return (self.c[1], self.c[2], self.c[3])

    @staticmethod
    def lift(x):
        if isinstance(x, QScal):
            return x
        if is_reallike(x):
            return QScal(_frac(x) if isinstance(x, float) else x)
        raise OutOfReach(f"not a quaternion scalar: {type(x).__name__}")

    def __add__(self, o):
        o = QScal.lift(o)
        return QScal(*[a + b for a, b in zip(self.c, o.c)])

    __radd__ = __add__

    def __sub__(self, o):
        o = QScal.lift(o)
        return QScal(*[a - b for a, b in zip(self.c, o.c)])

    def __rsub__(self, o):
        return QScal.lift(o) - self

    def __neg__(self):
        return QScal(*[-a for a in self.c])

    def __mul__(self, o):
        if isinstance(o, IArr):
            return NotImplemented
        if is_reallike(o):
            return QScal(*[a * o for a in self.c])
        if isinstance(o, QScal):
            if QScal.mul_hook is not None:
                return QScal.mul_hook(self, o)
            from .spec import hamilton
            return QScal(*hamilton(list(self.c), list(o.c), lambda a, b: a * b))
        return NotImplemented

    def __rmul__(self, o):
        if is_reallike(o):
            return QScal(*[o * a for a in self.c])
        return NotImplemented

    def __truediv__(self, o):
        if is_reallike(o):
            return QScal(*[a / o for a in self.c])
        if isinstance(o, QScal):
            if QScal.quotient_hook is not None:
                return QScal.quotient_hook(self, o)
            return self * o.inverse()      # numpy-quaternion: a / b = a * b^-1
        return NotImplemented

    def __rtruediv__(self, o):
        if is_reallike(o):
            return QScal(o) * self.inverse()
        return NotImplemented

    def norm2(self):
        return self.c[0] * self.c[0] + self.c[1] * self.c[1] + self.c[2] * self.c[2] + self.c[3] * self.c[3]

    def norm(self):
        """numpy-quaternion: q.norm() is the SQUARED modulus (Cayley norm); abs(q) / q.abs() is the modulus."""
        return self.norm2()

    def inverse(self):
        n = self.norm2()
        return QScal(self.c[0] / n, -self.c[1] / n, -self.c[2] / n, -self.c[3] / n)

    def conj(self):
        return QScal(self.c[0], -self.c[1], -self.c[2], -self.c[3])

    conjugate = conj

    def __abs__(self):
        return ssqrt(self.norm2())

    def abs(self):
        return abs(self)

    def __eq__(self, o):
        o = QScal.lift(o)
        return sand(*[a == b for a, b in zip(self.c, o.c)])

    def __ne__(self, o):
        return sym.snot(self.__eq__(o))

    __hash__ = None

    def unpack(self):
        raise OutOfReach("unpacking a quaternion scalar")

    def has_attr(self, name):
        return name in ("w", "x", "y", "z", "real", "imag", "vec", "conj", "conjugate", "inverse", "norm")

    def __repr__(self):
        return f"QScal{self.c}"


def ite(c, a, b):
    """If-then-else on scalar values."""
    cz = sym.as_z3bool(c)
    if cz is True:
        return a
    if cz is False:
        return b
    if type(a).__name__ == "HScal" or type(b).__name__ == "HScal":
        raise OutOfReach("symbolic selection between abstract quaternion scalars")
    if isinstance(a, QScal) or isinstance(b, QScal):
        a, b = QScal.lift(a), QScal.lift(b)
        return QScal(*[ite(c, x, y) for x, y in zip(a.c, b.c)])
    if isinstance(a, CScal) or isinstance(b, CScal):
        a, b = CScal.lift(a), CScal.lift(b)
        return CScal(ite(c, a.re, b.re), ite(c, a.im, b.im))
    if isinstance(a, (bool, SBool)) or isinstance(b, (bool, SBool)):
        az, bz = sym.as_z3bool(a), sym.as_z3bool(b)
        az = z3.BoolVal(az) if isinstance(az, bool) else az
        bz = z3.BoolVal(bz) if isinstance(bz, bool) else bz
        return SBool.mk(z3.If(cz, az, bz))
    if is_intlike(a) and is_intlike(b):
        return SInt.mk(z3.If(cz, SInt.lift(a), SInt.lift(b)))
    return SReal.mk(z3.If(cz, SReal.lift(a), SReal.lift(b)))


def scal_eq(a, b):
    if type(a).__name__ == "HScal" or type(b).__name__ == "HScal":
        from .skew import HScal
        return HScal.lift(a) == HScal.lift(b)
    if isinstance(a, (QScal, CScal)):
        return a == b
    if isinstance(b, (QScal, CScal)):
        return b == a
    return a == b


# -- mixed-radix indices ---------------------------------------------------------------------------
class Enc:
    """Row-major encoded index  ((i1*d2 + i2)*d3 + i3 ...)  kept as its digits: the index into an axis that
    a reshape created by merging axes.  Decoding is then structural (no div/mod by symbolic dimensions);
    that reshape is this row-major bijection is the library axiom."""
    __slots__ = ("parts",)

    def __init__(self, parts):
        flat = []
        for i, d in parts:
            if isinstance(i, Enc):
                flat.extend(i.parts)
            else:
                flat.append((i, d))
        self.parts = flat

    def to_int(self):
        v = 0
        for i, d in self.parts:
            v = v * d + i
        return v

    def __repr__(self):
        return f"Enc({self.parts})"


def as_int(i):
    return i.to_int() if isinstance(i, Enc) else i


def _same_dim(a, b):
    if isinstance(a, int) and isinstance(b, int):
        return a == b
    az, bz = SInt.lift(a), SInt.lift(b)
    return z3.simplify(az).eq(z3.simplify(bz))


# -- stores and views -----------------------------------------------------------------------------
class Store:
    def __init__(self, shape, cell, name=""):
        self.shape = tuple(shape)
        self.cell = cell
        self.name = name
        self.written = False


def input_store(name, shape, kind="real"):
    """Uninterpreted input array: cell = application of a fresh z3 function."""
    f = z3.Function(name, *([z3.IntSort()] * len(shape)), z3.RealSort())

    def cell(idx):
        return SReal.mk(f(*[SInt.lift(as_int(i)) for i in idx]))
    try:
        cur().ghost.setdefault("input_stores", []).append((name, tuple(shape), f))     # for counterexample replay (core.model_inputs)
    except Exception:
        pass
    return Store(shape, cell, name)


class IArr:
    """View of a store.  axes[a] is ('fix', e) or ('rng', start, vpos) for each store axis a."""
    qv_value = True

    def __init__(self, store, axes, vshape, quat=False, cplx=False, readonly_copy=False, hcell=False):
        self.store, self.axes, self.vshape, self.quat, self.cplx = store, list(axes), list(vshape), quat, cplx
        self.hcell = hcell        # cells are abstract quaternion scalars (skew.HScal); no component axis

    # construction
    @staticmethod
    def whole(store, quat=False, cplx=False, hcell=False):
        nd = len(store.shape) - (1 if quat else 0)
        axes = [("rng", 0, i) for i in range(nd)]
        if quat:
            axes.append(("comp",))
        return IArr(store, axes, list(store.shape[:nd]), quat=quat, cplx=cplx, hcell=hcell)

    @staticmethod
    def from_fn(shape, fn, quat=False, cplx=False, hcell=False):
        if hcell:
            return IArr.whole(Store(tuple(shape), lambda idx: fn(tuple(idx))), hcell=True)
        if quat:
            memo = {}

            def cell(idx):
                k = _ikey(idx[:-1])
                if k is not None and k in memo:
                    q = memo[k]
                else:
                    q = fn(tuple(idx[:-1]))
                    if k is not None:
                        memo[k] = q
                c = idx[-1]
                if isinstance(c, int):
                    return q.c[c]
                return ite(c == 0, q.c[0], ite(c == 1, q.c[1], ite(c == 2, q.c[2], q.c[3])))
            return IArr.whole(Store(tuple(shape) + (4,), cell), quat=True)
        return IArr.whole(Store(tuple(shape), lambda idx: fn(tuple(idx))), cplx=cplx)

    @property
    def shape(self):
        return tuple(self.vshape)

    @property
    def ndim(self):
        return len(self.vshape)

    @property
    def dtype(self):
        d = getattr(self, "dtype_override", None)       # an input whose element type is left open (see C02: component planes of any real dtype)
        if d is not None:
            return d
        return QUAT if (self.quat or self.hcell) else (C128 if self.cplx else F64)

    @property
    def size(self):
        n = 1
        for d in self.vshape:
            n = n * d
        return n

    def has_attr(self, name):
        return name in ("shape", "ndim", "dtype", "T", "copy", "reshape", "conj", "conjugate", "flatten", "size", "real", "imag", "astype", "sum", "max", "min")

    # index mapping
    def _store_index(self, vidx, comp=None):
        out = []
        for ax in self.axes:
            if ax[0] == "fix":
                out.append(ax[1])
            elif ax[0] == "rng":
                v = vidx[ax[2]]
                if isinstance(v, Enc):
                    v = v if (isinstance(ax[1], int) and ax[1] == 0) else v.to_int()
                    out.append(v if isinstance(v, Enc) else ax[1] + v)
                else:
                    out.append(ax[1] + v)
            else:
                out.append(comp)
        return tuple(out)

    def at(self, *vidx):
        """Element at a full view index (no range obligation)."""
        if len(vidx) == 1 and isinstance(vidx[0], tuple):
            vidx = vidx[0]
        if len(vidx) != len(self.vshape):
            raise OutOfReach("partial index in at()")
        if self.quat:
            return QScal(*[self.store.cell(self._store_index(vidx, c)) for c in range(4)])
        return self.store.cell(self._store_index(vidx))

    def _norm_index(self, i, dim, what="index"):
        """Python index semantics: concrete negatives wrap; symbolic indices must be in [0, dim)."""
        if isinstance(i, bool):
            raise OutOfReach("bool index")
        if isinstance(i, int):
            if i < 0:
                i = dim + i
            ok = sand(i >= 0, i < dim) if not isinstance(dim, int) or not isinstance(i, int) else (0 <= i < dim)
            if ok is False:
                raise Raised("IndexError", f"index {i} out of bounds for axis of size {dim}")
            if ok is not True:
                if not cur().require("index.range", ok, f"0 <= {i} < {dim}"):
                    pass
            return i
        if isinstance(i, SInt):
            cur().require("index.range", sand(i >= 0, i < dim), f"0 <= {i.z} < {dim}")
            return i
        raise OutOfReach(f"index of type {type(i).__name__}")

    def _norm_slice(self, s, dim):
        """numpy slice semantics incl. clipping: returns (start, length)."""
        if s.step not in (None, 1):
            raise OutOfReach("slice step")
        lo = 0 if s.start is None else s.start
        hi = dim if s.stop is None else s.stop
        if isinstance(lo, int) and lo < 0:
            lo = dim + lo
        if isinstance(hi, int) and hi < 0:
            hi = dim + hi
        if all(isinstance(v, int) for v in (lo, hi, dim)):
            lo2, hi2 = max(0, min(lo, dim)), max(0, min(hi, dim))
            return lo2, max(hi2 - lo2, 0)
        if s.start is None and s.stop is None:
            return 0, dim
        inside = sand(lo >= 0, lo <= hi, hi <= dim)
        if inside is True or cur().valid(inside) is True:
            return lo, hi - lo
        # negative symbolic bounds would wrap in numpy: require non-negative, then clip at dim
        c = sand(lo >= 0, hi >= 0)
        if c is not True:
            cur().require("slice.nonnegative", c, f"slice bounds {lo}:{hi} are non-negative")
        lo = sym.smin(lo, dim)
        hi = sym.smin(hi, dim)
        ln = sym.smax(hi - lo, 0)
        return lo, ln

    def _strided(self, idx):
        """x[a:b:k] with a constant step k > 1 on some axes: modelled as a copy of the selected entries."""
        t = list(idx if isinstance(idx, tuple) else (idx,))
        if any(i is Ellipsis for i in t):
            k = t.index(Ellipsis)
            t = t[:k] + [slice(None)] * (len(self.vshape) - (len(t) - 1)) + t[k + 1:]
        t = t + [slice(None)] * (len(self.vshape) - len(t))
        if any(not isinstance(i, slice) for i in t):
            raise OutOfReach("strided slice combined with integer indices")
        base = self.getitem(tuple(slice(i.start, i.stop, None) for i in t))
        steps = [i.step if isinstance(i.step, int) and i.step > 1 else 1 for i in t]
        snap = base._snapshot()
        shp = [(d + k - 1) // k if k > 1 else d for d, k in zip(base.vshape, steps)]
        cur().note("x[::k] modelled as a copy")
        return IArr.from_fn(shp, lambda vi: snap(tuple(i * k for i, k in zip(vi, steps))), quat=base.quat, cplx=base.cplx, hcell=base.hcell)

    def _reverse_axes(self, idx):
        """x[::-1] on some axes: modelled as a reversed *copy* (numpy gives a view; writes through it are not modelled)."""
        t = list(idx if isinstance(idx, tuple) else (idx,))
        rev = [k for k, i in enumerate(t) if isinstance(i, slice) and i.step == -1 and i.start is None and i.stop is None]
        if not rev:
            return None
        if any(i is Ellipsis for i in t):
            k = t.index(Ellipsis)
            t = t[:k] + [slice(None)] * (len(self.vshape) - (len(t) - 1)) + t[k + 1:]
            rev = [k for k, i in enumerate(t) if isinstance(i, slice) and i.step == -1 and i.start is None and i.stop is None]
        t2 = [slice(None) if k in rev else i for k, i in enumerate(t)]
        if any(not (isinstance(i, slice)) for i in t2):
            raise OutOfReach("reversed slice combined with integer indices")
        base = self.getitem(tuple(t2)) if any(not (i.start is None and i.stop is None) for i in t2) else self
        snap = base._snapshot()
        shp = list(base.vshape)

        def fn(vi):
            vi = list(vi)
            for k in rev:
                vi[k] = shp[k] - 1 - vi[k]
            return snap(tuple(vi))
        cur().note("x[::-1] modelled as a reversed copy")
        return IArr.from_fn(shp, fn, quat=base.quat, cplx=base.cplx, hcell=base.hcell)

    def _index(self, idx):
        """Apply a basic index; returns ('scalar', vidx) or ('view', IArr)."""
        if not isinstance(idx, tuple):
            idx = (idx,)
        if any(i is None for i in idx):
            return "view", self._newaxis(idx)
        # expand Ellipsis
        if any(i is Ellipsis for i in idx):
            k = idx.index(Ellipsis)
            nfill = len(self.vshape) - (len(idx) - 1)
            idx = idx[:k] + (slice(None),) * nfill + idx[k + 1:]
        if len(idx) > len(self.vshape):
            raise Raised("IndexError", "too many indices")
        idx = idx + (slice(None),) * (len(self.vshape) - len(idx))
        fixed = {}
        newpos = {}
        newshape = []
        offs = {}
        for vp, (i, dim) in enumerate(zip(idx, self.vshape)):
            if isinstance(i, slice):
                lo, ln = self._norm_slice(i, dim)
                offs[vp] = lo
                newpos[vp] = len(newshape)
                newshape.append(ln)
            elif isinstance(i, (list, tuple)) or isinstance(i, IArr):
                raise OutOfReach("advanced (fancy) indexing")
            else:
                fixed[vp] = self._norm_index(i, dim)
        if not newshape:
            return "scalar", tuple(fixed[vp] for vp in range(len(self.vshape)))
        axes = []
        for ax in self.axes:
            if ax[0] == "rng":
                vp = ax[2]
                if vp in fixed:
                    axes.append(("fix", ax[1] + fixed[vp]))
                else:
                    axes.append(("rng", ax[1] + offs[vp], newpos[vp]))
            else:
                axes.append(ax)
        return "view", IArr(self.store, axes, newshape, quat=self.quat, cplx=self.cplx, hcell=self.hcell)

    def _newaxis(self, idx):
        """x[..., None, ...]: index without the None entries, then insert length-1 axes (copy semantics)."""
        rest = tuple(i for i in idx if i is not None)
        kind, base = self._index(rest) if rest else ("view", self)
        if kind != "view":
            raise OutOfReach("newaxis on a scalar cell")
        # positions of the new axes in the result
        pos, out_rank, k = [], 0, 0
        for i in idx:
            if i is None:
                pos.append(out_rank)
                out_rank += 1
            elif isinstance(i, slice) or i is Ellipsis:
                out_rank += 1
        if any(i is Ellipsis for i in idx):
            raise OutOfReach("newaxis together with Ellipsis")
        out_rank = len(base.vshape) + len(pos)
        shape, src = [], []
        it = iter(base.vshape)
        for a in range(out_rank):
            if a in pos:
                shape.append(1)
            else:
                shape.append(next(it))
                src.append(a)
        snap = base._snapshot()
        return IArr.from_fn(shape, lambda vi: snap(tuple(vi[a] for a in src)), quat=base.quat, cplx=base.cplx, hcell=base.hcell)

    def _has_list(self, idx):
        t = idx if isinstance(idx, tuple) else (idx,)
        return any(isinstance(i, list) for i in t)

    def _gather(self, idx):
        """Advanced indexing with one concrete list of integers (copy semantics)."""
        t = list(idx if isinstance(idx, tuple) else (idx,))
        k = [i for i, x in enumerate(t) if isinstance(x, list)]
        if len(k) != 1 or not all(isinstance(v, (int, SInt)) for v in t[k[0]]):
            raise OutOfReach("advanced indexing form")
        k = k[0]
        rows = t[k]          # concrete list of (possibly symbolic) integer indices
        parts = []
        for r_ in rows:
            t2 = list(t)
            t2[k] = r_
            parts.append(self.getitem(tuple(t2)))
        if all(not isinstance(p_, IArr) for p_ in parts):
            return array_from_nested(parts)
        snaps = [p_._snapshot() for p_ in parts]
        sub = list(parts[0].vshape)
        # position of the list axis among the result axes = number of non-integer indices before it
        pos = sum(1 for x in t[:k] if isinstance(x, slice))

        def fn(vi):
            vi = list(vi)
            r_ = vi.pop(pos)
            if not isinstance(r_, int):
                raise OutOfReach("symbolic index into a gathered array")
            return snaps[r_](tuple(vi))
        shape = sub[:pos] + [len(rows)] + sub[pos:]
        return IArr.from_fn(shape, fn, quat=self.quat, cplx=self.cplx, hcell=self.hcell)

    def _scatter(self, idx, val):
        t = list(idx if isinstance(idx, tuple) else (idx,))
        k = [i for i, x in enumerate(t) if isinstance(x, list)]
        if len(k) != 1 or not all(isinstance(v, (int, SInt)) for v in t[k[0]]):
            raise OutOfReach("advanced indexing form")
        k = k[0]
        rows = t[k]
        pos = sum(1 for x in t[:k] if isinstance(x, slice))
        if isinstance(val, IArr):
            vs = val._snapshot()
            vshape = list(val.vshape)
        for n_, r_ in enumerate(rows):
            t2 = list(t)
            t2[k] = r_
            if isinstance(val, IArr):
                sub_shape = vshape[:pos] + vshape[pos + 1:]
                piece = IArr.from_fn(sub_shape, lambda vi, n_=n_: vs(tuple(list(vi[:pos]) + [n_] + list(vi[pos:]))), quat=val.quat, cplx=val.cplx, hcell=val.hcell) \
                    if sub_shape else vs((n_,))
            else:
                piece = val
            self.setitem(tuple(t2), piece)

    def getitem(self, idx):
        if self._has_list(idx):
            return self._gather(idx)
        t = idx if isinstance(idx, tuple) else (idx,)
        if any(isinstance(i, slice) and i.step == -1 for i in t):
            r = self._reverse_axes(idx)
            if r is not None:
                return r
        if any(isinstance(i, slice) and isinstance(i.step, int) and i.step > 1 for i in t):
            return self._strided(idx)
        kind, r = self._index(idx)
        if kind == "scalar":
            return self.at(*r)
        return r

    # iteration / unpacking of small concrete vectors
    def unpack(self):
        if len(self.vshape) >= 1 and isinstance(self.vshape[0], int):
            return [self.getitem(i) for i in range(self.vshape[0])]
        raise OutOfReach("unpacking an array of symbolic length")

    def __iter__(self):
        return iter(self.unpack())

    # writes
    def setitem(self, idx, val):
        if self._has_list(idx):
            return self._scatter(idx, val)
        kind, r = self._index(idx)
        target = self if kind == "view" else None
        if kind == "scalar":
            # scalar cell (or quaternion cell)
            axes = []
            for ax in self.axes:
                if ax[0] == "rng":
                    axes.append(("fix", ax[1] + r[ax[2]]))
                else:
                    axes.append(ax)
            target = IArr(self.store, axes, [], quat=self.quat, cplx=self.cplx, hcell=self.hcell)
        else:
            target = r
        target._assign(val)

    def _assign(self, val):
        """Overwrite the region of the store denoted by this view with val (broadcast)."""
        st = self.store
        old = st.cell
        tv = self
        vfn = _value_fn(val, tv)
        cur().effects.append(("write", st, cur().where))
        st.written = True

        memo = {}      # value of the right-hand side per view index (all four components of a quaternion share one evaluation)

        def new(idx):
            idx = tuple(as_int(i) for i in idx)
            conds = []
            vidx = [None] * len(tv.vshape)
            comp = None
            for a, ax in enumerate(tv.axes):
                if ax[0] == "fix":
                    conds.append(idx[a] == ax[1])
                elif ax[0] == "rng":
                    vi = idx[a] - ax[1]
                    whole = isinstance(ax[1], int) and ax[1] == 0 and _same_dim(tv.vshape[ax[2]], st.shape[a])
                    if not whole:      # a whole axis needs no condition: indices are in range by precondition
                        conds.append(sand(vi >= 0, vi < tv.vshape[ax[2]]))
                    vidx[ax[2]] = vi
                else:
                    comp = idx[a]
            c = sand(*conds) if conds else True
            if c is False:
                return old(idx)
            k = _ikey(vidx)
            if k is not None and k in memo:
                v = memo[k]
            else:
                v = vfn(tuple(vidx))
                if k is not None:
                    memo[k] = v
            if tv.quat:
                v = QScal.lift(v)
                if isinstance(comp, int):
                    v = v.c[comp]
                else:
                    v = ite(comp == 0, v.c[0], ite(comp == 1, v.c[1], ite(comp == 2, v.c[2], v.c[3])))
            elif isinstance(v, QScal):
                raise Raised("TypeError", "quaternion stored into a float array")
            return ite(c, v, old(idx))
        st.cell = new

    # derived arrays (fresh stores)
    def map(self, f, quat=None, cplx=None):
        snap = self._snapshot()          # value semantics: later writes to self are not seen by the result
        q = self.quat if quat is None else quat
        c = self.cplx if cplx is None else cplx
        if self.hcell and quat is None:
            return IArr.from_fn(self.vshape, lambda vi: f(snap(tuple(vi))), hcell=True)
        return IArr.from_fn(self.vshape, lambda vi: f(snap(tuple(vi))), quat=q, cplx=c)

    def zip(self, o, f, quat=None, cplx=None):
        a = self
        if isinstance(o, IArr):
            shp, fa, fb = _broadcast(a, o)
            if a.hcell or o.hcell:
                return IArr.from_fn(shp, lambda vi: f(fa(vi), fb(vi)), hcell=True)
            q = (a.quat or o.quat) if quat is None else quat
            c = (a.cplx or o.cplx) if cplx is None else cplx
            return IArr.from_fn(shp, lambda vi: f(fa(vi), fb(vi)), quat=q, cplx=c)
        sa = a._snapshot()
        if a.hcell:
            return IArr.from_fn(a.vshape, lambda vi: f(sa(tuple(vi)), o), hcell=True)
        q = (a.quat or isinstance(o, QScal)) if quat is None else quat
        c = (a.cplx or isinstance(o, CScal)) if cplx is None else cplx
        return IArr.from_fn(a.vshape, lambda vi: f(sa(tuple(vi)), o), quat=q, cplx=c)

    def copy(self):
        snap = self._snapshot()
        return IArr.from_fn(self.vshape, lambda vi: snap(vi), quat=self.quat, cplx=self.cplx, hcell=self.hcell)

    def _snapshot(self):
        """Freeze the current contents (later writes to the store are not seen)."""
        cell = self.store.cell
        axes, quat = list(self.axes), self.quat

        def f(vi):
            def sidx(comp=None):
                out = []
                for ax in axes:
                    if ax[0] == "fix":
                        out.append(ax[1])
                    elif ax[0] == "rng":
                        v = vi[ax[2]]
                        if isinstance(v, Enc) and not (isinstance(ax[1], int) and ax[1] == 0):
                            v = v.to_int()
                        out.append(v if isinstance(v, Enc) else ax[1] + v)
                    else:
                        out.append(comp)
                return tuple(out)
            if quat:
                return QScal(*[cell(sidx(c)) for c in range(4)])
            return cell(sidx())
        return f

    def astype(self, t):
        return self.copy()

    @property
    def T(self):
        n = len(self.vshape)
        return self.transpose(tuple(reversed(range(n))))

    def transpose(self, *perm):
        if len(perm) == 1 and isinstance(perm[0], (tuple, list)):
            perm = tuple(perm[0])
        if not perm:
            perm = tuple(reversed(range(len(self.vshape))))
        # new view axis j is old view axis perm[j]
        inv = {old: new for new, old in enumerate(perm)}
        axes = []
        for ax in self.axes:
            if ax[0] == "rng":
                axes.append(("rng", ax[1], inv[ax[2]]))
            else:
                axes.append(ax)
        return IArr(self.store, axes, [self.vshape[p] for p in perm], quat=self.quat, cplx=self.cplx, hcell=self.hcell)

    def conj(self):
        if self.hcell:
            return self.map(lambda q: q.conj())
        if self.quat:
            return self.map(lambda q: q.conj())
        if self.cplx:
            return self.map(lambda c: CScal.lift(c).conjugate())
        return self

    conjugate = conj

    @property
    def real(self):
        if self.cplx:
            return self.map(lambda c: CScal.lift(c).re, cplx=False)
        if self.quat:
            return self.map(lambda q: q.c[0], quat=False)
        return self

    @property
    def imag(self):
        if self.cplx:
            return self.map(lambda c: CScal.lift(c).im, cplx=False)
        raise OutOfReach("imag of non-complex array")

    def reshape(self, *shape):
        if len(shape) == 1 and isinstance(shape[0], (tuple, list)):
            shape = tuple(shape[0])
        shape = list(shape)
        if any(isinstance(s, int) and s == -1 for s in shape):
            k = [i for i, s in enumerate(shape) if isinstance(s, int) and s == -1][0]
            rest = 1
            for i, s in enumerate(shape):
                if i != k:
                    rest = rest * s
            tot = self.size
            if isinstance(tot, int) and isinstance(rest, int):
                shape[k] = tot // rest
            else:
                shape[k] = tot // rest
        # total size must agree
        tot_new = 1
        for s in shape:
            tot_new = tot_new * s
        if not (isinstance(tot_new, int) and isinstance(self.size, int) and tot_new == self.size):
            cur().require("reshape.size", self.size == tot_new, f"{self.size} == {tot_new}")
        snap = self._snapshot()
        oshape = list(self.vshape)

        def fn(vi):
            # structural route: digits of the new index regrouped against the old shape
            digits = []
            for i, d in zip(vi, shape):
                if isinstance(i, Enc):
                    digits.extend(i.parts)
                else:
                    digits.append((i, d))
            out, pos, ok = [], 0, True
            for od in oshape:
                if pos < len(digits) and _same_dim(digits[pos][1], od):
                    out.append(digits[pos][0])
                    pos += 1
                    continue
                grp, prod, p = [], 1, pos
                hit = False
                while p < len(digits):
                    grp.append(digits[p])
                    prod = prod * digits[p][1]
                    p += 1
                    if _same_dim(prod, od):
                        hit = True
                        break
                if not hit:
                    ok = False
                    break
                out.append(Enc(grp))
                pos = p
            if ok and pos == len(digits):
                return snap(tuple(out))
            # arithmetic route: row-major linear index, then unravel into the old shape
            lin = 0
            for i, d in zip(vi, shape):
                lin = lin * d + as_int(i)
            out = [None] * len(oshape)
            for a in range(len(oshape) - 1, -1, -1):
                if a == 0:
                    out[a] = lin
                else:
                    out[a] = lin % oshape[a]
                    lin = lin // oshape[a]
            return snap(tuple(out))
        cur().note("reshape modelled as a row-major copy (numpy returns a view; writes through reshaped arrays are not modelled)")
        return IArr.from_fn(shape, fn, quat=self.quat, cplx=self.cplx)

    def flatten(self):
        return self.reshape(self.size)

    # arithmetic
    def __neg__(self):
        return self.map(lambda x: -x)

    def __add__(self, o):
        return self.zip(_lift_operand(o), lambda a, b: a + b)

    def __radd__(self, o):
        return self.zip(_lift_operand(o), lambda a, b: b + a)

    def __sub__(self, o):
        return self.zip(_lift_operand(o), lambda a, b: a - b)

    def __rsub__(self, o):
        return self.zip(_lift_operand(o), lambda a, b: b - a)

    def __mul__(self, o):
        return self.zip(_lift_operand(o), lambda a, b: a * b)

    def __rmul__(self, o):
        return self.zip(_lift_operand(o), lambda a, b: b * a)

    def __truediv__(self, o):
        return self.zip(_lift_operand(o), lambda a, b: a / b)

    def __pow__(self, k):
        if k == 2:
            return self.map(lambda a: a * a)
        raise OutOfReach("power")

    # element-wise comparisons give boolean arrays (cells are bool / SBool)
    def _cmp(self, o, f):
        if self.quat or self.cplx or self.hcell:
            raise OutOfReach("comparison of non-real arrays")
        r = self.zip(_lift_operand(o), f)
        r.boolean = True
        return r

    def __gt__(self, o):
        return self._cmp(o, lambda a, b: a > b)

    def __ge__(self, o):
        return self._cmp(o, lambda a, b: a >= b)

    def __lt__(self, o):
        return self._cmp(o, lambda a, b: a < b)

    def __le__(self, o):
        return self._cmp(o, lambda a, b: a <= b)

    def __eq__(self, o):
        if isinstance(o, IArr) or is_reallike(o) or isinstance(o, (QScal, CScal)):
            r = self.zip(_lift_operand(o), lambda a, b: scal_eq(a, b), quat=False, cplx=False)
            r.boolean = True
            return r
        return NotImplemented

    def __ne__(self, o):
        if isinstance(o, IArr) or is_reallike(o) or isinstance(o, (QScal, CScal)):
            r = self.zip(_lift_operand(o), lambda a, b: sym.snot(scal_eq(a, b)), quat=False, cplx=False)
            r.boolean = True
            return r
        return NotImplemented

    __hash__ = object.__hash__

    def count_true(self):
        """np.sum of a boolean array: the number of true cells (library axiom).  For symbolic shapes the
        count is a fresh integer recorded with the array so that contracts can relate it to the predicate."""
        if all(isinstance(d, int) for d in self.vshape):
            tot = 0
            for _, v in self.concrete_entries():
                tot = tot + ite(v, 1, 0)
            return tot
        c = cur()
        n = SInt.var(c.fresh_name("count"))
        total = 1
        for d in self.vshape:
            total = total * d
        c.assume(sand(n >= 0, n <= total))
        c.ghost.setdefault("counts", []).append((n, self._snapshot(), list(self.vshape)))
        return n

    def any_true(self):
        if all(isinstance(d, int) for d in self.vshape):
            return sor(*[v for _, v in self.concrete_entries()]) if self.concrete_entries() else False
        c = cur()
        e = SBool(z3.Bool(c.fresh_name("any")))
        w = fresh_indices(c, self.vshape, "anyw")
        snap = self._snapshot()
        c.assume(sor(sym.snot(e), snap(w)))                      # e  =>  the witness satisfies the predicate
        c.ghost.setdefault("anys", []).append((e, snap, list(self.vshape)))
        return e

    def prod_all(self):
        if all(isinstance(d, int) for d in self.vshape):
            tot = Fraction(1)
            for _, v in self.concrete_entries():
                tot = tot * v
            return tot
        c = cur()
        p_ = SReal.var(c.fresh_name("prod"))
        c.ghost.setdefault("prods", []).append((p_, self._snapshot(), list(self.vshape)))
        return p_

    def __matmul__(self, o):
        if self.quat or (isinstance(o, IArr) and o.quat):
            raise Raised("TypeError", "numpy '@' on quaternion arrays is not the quaternion matrix product")
        if not isinstance(o, IArr):
            return NotImplemented
        a, b = self, o
        ka = a.vshape[-1]
        kb = b.vshape[0]
        if not (isinstance(ka, int) and isinstance(kb, int)):
            raise OutOfReach("index-level '@' with a symbolic inner dimension")
        if ka != kb:
            raise Raised("ValueError", f"matmul: dimension mismatch {ka} != {kb}")

        def dot(fa, fb):
            tot = Fraction(0)
            for l in range(ka):
                tot = tot + fa(l) * fb(l)
            return tot
        cp = a.cplx or b.cplx
        if a.ndim == 2 and b.ndim == 2:
            return IArr.from_fn([a.vshape[0], b.vshape[1]], lambda vi: dot(lambda l: a.at(vi[0], l), lambda l: b.at(l, vi[1])), cplx=cp)
        if a.ndim == 2 and b.ndim == 1:
            return IArr.from_fn([a.vshape[0]], lambda vi: dot(lambda l: a.at(vi[0], l), lambda l: b.at(l)), cplx=cp)
        if a.ndim == 1 and b.ndim == 2:
            return IArr.from_fn([b.vshape[1]], lambda vi: dot(lambda l: a.at(l), lambda l: b.at(l, vi[0])), cplx=cp)
        if a.ndim == 1 and b.ndim == 1:
            return dot(lambda l: a.at(l), lambda l: b.at(l))
        raise OutOfReach("matmul rank")

    def sum(self, axis=None):
        if axis is not None:
            raise OutOfReach("sum over an axis")
        if not all(isinstance(d, int) for d in self.vshape):
            raise OutOfReach("sum over a symbolic range")
        tot = Fraction(0)
        for vi in itertools.product(*[range(d) for d in self.vshape]):
            tot = tot + self.at(*vi)
        return tot

    def concrete_entries(self):
        if not all(isinstance(d, int) for d in self.vshape):
            raise OutOfReach("enumeration of a symbolic-shape array")
        return [(vi, self.at(*vi)) for vi in itertools.product(*[range(d) for d in self.vshape])]

    # dispatch targets for the library model
    def _q_as_float_array(self, args, **kw):
        if not self.quat:
            raise OutOfReach("as_float_array of a float array")
        axes = list(self.axes)
        k = [i for i, ax in enumerate(axes) if ax[0] == "comp"][0]
        axes[k] = ("rng", 0, len(self.vshape))
        return IArr(self.store, axes, self.vshape + [4], quat=False)

    def _q_as_quat_array(self, args, **kw):
        if self.quat or not (isinstance(self.vshape[-1], int) and self.vshape[-1] == 4):
            raise Raised("ValueError", "as_quat_array needs a trailing axis of 4")
        last = len(self.vshape) - 1
        axes = []
        for ax in self.axes:
            if ax[0] == "rng" and ax[2] == last:
                if not (isinstance(ax[1], int) and ax[1] == 0):
                    raise OutOfReach("as_quat_array of an offset view")
                axes.append(("comp",))
            else:
                axes.append(ax)
        return IArr(self.store, axes, self.vshape[:-1], quat=True)

    def _np_stack(self, args, axis=0, **kw):
        parts = list(args[0])
        if not all(isinstance(p, IArr) for p in parts) or axis not in (-1, len(self.vshape)):
            raise OutOfReach("np.stack form (index-level)")
        from .nc import dims_equal
        for p in parts[1:]:
            if len(p.vshape) != len(parts[0].vshape):
                raise Raised("ValueError", "all input arrays must have the same shape")
            for a, b in zip(parts[0].vshape, p.vshape):
                dims_equal(a, b, "conformable.stack")
        snaps = [p._snapshot() for p in parts]
        n = len(parts)

        def fn(vi):
            c = vi[-1]
            if isinstance(c, int):
                return snaps[c](tuple(vi[:-1]))
            res = None
            for k in range(n - 1, -1, -1):
                v = snaps[k](tuple(vi[:-1]))
                res = v if res is None else ite(c == k, v, res)
            return res
        return IArr.from_fn(list(parts[0].vshape) + [n], fn, cplx=any(p.cplx for p in parts))

    def _np_transpose(self, args, axes=None, **kw):
        if len(args) > 1 and axes is None:
            axes = args[1]
        return self.transpose(*([axes] if axes is not None else []))

    def _np_conjugate(self, args, **kw):
        return self.conj()

    def _np_sqrt(self, args, **kw):
        return self.map(lambda x: ssqrt(x))

    def _np_abs(self, args, **kw):
        if self.quat:
            return self.map(lambda q: abs(q), quat=False)
        if self.cplx:
            return self.map(lambda c: ssqrt(c.re * c.re + c.im * c.im), cplx=False)
        return self.map(lambda x: abs(x))

    def _np_sum(self, args, axis=None, **kw):
        if axis is None and getattr(self, "boolean", False):
            return self.count_true()
        if axis is None:
            return self.sum()
        if axis == -1 or axis == len(self.vshape) - 1:
            d = self.vshape[-1]
            if not isinstance(d, int):
                raise OutOfReach("sum over a symbolic axis")
            src = self

            def fn(vi):
                tot = Fraction(0)
                for l in range(d):
                    tot = tot + src.at(*(tuple(vi) + (l,)))
                return tot
            return IArr.from_fn(self.vshape[:-1], fn)
        raise OutOfReach("np.sum axis")

    def max(self, axis=None):
        if axis is not None:
            raise OutOfReach("max over an axis")
        return self._extreme(True)

    def min(self, axis=None):
        if axis is not None:
            raise OutOfReach("min over an axis")
        return self._extreme(False)

    def _extreme(self, is_max):
        if all(isinstance(d, int) for d in self.vshape):
            vals = [v for _, v in self.concrete_entries()]
            return sym.smax(*vals) if is_max else sym.smin(*vals)
        c = cur()
        M = SReal.var(c.fresh_name("max" if is_max else "min"))
        w = fresh_indices(c, self.vshape, "wit")
        snap = self._snapshot()
        c.assume(M == snap(w))
        c.ghost.setdefault("bounds", []).append((snap, list(self.vshape), M, is_max))
        return M

    def _np_max(self, args, **kw):
        if self.quat or self.cplx:
            raise OutOfReach("max of a non-real array")
        if all(isinstance(d, int) for d in self.vshape):
            vals = [v for _, v in self.concrete_entries()]
            if not vals:
                raise Raised("ValueError", "max of an empty array")
            return sym.smax(*vals)
        if len(self.vshape) != 1 or not getattr(self, "sorted_desc", False):
            return self._extreme(True)
        # maximum of a vector of symbolic length: M >= every entry (instantiated at 0) and M is attained
        c = cur()
        n = self.vshape[0]
        if c.valid(n >= 1) is not True:
            raise OutOfReach("max of a possibly empty array")
        M = SReal.var(c.fresh_name("max"))
        iw = SInt.var(c.fresh_name("argmax"))
        c.assume(sand(iw >= 0, iw < n))
        c.assume(M == self.at(iw))
        c.assume(M >= self.at(0))
        if getattr(self, "sorted_desc", False):
            c.assume(self.at(0) >= self.at(iw))     # fact of the producer's contract, instantiated
        return M

    def __repr__(self):
        return f"IArr(shape={self.vshape}, quat={self.quat})"


def _lift_operand(o):
    if isinstance(o, float):
        return _frac(o)
    return o


def make_uninterpreted_product(tag="QMUL"):
    """Hook for QScal.mul_hook: the Hamilton product as an uninterpreted function of the eight components (congruence only),
    with the absorbing / neutral constants 0 and real scalars handled exactly."""
    import z3 as _z3
    fs = [_z3.Function(f"{tag}{c}", *([_z3.RealSort()] * 8), _z3.RealSort()) for c in range(4)]

    def is_zero(x):
        return all(isinstance(v, (int, Fraction)) and v == 0 for v in x.c)

    def qmul(a, b):
        if is_zero(a) or is_zero(b):
            return QScal(Fraction(0))
        for x, y in ((a, b), (b, a)):
            if all(isinstance(v, (int, Fraction)) for v in x.c) and x.c[1] == 0 and x.c[2] == 0 and x.c[3] == 0:
                return QScal(*[x.c[0] * v for v in y.c])
        args = [SReal.lift(v) for v in a.c] + [SReal.lift(v) for v in b.c]
        return QScal(*[SReal.mk(f(*args)) for f in fs])
    return qmul


def _ikey(idx):
    """Hashable key of an index tuple (z3 terms are hash-consed: equal terms have equal ids); None if not keyable."""
    out = []
    for i in idx:
        if i is None or isinstance(i, int):
            out.append(i)
        elif isinstance(i, SInt):
            out.append(("z", i.z.get_id()))
        else:
            return None
    return tuple(out)


def _broadcast(a: IArr, b: IArr):
    """Numpy broadcasting for equal rank or trailing alignment; size-1 axes broadcast."""
    sa, sb = list(a.vshape), list(b.vshape)
    n = max(len(sa), len(sb))
    pa, pb = [1] * (n - len(sa)) + sa, [1] * (n - len(sb)) + sb
    shp = []
    ma, mb = [], []
    from .nc import dims_equal
    for x, y in zip(pa, pb):
        if isinstance(x, int) and x == 1 and not (isinstance(y, int) and y == 1):
            shp.append(y)
            ma.append(False)
            mb.append(True)
        elif isinstance(y, int) and y == 1 and not (isinstance(x, int) and x == 1):
            shp.append(x)
            ma.append(True)
            mb.append(False)
        else:
            dims_equal(x, y, "conformable.broadcast")
            shp.append(x)
            ma.append(True)
            mb.append(True)
    offa, offb = n - len(sa), n - len(sb)
    snap_a, snap_b = a._snapshot(), b._snapshot()      # value semantics

    def fa(vi):
        return snap_a(tuple(vi[i] if ma[i] else 0 for i in range(offa, n)))

    def fb(vi):
        return snap_b(tuple(vi[i] if mb[i] else 0 for i in range(offb, n)))
    return shp, fa, fb


def _value_fn(val, target: IArr):
    """Function view-index -> scalar for the right-hand side of an assignment (with broadcasting)."""
    tshape = target.vshape
    if isinstance(val, IArr):
        if target.quat and not val.quat:
            # float data assigned into a quaternion cell region: trailing axis of 4
            if len(val.vshape) == len(tshape) + 1 and isinstance(val.vshape[-1], int) and val.vshape[-1] == 4:
                snap = val._snapshot()
                return lambda vi: QScal(*[snap(tuple(vi) + (c,)) for c in range(4)])
            snapr = val._snapshot()
            vshape = list(val.vshape)
            return _bcast_fn(lambda vi: QScal(snapr(vi)), vshape, tshape)
        snap = val._snapshot()
        return _bcast_fn(snap, list(val.vshape), tshape)
    if isinstance(val, (list, tuple)):
        arr = array_from_nested(val)
        return _value_fn(arr, target)
    if type(val).__name__ == "HScal":
        return lambda vi: val
    if isinstance(val, (QScal, CScal)) or is_reallike(val):
        v = _frac(val) if isinstance(val, float) else val
        if target.hcell:
            from .skew import HScal
            hv = HScal.lift(v)
            return lambda vi: hv
        return lambda vi: v
    raise OutOfReach(f"assignment of {type(val).__name__} into an array")


def _bcast_fn(snap, vshape, tshape):
    from .nc import dims_equal
    n = len(tshape)
    if len(vshape) > n:
        # allow leading size-1 axes
        lead = vshape[:len(vshape) - n]
        if not all(isinstance(d, int) and d == 1 for d in lead):
            raise Raised("ValueError", "could not broadcast input array")
        inner = snap
        k = len(lead)
        snap = lambda vi: inner((0,) * k + tuple(vi))
        vshape = vshape[k:]
    off = n - len(vshape)
    use = []
    for i, d in enumerate(vshape):
        t = tshape[off + i]
        if isinstance(d, int) and d == 1 and not (isinstance(t, int) and t == 1):
            use.append(False)
        else:
            dims_equal(d, t, "conformable.assign")
            use.append(True)
    return lambda vi: snap(tuple(vi[off + i] if use[i] else 0 for i in range(len(vshape))))


def array_from_nested(val, cplx=False):
    """np.array(nested list of scalars / small arrays)."""
    def shape_of(v):
        if isinstance(v, (list, tuple)):
            if not v:
                return (0,)
            return (len(v),) + shape_of(v[0])
        if isinstance(v, IArr):
            if not all(isinstance(d, int) for d in v.vshape):
                raise OutOfReach("np.array of symbolic-shape pieces")
            return tuple(v.vshape)
        return ()
    shp = shape_of(val)

    def get(v, idx):
        for k, i in enumerate(idx):
            if isinstance(v, IArr):
                return v.at(*idx[k:])
            v = v[i]
        if isinstance(v, IArr):
            return v.at()
        return v
    table = {}
    anyq = False
    anyc = False
    for idx in itertools.product(*[range(d) for d in shp]):
        x = get(val, idx)
        if isinstance(x, float):
            x = _frac(x)
        if isinstance(x, QScal):
            anyq = True
        if isinstance(x, CScal):
            anyc = True
        table[idx] = x

    def fn(vi):
        if all(isinstance(i, int) for i in vi):
            return table[tuple(vi)]
        # symbolic index into a concrete table: ITE chain
        res = None
        for idx, x in reversed(list(table.items())):
            c = sand(*[a == b for a, b in zip(vi, idx)])
            res = x if res is None else ite(c, x, res)
        return res
    if any(type(x).__name__ == "HScal" for x in table.values()):
        from .skew import HScal
        return IArr.from_fn(list(shp), lambda vi: HScal.lift(fn(vi)), hcell=True)
    if anyq:
        return IArr.from_fn(list(shp), lambda vi: QScal.lift(fn(vi)), quat=True)
    return IArr.from_fn(list(shp), fn, cplx=anyc)


def zeros(shape, quat=False, cplx=False, hcell=False):
    if hcell:
        from .skew import HScal
        return IArr.from_fn(list(shape), lambda vi: HScal.real(0), hcell=True)
    if quat:
        return IArr.from_fn(list(shape), lambda vi: QScal(Fraction(0)), quat=True)
    return IArr.from_fn(list(shape), lambda vi: (CScal(Fraction(0)) if cplx else Fraction(0)), cplx=cplx)


def eye(n, m=None, quat=False, hcell=False):
    m = n if m is None else m
    if hcell:
        from .skew import HScal
        return IArr.from_fn([n, m], lambda vi: HScal.real(1) if vi[0] == vi[1] else HScal.real(0), hcell=True)
    one, zero = (QScal(Fraction(1)), QScal(Fraction(0))) if quat else (Fraction(1), Fraction(0))
    return IArr.from_fn([n, m], lambda vi: ite(vi[0] == vi[1], one, zero), quat=quat)


def input_array(name, shape, quat=False, cplx=False):
    if quat:
        return IArr.whole(input_store(name, tuple(shape) + (4,)), quat=True)
    if cplx:
        re, im = input_store(name + "_re", tuple(shape)), input_store(name + "_im", tuple(shape))
        return IArr.from_fn(list(shape), lambda vi: CScal(re.cell(vi), im.cell(vi)), cplx=True)
    return IArr.whole(input_store(name, tuple(shape)))


def instantiate_anys(ctx, idx):
    """For every np.any taken on this path: not any  =>  the predicate fails at idx."""
    for e, snap, shape in ctx.ghost.get("anys", []):
        if len(shape) == len(idx):
            ctx.assume(sor(e, sym.snot(snap(tuple(idx)))))


def instantiate_bounds(ctx, idx):
    """Instantiate the facts  max(A) >= A[idx] / min(A) <= A[idx]  of every extreme taken on this path."""
    for snap, shape, M, is_max in ctx.ghost.get("bounds", []):
        if len(shape) == len(idx):
            v = snap(tuple(idx))
            ctx.assume(M >= v if is_max else M <= v)


def fresh_indices(ctx, shape, base="p"):
    """Skolem indices ranging over `shape` (assumed in range on the current path)."""
    out = []
    for a, d in enumerate(shape):
        v = SInt.var(ctx.fresh_name(f"{base}{a}"))
        ctx.assume(v >= 0)
        ctx.assume(v < d)
        out.append(v)
    return tuple(out)


def pointwise_eq(ctx, a: IArr, b, shape=None, base="p"):
    """Condition  a[idx] == b[idx]  at fresh skolem indices (b: IArr or function of the index)."""
    shape = list(a.vshape) if shape is None else shape
    idx = fresh_indices(ctx, shape, base)
    av = a.at(*idx)
    bv = b.at(*idx) if isinstance(b, IArr) else b(idx)
    return scal_eq(av, bv), idx
