"""Input-class predicates of known findings: a known finding only matches a failing bounded case when
its predicate holds for the facts of that case, so a different violation is still reported."""


def c03_cov_stop(facts):
    """Damped NS run with compute_residuals=False (covariance-based stop) on a matrix with s_min > 1."""
    return bool(facts.get("cov_stop")) and facts.get("smin", 0) > 1


def c18_clip_range(facts):
    """Image whose values all lie in [-0.5, 1.5] (so the clip heuristic fires) and some outside [0, 1]."""
    lo, hi = facts.get("min"), facts.get("max")
    return lo is not None and lo >= -0.5 and hi <= 1.5 and (lo < 0 or hi > 1)
