"""Input-class predicates of known findings: a known finding only matches a failing bounded case when
its predicate holds for the facts of that case, so a different violation is still reported."""


def c03_cov_stop(facts):
    """Damped NS run with compute_residuals=False (covariance-based stop) on a matrix with s_min > 1."""
    return bool(facts.get("cov_stop")) and facts.get("smin", 0) > 1


def c18_clip_range(facts):
    """Image whose values all lie in [-0.5, 1.5] (so the clip heuristic fires) and some outside [0, 1]."""
    lo, hi = facts.get("min"), facts.get("max")
    return lo is not None and lo >= -0.5 and hi <= 1.5 and (lo < 0 or hi > 1)


def c06_rank_deficient(facts):
    """Input whose rank is below min(m, n), or a wide input whose leading m x m block is rank deficient, and the only
    failing clause is the orthonormality of Q."""
    if not facts or "rank" not in facts:
        return False
    deficient = facts["rank"] < min(facts["m"], facts["n"]) or (facts.get("wide") and not facts.get("leading_block_full_rank", True))
    # the finding is: Q loses orthonormality; A = Q R and the triangular shape still hold there - any other failure is not this finding
    return bool(deficient and facts.get("failures", ["Q columns not orthonormal"]) == ["Q columns not orthonormal"])


def c05_repeated(facts):
    """Some singular value is repeated within 1e-8 sigma_1 (zero counted, incl. the |m-n| structural zeros) and only clauses about the
    singular VECTORS fail (unitarity, reconstruction, truncated orthonormality / optimality); shapes and singular VALUES are right."""
    from .props.c05 import KNOWN_CLAUSES
    if not (facts and facts.get("repeated")):
        return False
    return all(f in KNOWN_CLAUSES for f in facts.get("failures", []))


def c12_rank_lt_R(facts):
    """Target rank R larger than the rank of the input (internal factors are rank deficient)."""
    return bool(facts and facts.get("rank_lt_R"))
