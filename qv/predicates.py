"""Input-class predicates of known findings: a known finding only matches a failing bounded case when
its predicate holds for the facts of that case, so a different violation is still reported."""


def c03_cov_stop(facts):
    """Damped NS run with compute_residuals=False (covariance-based stop) on a matrix with s_min > 1."""
    return bool(facts.get("cov_stop")) and facts.get("smin", 0) > 1
