"""Input-class predicates of known findings: a known finding only matches a failing bounded case when
its predicate holds for the facts of that case, so a different violation is still reported."""
