"""Frame analysis (modifies clauses) on the real ASTs: for every function of the repository files under
study, which abstract locations may be written through.

Abstract roots of a value:  ('param', name) | ('self',) | ('global', name) | fresh (no root).
The analysis is flow-insensitive and interprocedural (function summaries to a fixpoint), i.e. an
over-approximation: a reported empty write set is a proof (under the stated library axioms) that the
function writes through none of its arguments, never assigns an attribute of self and never assigns a
module global.  Rules (library axioms A3):
  views (alias the base)     x[...], x.T, x.real/.imag, x.reshape/ravel/view/transpose/squeeze, np.transpose,
                             np.asarray, np.atleast_*, np.ravel, quaternion.as_float_array / as_quat_array,
                             iteration over x, tuple/list packing, csr.tocsr()
  fresh                      x.copy()/astype/flatten/toarray/conj, arithmetic, comparisons, np.zeros/ones/eye/
                             empty/zeros_like/empty_like/stack/hstack/vstack/concatenate/column_stack/array/
                             conjugate/roll/sqrt/sum/..., constructors, every other library call
  writes                     subscript / attribute assignment, augmented assignment, del x[...],
                             .fill/.sort/.append/.extend/.insert/.pop/.remove/.clear/.update/.setdefault/.resize,
                             np.fill_diagonal / np.copyto / np.put / np.place (first argument), out= keyword
Time taint: values derived from time.time()/perf_counter() may only flow into names / keys / lists
whose name contains 'time', into prints, or be discarded.
"""
from __future__ import annotations

import ast

VIEW_ATTRS = {"T", "real", "imag", "flat", "w", "x", "y", "z", "vec", "H", "mT"}
VIEW_METHODS = {"reshape", "ravel", "view", "transpose", "squeeze", "swapaxes", "tocsr", "tocsc", "tocoo", "diagonal", "__getitem__", "items", "values", "keys", "get"}
VIEW_FUNCS = {"np.transpose", "np.asarray", "np.asanyarray", "np.atleast_1d", "np.atleast_2d", "np.ravel", "np.squeeze", "np.reshape", "np.real", "np.imag",
              "quaternion.as_float_array", "quaternion.as_quat_array", "np.swapaxes", "np.moveaxis", "np.expand_dims", "np.broadcast_to", "np.diagonal",
              "list", "tuple", "iter", "reversed", "zip", "enumerate", "np.ascontiguousarray", "np.split", "np.array_split",
              "np.asfortranarray", "np.require", "np.asarray_chkfinite", "np.atleast_3d", "np.asmatrix", "np.nan_to_num", "np.ravel_multi_index",
              "np.hsplit", "np.vsplit", "np.dsplit", "np.rollaxis", "np.flipud", "np.fliplr", "np.flip", "np.rot90", "np.lib.stride_tricks.as_strided",
              "sparse.csr_matrix", "sparse.csc_matrix", "csr_matrix", "quaternion.as_quat_vector"}
PURE_METHODS = {"copy", "get", "keys", "items", "values", "lower", "upper", "format", "join", "startswith", "endswith", "strip", "split", "count", "index",
                "conj", "conjugate", "sum", "max", "min", "mean", "astype", "tolist", "item", "toarray", "todense", "dot", "flatten", "any", "all", "norm",
                "reshape", "ravel", "transpose", "view", "squeeze", "tocsr", "tocsc", "tocoo", "diagonal", "swapaxes", "power", "multiply", "is_integer"}
MUT_METHODS = {"fill", "sort", "append", "extend", "insert", "pop", "remove", "clear", "update", "setdefault", "resize", "itemset", "put", "partition", "popitem",
               "setflags", "byteswap"}
MUT_FUNCS_FIRST_ARG = {"np.fill_diagonal", "np.copyto", "np.put", "np.place", "np.putmask", "np.put_along_axis", "np.random.shuffle"}
TIME_FUNCS = {"time.time", "time.perf_counter", "time.process_time", "time.monotonic", "perf_counter"}


class Summary:
    def __init__(self, qual, node, params, is_method, cls):
        self.qual, self.node, self.params, self.is_method, self.cls = qual, node, params, is_method, cls
        self.writes = set()          # roots written: ('param', name) | ('self',) | ('global', name)
        self.returns = set()         # roots the return value may alias
        self.write_sites = []        # (root, lineno, text)
        self.time_leaks = []         # (lineno, text)
        self.rng = set()             # 'global' | 'local_seeded' | 'local_unseeded'
        self.calls = []


def _dotted(n):
    if isinstance(n, ast.Name):
        return n.id
    if isinstance(n, ast.Attribute):
        b = _dotted(n.value)
        return f"{b}.{n.attr}" if b else None
    return None


class Analyzer:
    def __init__(self, repo, files):
        self.repo = repo
        self.files = files
        self.summaries = {}     # qual -> Summary
        self.by_name = {}       # bare function name -> [qual]   (call resolution by name)
        self.methods = {}       # method name -> [qual]
        self.module_globals = {}
        for rel in files:
            m = repo.module(rel)
            self.module_globals[rel] = {t.id for n in m.tree.body if isinstance(n, ast.Assign) for t in n.targets if isinstance(t, ast.Name)} | \
                {n.target.id for n in m.tree.body if isinstance(n, (ast.AnnAssign, ast.AugAssign)) and isinstance(n.target, ast.Name)}
            for n in m.tree.body:
                if isinstance(n, ast.FunctionDef):
                    self._add(rel, n, None)
                elif isinstance(n, ast.ClassDef):
                    for b in n.body:
                        if isinstance(b, ast.FunctionDef):
                            self._add(rel, b, n.name)

    def _add(self, rel, node, cls):
        qual = f"{rel}::{cls + '.' if cls else ''}{node.name}"
        params = [a.arg for a in node.args.posonlyargs + node.args.args + node.args.kwonlyargs]
        if node.args.vararg:
            params.append(node.args.vararg.arg)
        if node.args.kwarg:
            params.append(node.args.kwarg.arg)
        s = Summary(qual, node, params, cls is not None, cls)
        self.summaries[qual] = s
        (self.methods if cls else self.by_name).setdefault(node.name, []).append(qual)

    # ------------------------------------------------------------------------------------------
    def run(self):
        for _ in range(12):
            changed = False
            for s in self.summaries.values():
                w, r = set(s.writes), set(s.returns)
                self._analyze(s)
                if w != s.writes or r != s.returns:
                    changed = True
            if not changed:
                break
        return self.summaries

    def _callees(self, call, env_self_cls):
        """Possible repository callees of a call node, with the mapping from callee params to arg nodes."""
        f = call.func
        out = []
        name = _dotted(f)
        if isinstance(f, ast.Name) and f.id in self.by_name:
            for q in self.by_name[f.id]:
                out.append((self.summaries[q], 0))
        elif isinstance(f, ast.Attribute):
            # self.method(...) / obj.method(...) / Class.method(self, ...) / module.func(...)
            if f.attr in self.methods:
                recv = _dotted(f.value)
                for q in self.methods[f.attr]:
                    s = self.summaries[q]
                    if recv and recv.split(".")[-1] == s.cls:
                        out.append((s, 0))       # Class.method(self, ...): explicit self
                    else:
                        out.append((s, 1))       # bound: receiver is param 0
            if f.attr in self.by_name and not out:
                for q in self.by_name[f.attr]:
                    out.append((self.summaries[q], 0))
        return out

    def _analyze(self, s: Summary):
        node = s.node
        env, inn = {}, {}          # name -> roots the value IS (same object / view) ; roots it CONTAINS
        for p in s.params:
            r = {("self",)} if (s.is_method and p == s.params[0] and p == "self") else {("param", p)}
            env[p] = set(r)
            inn[p] = set(r)          # what a parameter contains is reachable through the parameter
        tainted = set()
        globals_declared = set()
        s.write_sites, s.time_leaks, writes, returns = [], [], set(), set()
        rel = s.qual.split("::")[0]
        mod_globals = self.module_globals.get(rel, set())
        SCALAR_ATTRS = {"shape", "ndim", "dtype", "size", "nnz", "itemsize", "nbytes", "__name__"}

        def both(e):
            return roots(e) | contains(e)

        def contains(e):
            if e is None:
                return set()
            if isinstance(e, ast.Name):
                return set(inn.get(e.id, set()))
            if isinstance(e, (ast.Tuple, ast.List, ast.Set)):
                r = set()
                for x in e.elts:
                    r |= both(x)
                return r
            if isinstance(e, ast.Dict):
                r = set()
                for x in e.values:
                    r |= both(x)
                return r
            if isinstance(e, (ast.ListComp, ast.GeneratorExp, ast.SetComp)):
                return both(e.elt)
            if isinstance(e, ast.Attribute):
                if e.attr in SCALAR_ATTRS:
                    return set()
                return contains(e.value)
            if isinstance(e, ast.Subscript):
                return contains(e.value)
            if isinstance(e, ast.IfExp):
                return contains(e.body) | contains(e.orelse)
            if isinstance(e, ast.Starred):
                return contains(e.value)
            if isinstance(e, ast.Call):
                name = _dotted(e.func)
                if name in VIEW_FUNCS:
                    r = set()
                    for a in e.args:
                        r |= both(a)
                    return r
                if isinstance(e.func, ast.Attribute) and e.func.attr in VIEW_METHODS:
                    return contains(e.func.value)
                return call_roots(e)
            return set()

        def call_roots(e):
            r = set()
            for cs, off in self._callees(e, s.cls):
                args = ([e.func.value] if off == 1 and isinstance(e.func, ast.Attribute) else []) + list(e.args)
                for i, a in enumerate(args):
                    if i < len(cs.params):
                        pr = ("self",) if (cs.is_method and i == 0 and cs.params[0] == "self") else ("param", cs.params[i])
                        if pr in cs.returns:
                            r |= both(a)
                for k in e.keywords:
                    if k.arg and ("param", k.arg) in cs.returns:
                        r |= both(k.value)
            return r

        def roots(e):
            """Roots the value of expression e may BE (identical object or a view of it)."""
            if e is None:
                return set()
            if isinstance(e, ast.Name):
                if e.id in env:
                    return set(env[e.id])
                if e.id in mod_globals:
                    return {("global", e.id)}
                return set()
            if isinstance(e, ast.Attribute):
                if e.attr in SCALAR_ATTRS:
                    return set()
                return roots(e.value)          # fields of an object are reached through the object
            if isinstance(e, ast.Subscript):
                return roots(e.value) | contains(e.value)     # array view, or an element of a container
            if isinstance(e, ast.Starred):
                return roots(e.value)
            if isinstance(e, ast.IfExp):
                return roots(e.body) | roots(e.orelse)
            if isinstance(e, ast.BoolOp):
                r = set()
                for x in e.values:
                    r |= roots(x)
                return r
            if isinstance(e, ast.NamedExpr):
                return roots(e.value)
            if isinstance(e, ast.Call):
                name = _dotted(e.func)
                if name in VIEW_FUNCS:
                    r = set()
                    for a in e.args:
                        r |= roots(a)
                    return r
                if isinstance(e.func, ast.Attribute) and e.func.attr in VIEW_METHODS:
                    return roots(e.func.value)
                # copy=False / order-changing conversions may hand back the very same object
                if any(k.arg == "copy" and isinstance(k.value, ast.Constant) and k.value.value is False for k in e.keywords):
                    r = set()
                    for a in e.args:
                        r |= roots(a)
                    if isinstance(e.func, ast.Attribute):
                        r |= roots(e.func.value)
                    return r
                if name and name.startswith(("np.as", "numpy.as")):
                    r = set()
                    for a in e.args:
                        r |= roots(a)
                    return r
                return call_roots(e)
            return set()      # literals, arithmetic, comparisons, comprehensions, lambdas, f-strings: fresh objects

        def is_time(e):
            if isinstance(e, ast.Call) and _dotted(e.func) in TIME_FUNCS:
                return True
            if isinstance(e, ast.Name):
                return e.id in tainted
            if isinstance(e, ast.BinOp):
                return is_time(e.left) or is_time(e.right)
            if isinstance(e, ast.UnaryOp):
                return is_time(e.operand)
            if isinstance(e, ast.Call) and _dotted(e.func) in ("float", "sum", "round", "max", "min", "abs"):
                return any(is_time(a) for a in e.args)
            return False

        def write(rs, n, what):
            for r in rs:
                writes.add(r)
                s.write_sites.append((r, getattr(n, "lineno", 0), what))

        def grow(d, k, rs):
            d.setdefault(k, set())
            before = len(d[k])
            d[k] |= rs
            return len(d[k]) != before

        def bind(target, rs, cs_, value=None, unpack=False):
            """target := value with roots rs (is) and cs_ (contains).  unpack: the target receives an element."""
            if isinstance(target, ast.Name):
                if target.id in globals_declared:
                    write({("global", target.id)}, target, f"assignment to global {target.id}")
                ch = grow(env, target.id, (rs | cs_) if unpack else rs)
                ch |= grow(inn, target.id, cs_)
                if value is not None and is_time(value):
                    tainted.add(target.id)
                return ch
            if isinstance(target, (ast.Tuple, ast.List)):
                ch = False
                for t in target.elts:
                    ch |= bind(t, rs, cs_, value, unpack=True)
                return ch
            if isinstance(target, ast.Starred):
                return bind(target.value, rs, cs_, value, unpack)
            if isinstance(target, ast.Subscript):
                write(roots(target.value), target, f"store into {ast.unparse(target)[:60]}")
                if value is not None and is_time(value):
                    nm = ast.unparse(target)
                    if "time" not in nm.lower():
                        s.time_leaks.append((target.lineno, nm))
                base = target.value
                while isinstance(base, (ast.Subscript, ast.Attribute)):
                    base = base.value
                if isinstance(base, ast.Name):
                    return grow(inn, base.id, rs | cs_)      # the container now holds the stored object
                return False
            if isinstance(target, ast.Attribute):
                write(roots(target.value), target, f"attribute store {ast.unparse(target)[:60]}")
                return False
            return False

        def visit_call(e):
            name = _dotted(e.func)
            if name in MUT_FUNCS_FIRST_ARG and e.args:
                write(roots(e.args[0]), e, f"{name}(...) writes its first argument")
            for k in e.keywords:
                if k.arg == "out":
                    write(roots(k.value), e, "out= keyword")
            if isinstance(e.func, ast.Attribute) and e.func.attr in MUT_METHODS:
                rs = roots(e.func.value)
                if e.func.attr in ("append", "extend", "insert", "update") and e.args and any(is_time(a) for a in e.args):
                    nm = ast.unparse(e.func.value)
                    if "time" not in nm.lower():
                        s.time_leaks.append((e.lineno, nm))
                write(rs, e, f".{e.func.attr}() on {ast.unparse(e.func.value)[:40]}")
                base = e.func.value
                while isinstance(base, (ast.Subscript, ast.Attribute)):
                    base = base.value
                if isinstance(base, ast.Name) and e.args:
                    for a in e.args:
                        grow(inn, base.id, both(a))
            if isinstance(e.func, ast.Attribute) and e.func.attr not in PURE_METHODS and e.func.attr not in MUT_METHODS:
                gl = {r for r in roots(e.func.value) if r[0] == "global"}
                if gl:
                    # a method call on a module-level object (cache, generator, registry) may change it: hidden state
                    write(gl, e, f"method .{e.func.attr}() on module-level object {ast.unparse(e.func.value)[:40]}")
            if name and (name.startswith("np.random.") or name.startswith("numpy.random.")):
                if name.endswith("default_rng"):
                    s.rng.add("local_seeded" if (e.args or e.keywords) else "local_unseeded")
                else:
                    s.rng.add("global")
            for cs, off in self._callees(e, s.cls):
                args = ([e.func.value] if off == 1 and isinstance(e.func, ast.Attribute) else []) + list(e.args)
                for i, a in enumerate(args):
                    if i < len(cs.params):
                        pr = ("self",) if (cs.is_method and i == 0 and cs.params[0] == "self") else ("param", cs.params[i])
                        if pr in cs.writes:
                            if pr == ("self",) and cs.node.name == "__init__":
                                continue
                            write(roots(a), e, f"call {cs.qual.split('::')[1]} writes its parameter {cs.params[i]}")
                for k in e.keywords:
                    if k.arg and ("param", k.arg) in cs.writes:
                        write(roots(k.value), e, f"call {cs.qual.split('::')[1]} writes its parameter {k.arg}")
                for g in cs.writes:
                    if g[0] == "global":
                        write({g}, e, f"call {cs.qual.split('::')[1]} writes global {g[1]}")
                s.rng |= cs.rng

        def walk_body(stmts):
            changed = False
            for st in ast.walk(ast.Module(body=list(stmts), type_ignores=[])):
                if isinstance(st, ast.Global):
                    globals_declared.update(st.names)
                elif isinstance(st, ast.Assign):
                    rs, cs_ = roots(st.value), contains(st.value)
                    for t in st.targets:
                        changed |= bind(t, rs, cs_, st.value)
                elif isinstance(st, ast.AnnAssign) and st.value is not None:
                    changed |= bind(st.target, roots(st.value), contains(st.value), st.value)
                elif isinstance(st, ast.AugAssign):
                    if isinstance(st.target, ast.Name):
                        write(roots(st.target), st, f"augmented assignment to {st.target.id}")
                        if is_time(st.value):
                            tainted.add(st.target.id)
                    else:
                        bind(st.target, set(), set(), st.value)
                elif isinstance(st, ast.For):
                    changed |= bind(st.target, roots(st.iter), contains(st.iter), unpack=True)
                elif isinstance(st, ast.comprehension):
                    changed |= bind(st.target, roots(st.iter), contains(st.iter), unpack=True)
                elif isinstance(st, ast.With):
                    for it in st.items:
                        if it.optional_vars is not None:
                            changed |= bind(it.optional_vars, roots(it.context_expr), contains(it.context_expr))
                elif isinstance(st, ast.Delete):
                    for t in st.targets:
                        if isinstance(t, ast.Subscript):
                            write(roots(t.value), t, "del subscript")
                elif isinstance(st, ast.Return) and st.value is not None:
                    returns.update(both(st.value))
                    if is_time(st.value):
                        s.time_leaks.append((st.lineno, "return of a clock value"))
                elif isinstance(st, ast.Call):
                    visit_call(st)
                elif isinstance(st, (ast.If, ast.While)):
                    if is_time(st.test):
                        s.time_leaks.append((st.lineno, "branch on a clock value"))
            return changed

        nested = {n.name: n for n in ast.walk(node) if isinstance(n, ast.FunctionDef) and n is not node}

        def bind_nested_calls():
            ch = False
            for c in ast.walk(node):
                if isinstance(c, ast.Call) and isinstance(c.func, ast.Name) and c.func.id in nested:
                    fn = nested[c.func.id]
                    for p, a in zip([x.arg for x in fn.args.args], c.args):
                        ch |= grow(env, p, roots(a))
                        ch |= grow(inn, p, contains(a))
            return ch

        for _ in range(8):
            s.write_sites, s.time_leaks = [], []
            writes.clear()
            returns.clear()
            ch = walk_body(node.body)
            ch |= bind_nested_calls()
            if not ch:
                break
        own = {("param", p) for p in s.params} | {("self",)}
        s.writes = {w for w in writes if w in own or w[0] == "global"}
        s.returns = {r for r in returns if r in own}
        s.write_sites = sorted({ws for ws in s.write_sites if ws[0] in s.writes}, key=lambda t: (t[1], str(t[0])))
        s.time_leaks = sorted(set(s.time_leaks))
