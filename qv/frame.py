"""Frame obligation shared by the decomposition properties: 'the result is a function of the arguments'.

Every property here quantifies over inputs only ("for every matrix ..."), so a routine whose result also depends on what
an EARLIER call did - a module-level memo, a cached work array handed out without a copy, a function attribute or a
mutable default argument used as a cache - breaks it for some call histories while every single call looks right.
The obligation is discharged by the modular frame analysis of qv/effects.py on the real ASTs (re-read on every run):
  (methods additionally: no attribute of self is assigned outside __init__ - a solver object carries configuration only, so a second
  call on the same object sees the state of a fresh one)
  no_module_state(f):  f, and every repository function it may call, assigns no module global (by `global`, by
                       subscript / attribute / method mutation of a module-level object), assigns no attribute of a
                       function object, and has no mutable default argument that it mutates.
An empty write set is a proof under the library axioms listed in qv/effects.py (over-approximation: flow-insensitive,
interprocedural fixpoint)."""
from __future__ import annotations

import ast
import time

from . import smt
from .core import Obligation
from .effects import Analyzer, MUT_METHODS

FILES = ["quatica/utils.py", "quatica/solver.py", "quatica/decomp/qsvd.py", "quatica/decomp/LU.py", "quatica/decomp/eigen.py",
         "quatica/decomp/tridiagonalize.py", "quatica/decomp/hessenberg.py", "quatica/decomp/schur.py", "quatica/tensor.py", "quatica/data_gen.py", "quatica/qslst.py"]


def _reach(an, summ, q):
    """functions reachable from q through repository calls (by the analyzer's own call resolution)"""
    seen, todo = set(), [q]
    while todo:
        x = todo.pop()
        if x in seen or x not in summ:
            continue
        seen.add(x)
        s = summ[x]
        for node in ast.walk(s.node):
            if isinstance(node, ast.Call):
                for cs, _ in an._callees(node, s.cls):
                    todo.append(cs.qual)
    return seen


def _local_state_sites(s, module_funcs):
    """syntactic caches the root-based analysis does not see as globals: attributes assigned on function objects,
    mutated mutable defaults"""
    out = []
    defaults = {}
    a = s.node.args
    pos = a.posonlyargs + a.args
    for arg, d in list(zip(pos[len(pos) - len(a.defaults):], a.defaults)) + [(k, d) for k, d in zip(a.kwonlyargs, a.kw_defaults) if d is not None]:
        if isinstance(d, (ast.Dict, ast.List, ast.Set)) or (isinstance(d, ast.Call) and getattr(d.func, "id", None) in ("dict", "list", "set")):
            defaults[arg.arg] = d.lineno
    for node in ast.walk(s.node):
        tgts = []
        if isinstance(node, ast.Assign):
            tgts = node.targets
        elif isinstance(node, (ast.AugAssign, ast.AnnAssign)):
            tgts = [node.target]
        for t in tgts:
            base = t
            while isinstance(base, (ast.Attribute, ast.Subscript)):
                base = base.value
            if isinstance(base, ast.Name) and t is not base:
                if base.id in module_funcs:
                    out.append((node.lineno, f"attribute / item of function object {base.id} assigned"))
                if base.id in defaults:
                    out.append((node.lineno, f"mutable default argument {base.id} written"))
        if isinstance(node, ast.Call) and isinstance(node.func, ast.Attribute) and node.func.attr in MUT_METHODS:
            base = node.func.value
            while isinstance(base, (ast.Attribute, ast.Subscript)):
                base = base.value
            if isinstance(base, ast.Name) and base.id in defaults:
                out.append((node.lineno, f"mutable default argument {base.id} mutated by .{node.func.attr}()"))
    return out


_CACHE = {}


def no_module_state(rep, P, quals, replay=None):
    key = id(rep.repo)
    t0 = time.time()
    if key not in _CACHE:
        an = Analyzer(rep.repo, [f for f in FILES if rep.repo.exists(f)])
        _CACHE[key] = (an, an.run())
    an, summ = _CACHE[key]
    funcs = {q.split("::")[1] for q in summ if "." not in q.split("::")[1]}
    for q in quals:
        s = summ.get(q)
        fn = q.split("::")[1]
        if s is None:
            rep.add(Obligation(f"{P}.{fn}.frame.result_is_a_function_of_the_arguments", q, "all-shapes", smt.UNDECIDED, "effect-analysis", 0.0, "function not found", kind="frame"))
            continue
        bad = []
        for r in sorted(_reach(an, summ, q)):
            sr = summ[r]
            for root, line, text in sr.write_sites:
                if root[0] == "global":
                    bad.append({"function": r, "line": line, "what": f"module-level state {root[1]} written: {text}"})
            for line, text in _local_state_sites(sr, funcs):
                bad.append({"function": r, "line": line, "what": text})
            if not sr.write_sites and any(w[0] == "global" for w in sr.writes):
                bad.append({"function": r, "line": sr.node.lineno, "what": f"module-level state written: {sorted(w[1] for w in sr.writes if w[0] == 'global')}"})
        rep.add(Obligation(f"{P}.{fn}.frame.result_is_a_function_of_the_arguments", q, "all-shapes", smt.PROVED if not bad else smt.REFUTED, "effect-analysis", 0.0,
                           {"state_written": bad[:6]} if bad else None, replay=replay, kind="frame"))
        if s.is_method:
            bad_self = [{"line": line, "what": text} for root, line, text in s.write_sites if root == ("self",)]
            if not bad_self and ("self",) in s.writes:
                bad_self = [{"line": s.node.lineno, "what": "an attribute of self is written by a callee"}]
            if s.node.name != "__init__":
                rep.add(Obligation(f"{P}.{fn}.frame.solver_object_not_modified", q, "all-shapes", smt.PROVED if not bad_self else smt.REFUTED, "effect-analysis", 0.0,
                                   {"self_written": bad_self[:6]} if bad_self else None, replay=replay, kind="frame"))
    rep.solver_secs += time.time() - t0
    if "qv/effects.py (frame analysis)" not in rep.trusted:
        rep.trusted.append("qv/effects.py (frame analysis)")
