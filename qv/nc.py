"""Free *-algebra over matrix atoms of symbolic shape.

A polynomial is a finite map  word -> coefficient  plus a shape (rows, cols); a word is a tuple of
letters (atom name, starred?); the empty word is the identity.  Coefficients are exact rationals or
symbolic reals (z3 terms), central.  Equality of two polynomials is decided by comparing normal forms
word by word (coefficient equalities go to the SMT back end), which is valid for every shape and
every entry because the atoms are uninterpreted.

Atom kinds (rewrite rules applied to words after every product):
  gen       no rule
  sym       X* = X
  orth      X* X = I and X X* = I      (square orthogonal / unitary)
  orthcols  X* X = I                   (orthonormal columns)
  inverse pairs (inv_of)               X^-1 X = X X^-1 = I
  commuting groups (comm)              adjacent letters of one group are sorted (diagonal matrices)
The involution * is transpose for real matrices and conjugate transpose for the abstract quaternion
algebra (alg='H'); both reverse products.  tr() is the (real part of the) trace: linear, cyclic and
*-invariant, so trace words are canonicalised under rotation and reversal.
"""
from __future__ import annotations

from fractions import Fraction

import z3

from . import smt
from .sym import SBool, SInt, SReal, OutOfReach, Raised, cur, _frac, is_reallike

ATOMS = {}
REWRITES = []        # (pattern word, replacement word): definitional equalities of contracts, e.g. A@Omega -> U@R from a QR contract


class Atom:
    __slots__ = ("name", "rows", "cols", "kind", "inv_of", "comm", "alg")

    def __init__(self, name, rows, cols, kind="gen", inv_of=None, comm=None, alg="R"):
        self.name, self.rows, self.cols, self.kind, self.inv_of, self.comm, self.alg = (
            name, rows, cols, kind, inv_of, comm, alg)
        ATOMS[name] = self

    def __repr__(self):
        return self.name


def reset_atoms():
    ATOMS.clear()
    del REWRITES[:]


def add_rewrite(pattern, replacement):
    """Register  pattern -> replacement  (both words; the starred reverse is added too)."""
    pattern, replacement = tuple(pattern), tuple(replacement)
    REWRITES.append((pattern, replacement))
    star = lambda w: tuple((n, not s_) for n, s_ in reversed(w))
    REWRITES.append((star(pattern), star(replacement)))


def dims_equal(a, b, what="conformable"):
    """Emit (or decide syntactically) the obligation a == b for two dimensions."""
    if isinstance(a, int) and isinstance(b, int):
        if a != b:
            cur().require(what, False, f"{a} == {b}")
            raise Raised("ValueError", f"shapes not aligned: {a} != {b}")
        return True
    az, bz = SInt.lift(a), SInt.lift(b)
    if az.eq(bz):
        return True
    ok = cur().require(what, SBool.mk(az == bz), f"{az} == {bz}")
    return ok


SCALAR_RULE = [False]     # opt-in (set by a check for the duration of one case): 1x1 self-adjoint subwords are real scalars


def extract_real_scalars(w):
    """A subword x with one row and one column that equals its own conjugate transpose is a real number (a 1x1 self-adjoint
    quaternion matrix), namely tr(x); real numbers are central, so it is pulled out of the word as a coefficient.
    Returns (remaining word, [scalars])."""
    w = list(w)
    out = []
    changed = True
    while changed and w:
        changed = False
        n = len(w)
        for ln in range(1, n + 1):           # shortest first
            for i in range(0, n - ln + 1):
                sub = tuple(w[i:i + ln])
                r0 = _letter_dims(sub[0])[0]
                c1 = _letter_dims(sub[-1])[1]
                if not (isinstance(r0, int) and r0 == 1 and isinstance(c1, int) and c1 == 1):
                    continue
                rev = tuple((nm, not st) for nm, st in reversed(sub))
                if normalize_word(rev) != normalize_word(sub):
                    continue
                cw = _canon_trace_word(sub)
                if not cw:
                    val = Fraction(1)
                else:
                    val = SReal(z3.Real("tr[" + word_str(cw) + "]"))
                out.append(val)
                del w[i:i + ln]
                w = list(normalize_word(tuple(w)))
                changed = True
                break
            if changed:
                break
    return tuple(w), out


def _letter_dims(l):
    a = ATOMS[l[0]]
    return (a.cols, a.rows) if l[1] else (a.rows, a.cols)


def _apply_rewrites(w):
    changed = True
    while changed:
        changed = False
        for pat, rep in REWRITES:
            L = len(pat)
            for i in range(len(w) - L + 1):
                if tuple(w[i:i + L]) == pat:
                    w = list(w[:i]) + list(rep) + list(w[i + L:])
                    changed = True
                    break
            if changed:
                break
    return w


def normalize_word(w):
    w = _normalize_once(w)
    if REWRITES:
        # cancellations may expose new rewrite sites (and vice versa): iterate to a fixpoint
        for _ in range(50):
            w2 = _normalize_once(w)
            if w2 == w:
                break
            w = w2
    return w


def _normalize_once(w):
    w = list(w)
    if REWRITES:
        w = _apply_rewrites(w)
    # sym atoms are never starred
    for i, (n, s) in enumerate(w):
        if s and ATOMS[n].kind in ("sym",):
            w[i] = (n, False)
    changed = True
    while changed:
        changed = False
        i = 0
        while i + 1 < len(w):
            (n1, s1), (n2, s2) = w[i], w[i + 1]
            a1, a2 = ATOMS[n1], ATOMS[n2]
            if n1 == n2 and s1 != s2:
                if a1.kind == "orth" or (a1.kind == "orthcols" and s1 and not s2):
                    del w[i:i + 2]
                    changed = True
                    i = max(i - 1, 0)
                    continue
            if s1 == s2 and (a1.inv_of == n2 or a2.inv_of == n1):
                del w[i:i + 2]
                changed = True
                i = max(i - 1, 0)
                continue
            if a1.comm is not None and a1.comm == a2.comm and (n1, s1) > (n2, s2):
                w[i], w[i + 1] = w[i + 1], w[i]
                changed = True
                i = max(i - 1, 0)
                continue
            i += 1
    return tuple(w)


def _is_zero_coef(c):
    return isinstance(c, (int, Fraction)) and c == 0


def _coef(c):
    if isinstance(c, bool):
        raise OutOfReach("bool as matrix coefficient")
    if isinstance(c, int):
        return Fraction(c)
    if isinstance(c, float):
        return Fraction(_frac(c))
    if isinstance(c, SInt):
        return SReal(z3.ToReal(c.z))
    if isinstance(c, (Fraction, SReal)):
        return c
    raise OutOfReach(f"not a scalar coefficient: {type(c).__name__}")


class NC:
    __slots__ = ("t", "rows", "cols")

    def __init__(self, terms, rows, cols):
        self.t = {k: v for k, v in terms.items() if not _is_zero_coef(v)}
        self.rows, self.cols = rows, cols

    # constructors
    @staticmethod
    def atom(a: Atom):
        return NC({((a.name, False),): Fraction(1)}, a.rows, a.cols)

    @staticmethod
    def zero(rows, cols):
        return NC({}, rows, cols)

    @staticmethod
    def eye(n, coef=Fraction(1)):
        return NC({(): _coef(coef)}, n, n)

    @property
    def shape(self):
        return (self.rows, self.cols)

    def _add(self, o, sign):
        dims_equal(self.rows, o.rows, "conformable.add.rows")
        dims_equal(self.cols, o.cols, "conformable.add.cols")
        d = dict(self.t)
        for k, v in o.t.items():
            nv = d.get(k, Fraction(0)) + (v if sign > 0 else -v)
            if isinstance(nv, SReal):
                zs = z3.simplify(nv.z)
                if z3.is_rational_value(zs) and zs.numerator_as_long() == 0:
                    nv = Fraction(0)
            d[k] = nv
        return NC(d, self.rows, self.cols)

    def __add__(self, o):
        if not isinstance(o, NC):
            return NotImplemented
        return self._add(o, 1)

    def __sub__(self, o):
        if not isinstance(o, NC):
            return NotImplemented
        return self._add(o, -1)

    def __neg__(self):
        return NC({k: -v for k, v in self.t.items()}, self.rows, self.cols)

    def scale(self, c):
        c = _coef(c)
        if _is_zero_coef(c):
            return NC.zero(self.rows, self.cols)
        return NC({k: v * c for k, v in self.t.items()}, self.rows, self.cols)

    def __mul__(self, c):
        if isinstance(c, NC):
            raise OutOfReach("element-wise product of matrix polynomials")
        if not is_reallike(c):
            return NotImplemented
        return self.scale(c)

    __rmul__ = __mul__

    def __truediv__(self, c):
        if not is_reallike(c):
            return NotImplemented
        return self.scale(1 / _coef(c))

    def __matmul__(self, o):
        if not isinstance(o, NC):
            return NotImplemented
        dims_equal(self.cols, o.rows, "conformable.matmul")
        d = {}
        pull = SCALAR_RULE[0]
        for w1, v1 in self.t.items():
            for w2, v2 in o.t.items():
                w = normalize_word(w1 + w2)
                coef = v1 * v2
                if pull and w:
                    w, extra = extract_real_scalars(w)
                    for e in extra:
                        coef = coef * e
                nv = d.get(w, Fraction(0)) + coef
                d[w] = nv
        return NC(d, self.rows, o.cols)

    @property
    def T(self):
        d = {}
        for w, v in self.t.items():
            ws = normalize_word(tuple((n, not s) for n, s in reversed(w)))
            d[ws] = d.get(ws, Fraction(0)) + v
        return NC(d, self.cols, self.rows)

    star = T

    def is_zero_syntactic(self):
        return not self.t

    def words(self):
        return set(self.t)

    def __repr__(self):
        if not self.t:
            return f"0[{self.rows}x{self.cols}]"
        parts = []
        for w, v in sorted(self.t.items(), key=lambda kv: str(kv[0])):
            ws = "@".join(n + ("*" if s else "") for n, s in w) or "I"
            vs = str(v) if isinstance(v, Fraction) else f"({v.z})"
            parts.append(f"{vs}·{ws}")
        return " + ".join(parts)


def word_str(w):
    return "@".join(n + ("*" if s else "") for n, s in w) or "I"


def zero_atoms():
    try:
        return cur().ghost.get("zero_atoms", set())
    except RuntimeError:
        return set()


def nc_diff_words(a: NC, b: NC):
    """Words whose coefficients are not syntactically identical, with the (a, b) coefficients.
    Words containing an atom known to be zero on the current path (e.g. csr.nnz == 0) are dropped."""
    out = []
    za = zero_atoms()
    try:
        zw = cur().ghost.get("zero_words", ())
    except Exception:
        zw = ()
    for w in sorted(a.words() | b.words(), key=str):
        if za and any(n in za for n, _ in w):
            continue
        if zw and any(tuple(w[i:i + len(z_)]) == z_ for z_ in zw for i in range(len(w) - len(z_) + 1)):
            continue        # contains a factor known to vanish on this path (e.g. a 1x1 quaternion of modulus 0)
        ca, cb = a.t.get(w, Fraction(0)), b.t.get(w, Fraction(0))
        if isinstance(ca, Fraction) and isinstance(cb, Fraction):
            if ca != cb:
                out.append((w, ca, cb, False))
        else:
            out.append((w, ca, cb, True))
    return out


def nc_equal_obligation(a: NC, b: NC, hyps, timeout_s=10.0):
    """Decide a == b in the free algebra under scalar hypotheses `hyps`.
    Returns (status, backend, secs, witness) where witness lists the offending words."""
    import time
    t0 = time.time()
    bad, undec, backend = [], [], "normal-form"
    for w, ca, cb, symbolic in nc_diff_words(a, b):
        if not symbolic:
            bad.append({"word": word_str(w), "code": str(ca), "spec": str(cb)})
            continue
        goal = SReal.lift(ca) == SReal.lift(cb)
        v = smt.prove(hyps, goal, timeout_s)
        backend = "normal-form+" + v.backend
        if v.status == smt.REFUTED:
            bad.append({"word": word_str(w), "code": str(ca), "spec": str(cb), "model": v.model})
        elif v.status == smt.UNDECIDED:
            undec.append({"word": word_str(w), "code": str(ca), "spec": str(cb)})
    secs = time.time() - t0
    if bad:
        return smt.REFUTED, backend, secs, bad
    if undec:
        return smt.UNDECIDED, backend, secs, undec
    return smt.PROVED, backend, secs, []


# ---------------------------------------------------------------------------------------------
# trace functional
def _canon_trace_word(w):
    if not w:
        return w
    cands = []
    rev = normalize_word(tuple((n, not s) for n, s in reversed(w)))
    for ww in (tuple(w), rev):
        for i in range(len(ww)):
            cands.append(ww[i:] + ww[:i])
    # rotation may expose new cancellations (U ... U*): normalise each candidate cyclically
    out = []
    for c in cands:
        c2 = normalize_word(c)
        # cyclic cancellation between last and first letter
        changed = True
        while changed and len(c2) >= 2:
            changed = False
            c3 = normalize_word((c2[-1],) + c2[:-1])
            if len(c3) < len(c2):
                c2 = c3
                changed = True
        out.append(c2)
    m = min(len(c) for c in out)
    out = [c for c in out if len(c) == m]
    if m == 0:
        return ()
    # all rotations/reversal of the shortest
    best = None
    for c in out:
        r = normalize_word(tuple((n, not s) for n, s in reversed(c)))
        for ww in (c, r):
            for i in range(len(ww)):
                cand = ww[i:] + ww[:i]
                if best is None or cand < best:
                    best = cand
    return best


def trace(p: NC):
    """(Real part of the) trace of a square polynomial as a real scalar."""
    dims_equal(p.rows, p.cols, "square.trace")
    total = Fraction(0)
    for w, v in p.t.items():
        cw = _canon_trace_word(w)
        if not cw:
            n = p.rows if not w else _letter_dims(w[0])[0]
            tv = n if isinstance(n, int) else SReal(z3.ToReal(n.z))
            total = total + v * (Fraction(tv) if isinstance(tv, int) else tv)
        else:
            tv = SReal(z3.Real("tr[" + word_str(cw) + "]"))
            total = total + v * tv
    return total


def nc_syntactically_equal(p: NC, q: NC):
    """Same words with syntactically identical coefficients (symbolic coefficients compared as z3 terms)."""
    for w in p.words() | q.words():
        a, b = p.t.get(w, Fraction(0)), q.t.get(w, Fraction(0))
        if isinstance(a, Fraction) and isinstance(b, Fraction):
            if a != b:
                return False
        elif not (isinstance(a, SReal) and isinstance(b, SReal) and a.z.eq(b.z)):
            return False
    return True


def _syntactically_self_adjoint(p: NC):
    q = p.T
    for w in p.words() | q.words():
        a, b = p.t.get(w, Fraction(0)), q.t.get(w, Fraction(0))
        if isinstance(a, Fraction) and isinstance(b, Fraction):
            if a != b:
                return False
        elif not (isinstance(a, SReal) and isinstance(b, SReal) and a.z.eq(b.z)):
            return False
    return True


def fro2(p: NC):
    """Squared Frobenius norm  tr(p* p)  (>= 0 is recorded as an axiom)."""
    if isinstance(p.rows, int) and isinstance(p.cols, int) and p.rows == 1 and p.cols == 1 and _syntactically_self_adjoint(p):
        # a 1x1 self-adjoint quaternion matrix is a real number r = tr(p); its squared modulus is r^2
        r = trace(p)
        val = r * r
        if isinstance(val, SReal):
            cur().assume(val.z >= 0, base=True)
        return val
    val = trace(p.T @ p)
    if isinstance(val, SReal):
        cur().assume(val.z >= 0, base=True)
    return val
