"""Abstract quaternion scalars for small concrete-shape matrices ("Skew" domain of DESIGN.md).

HScal wraps a 1x1 polynomial of the free *-algebra over quaternion atoms: the product is the
(non-commutative) Hamilton product, real scalars are central.  Division by a quaternion is numpy-
quaternion's right division  x / p = x p^-1 : it creates a fresh atom d with the defining rule
d * p = x  (registered so that contracts can re-associate products), and never expands inverses.
Moduli are uninterpreted non-negative reals |x| with |d| * |p| = |x|."""
from __future__ import annotations

from fractions import Fraction

import z3

from . import nc as ncm
from .nc import NC, Atom
from .sym import OutOfReach, Raised, SBool, SReal, cur, is_reallike, sand, _frac


def _reg():
    return cur().ghost.setdefault("skew", {"div": {}, "n": 0})


class HScal:
    qv_scalar = True
    qv_value = True
    __slots__ = ("p",)

    def __init__(self, p: NC):
        self.p = p

    @staticmethod
    def atom(name):
        return HScal(NC.atom(Atom(name, 1, 1, "gen", alg="H")))

    @staticmethod
    def real(c):
        c = _frac(c) if isinstance(c, float) else c
        return HScal(NC.eye(1, c)) if c != 0 else HScal(NC.zero(1, 1))

    @staticmethod
    def lift(x):
        if isinstance(x, HScal):
            return x
        if is_reallike(x):
            return HScal.real(x)
        raise OutOfReach(f"not an abstract quaternion scalar: {type(x).__name__}")

    def is_zero(self):
        return not self.p.t

    def __add__(self, o):
        return HScal(self.p + HScal.lift(o).p)

    __radd__ = __add__

    def __sub__(self, o):
        return HScal(self.p - HScal.lift(o).p)

    def __rsub__(self, o):
        return HScal(HScal.lift(o).p - self.p)

    def __neg__(self):
        return HScal(-self.p)

    def __mul__(self, o):
        if is_reallike(o):
            return HScal(self.p.scale(o))
        if isinstance(o, HScal):
            return hmul(self, o)
        return NotImplemented

    def __rmul__(self, o):
        if is_reallike(o):
            return HScal(self.p.scale(o))
        return NotImplemented

    def __truediv__(self, o):
        if is_reallike(o):
            return HScal(self.p / o)
        if isinstance(o, HScal):
            return hdiv(self, o)
        return NotImplemented

    def conj(self):
        return HScal(self.p.star)

    conjugate = conj

    def __abs__(self):
        return modulus(self)

    def __eq__(self, o):
        o = HScal.lift(o)
        return ncm.nc_diff_words(self.p, o.p) == []

    def __ne__(self, o):
        return not self.__eq__(o)

    __hash__ = None

    @property
    def w(self):
        raise OutOfReach("component access to an abstract quaternion scalar")

    def has_attr(self, name):
        return name in ("conj", "conjugate")

    def __repr__(self):
        return f"HScal({self.p})"


def hmul(a: HScal, b: HScal):
    """a * b with the division rule  (x / p) * p = x  applied when a is a quotient atom."""
    reg = _reg()["div"]
    if len(a.p.t) == 1:
        (w, c), = a.p.t.items()
        if len(w) >= 1 and w[-1][0] in reg and not w[-1][1]:
            num, den = reg[w[-1][0]]
            if ncm.nc_diff_words(den.p, b.p) == []:
                head = NC({w[:-1]: c}, 1, 1) if w[:-1] else NC.eye(1, c)
                return HScal(head @ num.p)
    return HScal(a.p @ b.p)


def hdiv(x: HScal, p: HScal):
    """Right division x p^-1 as a fresh quotient atom (zero numerator stays zero)."""
    if p.is_zero():
        raise Raised("ZeroDivisionError", "division by the zero quaternion")
    if x.is_zero():
        return HScal(NC.zero(1, 1))
    r = _reg()
    # identical quotients share the atom
    for name, (num, den) in r["div"].items():
        if ncm.nc_diff_words(num.p, x.p) == [] and ncm.nc_diff_words(den.p, p.p) == []:
            return HScal(NC.atom(ncm.ATOMS[name]))
    r["n"] += 1
    name = f"d{r['n']}"
    a = Atom(name, 1, 1, "gen", alg="H")
    r["div"][name] = (x, p)
    d = HScal(NC.atom(a))
    mx, mp, md = modulus(x), modulus(p), modulus(d)
    cur().assume(md.z * mp.z == mx.z if isinstance(mx, SReal) else md.z * mp.z == 0, base=True)
    return d


def modulus(x: HScal):
    """|x| as an uninterpreted non-negative real determined by the normal form of x."""
    if x.is_zero():
        return Fraction(0)
    if list(x.p.t) == [()]:
        c = x.p.t[()]
        return abs(c)
    v = z3.Real("mod[" + repr(x.p) + "]")
    cur().assume(v >= 0, base=True)
    return SReal(v)
