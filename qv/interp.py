"""Symbolic executor over the Python AST of the real repository functions.

The executor is deliberately generic: expressions are evaluated with Python's own operators on the
symbolic value classes (sym.py, values.py, idx.py); a symbolic truth value forks the path (sym.Ctx);
calls to repository functions go through their *contracts* when one is registered (modular
verification) and are inlined otherwise (recorded in the evidence); calls into numpy / quaternion /
scipy go to the library model.  Loops with symbolic trip counts need a loop rule supplied by the
sidecar contract (inductive invariant); concrete loops are simply run.

Dropped (and recorded in ctx.notes): docstrings, annotations, print(), f-string formatting.
Anything not modelled raises OutOfReach -> the function is reported undecided, never violated."""
from __future__ import annotations

import ast
import operator
import os
from fractions import Fraction

from . import sym
from .sym import (OutOfReach, PathAbort, Raised, SBool, SInt, SReal, cur, sand, snot, sor, _frac)
from .values import (BoundMethod, ClassVal, FuncVal, ModVal, Obj, Opaque, TypeTag, DType)


class _Return(Exception):
    def __init__(self, v):
        self.v = v


class _Break(Exception):
    pass


class _Continue(Exception):
    pass


class ExcClass:
    def __init__(self, name, bases=()):
        self.name, self.bases = name, bases

    def __call__(self, *a):
        return ExcVal(self, a[0] if a else "")

    def matches(self, other_name):
        return other_name == self.name or other_name in self.bases

    def __repr__(self):
        return f"<exc {self.name}>"


class ExcVal:
    def __init__(self, cls, msg):
        self.cls, self.msg = cls, msg


_EXC = {}
for _n, _b in [("BaseException", ()), ("Exception", ("BaseException",)), ("ValueError", ("Exception",)),
               ("TypeError", ("Exception",)), ("NotImplementedError", ("RuntimeError", "Exception")),
               ("RuntimeError", ("Exception",)), ("AssertionError", ("Exception",)),
               ("IndexError", ("LookupError", "Exception")), ("KeyError", ("LookupError", "Exception")),
               ("ZeroDivisionError", ("ArithmeticError", "Exception")), ("AttributeError", ("Exception",)),
               ("ImportError", ("Exception",)), ("LinAlgError", ("ValueError", "Exception")),
               ("np.linalg.LinAlgError", ("ValueError", "Exception"))]:
    _EXC[_n] = ExcClass(_n, tuple(_b) + ("BaseException",))


def exc_matches(raised_name, handler_name):
    if handler_name in (raised_name, "BaseException"):
        return True
    c = _EXC.get(raised_name)
    return bool(c and handler_name in c.bases)


_SIGS = None


def _loop_signature(qual, ordinal):
    global _SIGS
    if _SIGS is None:
        import json
        import os
        try:
            with open(os.path.join(os.path.dirname(os.path.abspath(__file__)), "loop_signatures.json")) as f:
                _SIGS = json.load(f)
        except OSError:
            _SIGS = {}
    return _SIGS.get(f"{qual}#{ordinal}")


class LoopRule:
    """Inductive-invariant rule for a loop with a symbolic trip count (sidecar contract).

    establish(it, env)        check the invariant at loop entry (k = start)
    havoc(it, env, k)         overwrite the modified variables in env with a generic state that
                              satisfies the invariant at iteration index k (may assume facts)
    preserve(it, env, k)      check the invariant for index k+1 on the state at the end of the body
    modifies                  names the body may assign (checked against the AST)
    """
    modifies = ()

    def establish(self, it, env, start):
        pass

    def havoc(self, it, env, k):
        raise NotImplementedError

    def preserve(self, it, env, k):
        pass


class Frame:
    __slots__ = ("vars", "parent", "fn", "module")

    def __init__(self, fn, module, parent=None):
        self.vars, self.parent, self.fn, self.module = {}, parent, fn, module


def assigned_names(nodes):
    """Names (and base names of subscript/attribute targets, and receivers of mutating method calls)
    that a block may modify."""
    out = set()
    muts = {"append", "extend", "insert", "pop", "remove", "clear", "update", "sort", "reverse", "fill"}

    def base(t):
        while isinstance(t, (ast.Subscript, ast.Attribute)):
            t = t.value
        return t.id if isinstance(t, ast.Name) else None

    for root in nodes:
        for n in ast.walk(root):
            if isinstance(n, (ast.Assign, ast.AugAssign, ast.AnnAssign, ast.For)):
                tg = n.targets if isinstance(n, ast.Assign) else [n.target]
                for t in tg:
                    for e in ast.walk(t):
                        if isinstance(e, ast.Name) and isinstance(e.ctx, ast.Store):
                            out.add(e.id)
                    if isinstance(t, (ast.Subscript, ast.Attribute)):
                        b = base(t)
                        if b:
                            out.add(b)
                    if isinstance(t, ast.Tuple):
                        for e in t.elts:
                            if isinstance(e, (ast.Subscript, ast.Attribute)):
                                b = base(e)
                                if b:
                                    out.add(b)
            elif isinstance(n, ast.Call) and isinstance(n.func, ast.Attribute) and n.func.attr in muts:
                b = base(n.func.value)
                if b:
                    out.add(b)
    return out


class Interp:
    def __init__(self, repo, lib, contracts=None, loop_rules=None, inline=(), max_depth=40):
        self.repo = repo
        self.lib = lib                      # libmodel.Library
        self.contracts = contracts or {}    # qualname -> callable(interp, args, kwargs)
        self.loop_rules = loop_rules or {}  # (qualname, ordinal) -> LoopRule
        self.inline = set(inline)
        self.modenv = {}
        self.depth = 0
        self.max_depth = max_depth
        self.inlined = set()
        self.used_contracts = set()
        self.top = None

    # ------------------------------------------------------------------------------------------
    # module environments and import resolution
    def module_env(self, rel):
        if rel in self.modenv:
            return self.modenv[rel]
        m = self.repo.module(rel)
        env = {"__rel__": rel, "__module__": m, "__name__": "__qv__"}
        self.modenv[rel] = env
        for n in m.tree.body:
            self._bind_toplevel(n, env, m, rel)
        return env

    def _bind_toplevel(self, n, env, m, rel):
        if isinstance(n, ast.FunctionDef):
            env.setdefault(n.name, FuncVal(m, n, f"{rel}::{n.name}"))
        elif isinstance(n, ast.ClassDef):
            c = ClassVal(m, n, n.name)
            for b in n.body:
                if isinstance(b, ast.FunctionDef):
                    c.methods[b.name] = FuncVal(m, b, f"{rel}::{n.name}.{b.name}", cls=c)
            env.setdefault(n.name, c)
        elif isinstance(n, (ast.Import, ast.ImportFrom)):
            for k, v in self._import(n, rel).items():
                env.setdefault(k, v)
        elif isinstance(n, ast.Try):
            for b in n.body + [s for h in n.handlers for s in h.body] + n.orelse + n.finalbody:
                self._bind_toplevel(b, env, m, rel)
        elif isinstance(n, ast.If):
            for b in n.body + n.orelse:
                self._bind_toplevel(b, env, m, rel)
        elif isinstance(n, ast.Assign) and len(n.targets) == 1 and isinstance(n.targets[0], ast.Name):
            env.setdefault(n.targets[0].id, _LazyGlobal(n.value))

    def _find_repo_module(self, cur_rel, dotted, level):
        parts = dotted.split(".") if dotted else []
        bases = []
        if level:
            d = os.path.dirname(cur_rel)
            for _ in range(level - 1):
                d = os.path.dirname(d)
            bases = [d]
        else:
            bases = [os.path.dirname(cur_rel), "quatica", "quatica/decomp", ""]
        for b in bases:
            p = os.path.join(b, *parts) if parts else b
            for cand in (p + ".py", os.path.join(p, "__init__.py")):
                cand = os.path.normpath(cand)
                if self.repo.exists(cand):
                    return cand
        return None

    def _import(self, n, rel):
        out = {}
        if isinstance(n, ast.Import):
            for a in n.names:
                name = a.asname or a.name.split(".")[0]
                lm = self.lib.module(a.name if a.asname else a.name.split(".")[0])
                if lm is not None:
                    out[name] = lm
                else:
                    r = self._find_repo_module(rel, a.name, 0)
                    out[name] = ModVal(a.name, module=r) if r else ModVal(a.name)
            return out
        mod = n.module or ""
        lm = self.lib.module(mod) if not n.level else None
        for a in n.names:
            name = a.asname or a.name
            if a.name == "*":
                r = self._find_repo_module(rel, mod, n.level)
                if r:
                    e = self.module_env(r)
                    for k, v in e.items():
                        if not k.startswith("_"):
                            out[k] = v
                continue
            if lm is not None:
                try:
                    out[name] = self.lib.getattr(lm, a.name)
                except OutOfReach:
                    out[name] = Opaque(f"{mod}.{a.name} (not modelled)")
                continue
            r = self._find_repo_module(rel, mod, n.level)
            if r is None:
                # `from pkg import submodule`
                sub = self._find_repo_module(rel, (mod + "." if mod else "") + a.name, n.level)
                out[name] = ModVal(a.name, module=sub) if sub else Opaque(f"import {mod}.{a.name}")
                continue
            e = self.module_env(r)
            if a.name in e:
                out[name] = e[a.name]
            else:
                sub = self._find_repo_module(rel, (mod + "." if mod else "") + a.name, n.level)
                out[name] = ModVal(a.name, module=sub) if sub else Opaque(f"import {mod}.{a.name}")
        return out

    # ------------------------------------------------------------------------------------------
    def lookup(self, name, fr: Frame):
        f = fr
        while f is not None:
            if name in f.vars:
                return f.vars[name]
            f = f.parent
        env = self.module_env(fr.module.rel)
        if name in env:
            v = env[name]
            if isinstance(v, _LazyGlobal):
                v = self.eval(v.expr, Frame(None, fr.module))
                env[name] = v
            return v
        b = self.lib.builtin(name, self)
        if b is not _MISSING:
            return b
        if name in _EXC:
            return _EXC[name]
        import builtins as _bi
        if hasattr(_bi, name):
            # a Python builtin the library model does not cover (divmod, map, ...): the function is outside the executable subset here -
            # undecided, never a NameError of the program
            raise OutOfReach(f"builtin {name} is not modelled")
        raise Raised("NameError", name)

    # ------------------------------------------------------------------------------------------
    # calling
    def call_qual(self, qual, *args, **kwargs):
        m, node = self.repo.function(qual)
        rel, name = qual.split("::")
        env = self.module_env(rel)
        if "." in name:
            cname, mname = name.split(".")
            fv = env[cname].methods[mname]
        else:
            fv = env[name]
        self.top = qual
        return self.call(fv, list(args), dict(kwargs), top=True)

    def call(self, f, args, kwargs, top=False):
        if isinstance(f, BoundMethod):
            return self.call(f.fn, [f.obj] + list(args), kwargs, top=top)
        if isinstance(f, FuncVal):
            if not top and f.qualname in self.contracts and f.qualname not in self.inline:
                self.used_contracts.add(f.qualname)
                return self.contracts[f.qualname](self, args, kwargs)
            if not top and f.closure is None:
                self.inlined.add(f.qualname)
            return self.run_function(f, args, kwargs)
        if isinstance(f, ClassVal):
            o = Obj(f)
            init = f.methods.get("__init__")
            if init is not None:
                self.call(init, [o] + list(args), kwargs)
            return o
        if isinstance(f, Obj):
            cm = f.cls.methods.get("__call__")
            if cm:
                return self.call(cm, [f] + list(args), kwargs)
        if callable(f):
            try:
                return f(*args, **kwargs)
            except (OutOfReach, Raised, PathAbort, _Return, _Break, _Continue):
                raise
            except RecursionError:
                raise
            except Exception as e:
                raise OutOfReach(f"library model {getattr(f, '__name__', f)}: {type(e).__name__}: {e}")
        raise OutOfReach(f"call of {f!r}")

    def run_function(self, f: FuncVal, args, kwargs):
        self.depth += 1
        if self.depth > self.max_depth:
            self.depth -= 1
            raise OutOfReach("recursion depth")
        try:
            fr = Frame(f, f.module, f.closure)
            self._bind_args(f, fr, args, kwargs)
            try:
                self.exec_block(f.node.body, fr)
            except _Return as r:
                return r.v
            return None
        finally:
            self.depth -= 1

    def _bind_args(self, f, fr, args, kwargs):
        a = f.node.args
        params = [x.arg for x in a.posonlyargs + a.args]
        defaults = a.defaults
        ndef = len(defaults)
        kwargs = dict(kwargs)
        if len(args) > len(params) and not a.vararg:
            raise Raised("TypeError", f"{f.qualname}: too many positional arguments")
        for i, p in enumerate(params):
            if i < len(args):
                fr.vars[p] = args[i]
            elif p in kwargs:
                fr.vars[p] = kwargs.pop(p)
            else:
                j = i - (len(params) - ndef)
                if j >= 0:
                    fr.vars[p] = self.eval(defaults[j], Frame(None, f.module))
                else:
                    raise Raised("TypeError", f"{f.qualname}: missing argument {p}")
        if a.vararg:
            fr.vars[a.vararg.arg] = tuple(args[len(params):])
        for p, d in zip(a.kwonlyargs, a.kw_defaults):
            if p.arg in kwargs:
                fr.vars[p.arg] = kwargs.pop(p.arg)
            elif d is not None:
                fr.vars[p.arg] = self.eval(d, Frame(None, f.module))
            else:
                raise Raised("TypeError", f"missing kw-only {p.arg}")
        if kwargs:
            if a.kwarg:
                fr.vars[a.kwarg.arg] = kwargs
            else:
                raise Raised("TypeError", f"{f.qualname}: unexpected keyword {list(kwargs)}")

    # ------------------------------------------------------------------------------------------
    def _where(self, node, fr):
        f = fr.fn
        while f is None and fr.parent is not None:
            fr = fr.parent
            f = fr.fn
        if f is not None and hasattr(node, "lineno"):
            cur().where = f"{f.qualname}@L{node.lineno - f.node.lineno}"

    def exec_block(self, stmts, fr):
        for s in stmts:
            self.exec_stmt(s, fr)

    def exec_stmt(self, s, fr):
        self._where(s, fr)
        t = type(s)
        if t is ast.Expr:
            if isinstance(s.value, ast.Constant):
                return  # docstring / bare constant
            self.eval(s.value, fr)
        elif t is ast.Assign:
            v = self.eval(s.value, fr)
            for tg in s.targets:
                self.assign(tg, v, fr)
        elif t is ast.AnnAssign:
            if s.value is not None:
                self.assign(s.target, self.eval(s.value, fr), fr)
        elif t is ast.AugAssign:
            cur_v = self.eval(_as_load(s.target), fr)
            v = self.binop(s.op, cur_v, self.eval(s.value, fr))
            self.assign(s.target, v, fr)
        elif t is ast.If:
            if self.truth(self.eval(s.test, fr)):
                self.exec_block(s.body, fr)
            else:
                self.exec_block(s.orelse, fr)
        elif t is ast.Return:
            raise _Return(self.eval(s.value, fr) if s.value is not None else None)
        elif t is ast.For:
            self.exec_for(s, fr)
        elif t is ast.While:
            self.exec_while(s, fr)
        elif t is ast.Break:
            raise _Break()
        elif t is ast.Continue:
            raise _Continue()
        elif t is ast.Pass:
            return
        elif t is ast.Raise:
            if s.exc is None:
                raise Raised("RuntimeError", "re-raise")
            e = self.eval(s.exc, fr)
            if isinstance(e, ExcClass):
                e = e()
            if isinstance(e, ExcVal):
                raise Raised(e.cls.name, str(e.msg), cur().where)
            raise OutOfReach("raise of non-exception")
        elif t is ast.Assert:
            if not self.truth(self.eval(s.test, fr)):
                raise Raised("AssertionError", "", cur().where)
        elif t is ast.Try:
            self.exec_try(s, fr)
        elif t is ast.FunctionDef:
            fr.vars[s.name] = FuncVal(fr.module, s, f"{fr.fn.qualname if fr.fn else ''}.<{s.name}>", closure=fr)
        elif t in (ast.Import, ast.ImportFrom):
            for k, v in self._import(s, fr.module.rel).items():
                fr.vars[k] = v
        elif t is ast.Global or t is ast.Nonlocal:
            raise OutOfReach("global/nonlocal")
        elif t is ast.Delete:
            raise OutOfReach("del")
        elif t is ast.With:
            raise OutOfReach("with")
        else:
            raise OutOfReach(f"statement {t.__name__}")

    def exec_try(self, s, fr):
        try:
            try:
                self.exec_block(s.body, fr)
            except Raised as e:
                for h in s.handlers:
                    names = self._handler_names(h, fr)
                    if names is None or any(exc_matches(e.exc_type, n) for n in names):
                        if h.name:
                            fr.vars[h.name] = Opaque(f"exception {e.exc_type}")
                        cur().note(f"exception handler taken at {cur().where}")
                        self.exec_block(h.body, fr)
                        break
                else:
                    raise
            else:
                self.exec_block(s.orelse, fr)
        finally:
            if s.finalbody:
                self.exec_block(s.finalbody, fr)

    def _handler_names(self, h, fr):
        if h.type is None:
            return None
        ts = h.type.elts if isinstance(h.type, ast.Tuple) else [h.type]
        out = []
        for t in ts:
            v = self.eval(t, fr)
            out.append(v.name if isinstance(v, ExcClass) else ast.unparse(t))
        return out

    # -- loops ---------------------------------------------------------------------------------
    def _loop_ordinal(self, node, fr):
        f = fr.fn
        while f is None or f.closure is not None and False:
            break
        fn = fr.fn
        if fn is None:
            return None, None
        loops = [n for n in ast.walk(fn.node) if isinstance(n, (ast.For, ast.While))]
        loops.sort(key=lambda n: (n.lineno, n.col_offset))
        return fn.qualname, loops.index(node)

    def exec_for(self, s, fr):
        it = self.eval(s.iter, fr)
        if isinstance(it, SymRange):
            return self.exec_symbolic_loop(s, fr, it)
        from .values import SymList
        if isinstance(it, SymList):
            # iteration over a list of symbolic length with a closed-form entry: index loop binding the element
            if it.items or it.entry is None:
                raise OutOfReach("iteration over an abstract list without a closed form")
            return self.exec_symbolic_loop(s, fr, SymRange(0, it.prefix_len), elem=it.entry)
        if isinstance(it, (list, tuple, range, dict)) or hasattr(it, "__iter__"):
            broke = False
            for x in it:
                self.assign(s.target, x, fr)
                try:
                    self.exec_block(s.body, fr)
                except _Break:
                    broke = True
                    break
                except _Continue:
                    continue
            if not broke:
                self.exec_block(s.orelse, fr)
            return
        raise OutOfReach(f"iteration over {type(it).__name__}")

    def exec_while(self, s, fr):
        n = 0
        qual, ordinal = self._loop_ordinal(s, fr)
        rule = self.loop_rules.get((qual, ordinal))
        if rule is not None:
            return self.exec_symbolic_loop(s, fr, None, rule=rule)
        while True:
            c = self.eval(s.test, fr)
            if isinstance(c, SBool):
                raise OutOfReach(f"while loop with symbolic condition and no loop rule ({qual} loop {ordinal})")
            if not self.truth(c):
                self.exec_block(s.orelse, fr)
                return
            n += 1
            if n > 10000:
                raise OutOfReach("while loop bound")
            try:
                self.exec_block(s.body, fr)
            except _Break:
                return
            except _Continue:
                continue

    def exec_symbolic_loop(self, s, fr, rng, rule=None, elem=None):
        qual, ordinal = self._loop_ordinal(s, fr)
        rule = rule or self.loop_rules.get((qual, ordinal))
        if rule is None:
            raise OutOfReach(f"symbolic loop without a loop rule: {qual} loop {ordinal}")
        c = cur()
        mods = assigned_names(s.body) | ({s.target.id} if isinstance(s, ast.For) and isinstance(s.target, ast.Name) else set())
        unmanaged = {m for m in mods if m not in rule.modifies}
        # the sidecar rule names the loop's variables: if one of them no longer exists (renamed / removed in the code) the rule
        # does not describe this loop any more - the obligations are undecided, never refuted
        missing = [nm for nm in rule.modifies if nm not in mods and nm not in fr.vars]
        if missing:
            raise OutOfReach(f"loop rule for {qual} loop {ordinal} refers to variable(s) {missing} that the code no longer has")

        # a rule may say which loop it was written for (loop variable, iterated expression, exactly which names the body assigns): when the code
        # was restructured so that this ordinal is another loop, the rule does not apply - undecided, never a refutation, and in particular a
        # closed-form (skip_body) rule is never used for a loop whose body it does not describe
        exp = getattr(rule, "expects", None)
        if exp is None:
            sig = _loop_signature(qual, ordinal)       # recorded when the sidecar rules were written (tools_loop_signatures.py)
            if sig:
                n_loops = len([x for x in ast.walk(fr.fn.node) if isinstance(x, (ast.For, ast.While))])
                exp = {"target": sig["target"]}
                if n_loops != sig.get("loops_in_function", n_loops):
                    raise OutOfReach(f"{qual} has {n_loops} loops, the sidecar rules were written for {sig['loops_in_function']}: they do not apply to the restructured function")
        if exp:
            tgt = (s.target.id if isinstance(s.target, ast.Name) else ast.unparse(s.target)) if isinstance(s, ast.For) else None
            src = ast.unparse(s.iter if isinstance(s, ast.For) else s.test).replace(" ", "")
            own = mods - ({tgt} if tgt else set())
            if ("target" in exp and exp["target"] != tgt) or ("iter" in exp and exp["iter"].replace(" ", "") != src) or ("assigns" in exp and set(exp["assigns"]) != own):
                raise OutOfReach(f"loop rule for {qual} loop {ordinal} was written for another loop (expected {exp}, found target={tgt}, iter={src}, assigns={sorted(own)})")

        def scrub():
            # variables assigned in the body but not described by the invariant are unknown afterwards
            for nme in unmanaged:
                fr.vars[nme] = Opaque(f"loop-local {nme}")
        where0 = c.where
        desc = False
        if rng is not None:
            start, stop = rng.start, rng.stop
            if isinstance(rng.step, int) and rng.step == -1:
                desc = True            # range(start, stop, -1): k = start, start-1, ..., stop+1
            elif rng.step != 1:
                raise OutOfReach("symbolic range with step other than 1 or -1")
        else:
            start, stop = 0, None
        c.where = f"{qual}#loop{ordinal}.establish"
        rule.establish(self, fr, start)
        exhausted = SBool(sym.z3.Bool(c.fresh_name(f"loop{ordinal}.exhausted")))
        if self.truth(exhausted):
            # state after the loop ran to completion: invariant at k = stop (or start if empty)
            if rng is not None:
                kx = sym.smin(start, stop) if desc else sym.smax(start, stop)
                scrub()
                c.ghost["_havoc_kind"] = "exhausted"
                rule.havoc(self, fr, kx)
                if not c.ghost.get("_loop_depth"):
                    c.ghost["phase"] = "exhausted"
            else:
                kx = SInt.var(c.fresh_name("kexit"))
                c.assume(kx >= 0)
                scrub()
                c.ghost["_havoc_kind"] = "exhausted"
                rule.havoc(self, fr, kx)
                if not c.ghost.get("_loop_depth"):
                    c.ghost["phase"] = "exhausted"
                if not getattr(rule, "skip_body", False):
                    cond = self.eval(s.test, fr)
                    c.assume(snot(cond) if isinstance(cond, SBool) else (not cond))
            c.where = where0
            if getattr(rule, "skip_body", False) and s.orelse and any(isinstance(x, ast.Break) for b_ in s.body for x in ast.walk(b_)):
                # the havoc of a skip_body rule also stands for the exits through break: those skip the else clause
                if self.truth(SBool(sym.z3.Bool(c.fresh_name(f"loop{ordinal}.left_by_break")))):
                    return
            self.exec_block(s.orelse, fr)
            return
        if getattr(rule, "skip_body", False):
            # the rule's invariant is 'True' over arbitrary values of every modified variable: the state after the
            # loop (normal exit or break) is covered by the havoc above; nothing is claimed about the body
            raise PathAbort("loop body not executed (havoc-all rule)")
        # generic iteration
        k = SInt.var(c.fresh_name(f"k{ordinal}"))
        if desc:
            c.assume(k <= start)
            c.assume(k > stop)
        else:
            c.assume(k >= start)
            if rng is not None:
                c.assume(k < stop)
        scrub()
        c.ghost["_havoc_kind"] = "generic"
        rule.havoc(self, fr, k)
        # "phase" describes the OUTERMOST symbolic loop of the path: loops nested in its generic iteration do not overwrite it
        depth = c.ghost.get("_loop_depth", 0)
        if not depth:
            c.ghost["phase"] = "generic"
        if rng is not None:
            self.assign(s.target, elem(k) if elem is not None else k, fr)
        else:
            cond = self.eval(s.test, fr)
            c.assume(cond)
        c.ghost["_loop_depth"] = depth + 1
        try:
            self.exec_block(s.body, fr)
        except _Break:
            c.ghost["_loop_depth"] = depth
            c.where = where0
            return
        except _Continue:
            pass
        finally:
            c.ghost["_loop_depth"] = depth
        c.where = f"{qual}#loop{ordinal}.preserve"
        rule.preserve(self, fr, k)
        c.ghost["loop_end"] = (qual, ordinal, fr)
        raise PathAbort("end of generic loop iteration")

    def _is_live(self, name, fr):
        return True

    # ------------------------------------------------------------------------------------------
    def assign(self, tg, v, fr):
        t = type(tg)
        if t is ast.Name:
            fr.vars[tg.id] = v
        elif t in (ast.Tuple, ast.List):
            vals = self.iterate(v)
            if any(isinstance(e, ast.Starred) for e in tg.elts):
                raise OutOfReach("starred unpacking")
            if len(vals) != len(tg.elts):
                raise Raised("ValueError", f"cannot unpack {len(vals)} values into {len(tg.elts)}")
            for e, x in zip(tg.elts, vals):
                self.assign(e, x, fr)
        elif t is ast.Subscript:
            base = self.eval(tg.value, fr)
            idx = self.eval_index(tg.slice, fr)
            if hasattr(base, "setitem"):
                base.setitem(idx, v)
            elif isinstance(base, (list, dict)):
                if isinstance(idx, (SInt, SReal)):
                    raise OutOfReach("symbolic index into a Python list/dict")
                base[idx] = v
            else:
                raise OutOfReach(f"subscript store on {type(base).__name__}")
        elif t is ast.Attribute:
            base = self.eval(tg.value, fr)
            if isinstance(base, Obj):
                cur().effects.append(("setattr", base, tg.attr, cur().where))
                base.fields[tg.attr] = v
            else:
                raise OutOfReach(f"attribute store on {type(base).__name__}")
        else:
            raise OutOfReach(f"assignment target {t.__name__}")

    def iterate(self, v):
        if isinstance(v, (tuple, list)):
            return list(v)
        if hasattr(v, "unpack"):
            return list(v.unpack())
        if isinstance(v, (range, dict)):
            return list(v)
        raise OutOfReach(f"unpacking {type(v).__name__}")

    def truth(self, v):
        if isinstance(v, bool):
            return v
        if isinstance(v, SBool):
            return bool(v)
        if v is None:
            return False
        if isinstance(v, (int, Fraction, float, str, tuple, list, dict)):
            return bool(v)
        if isinstance(v, (SInt, SReal)):
            return bool(v != 0)
        if isinstance(v, (Obj, FuncVal, ClassVal, ModVal)):
            return True
        if hasattr(v, "truth"):
            return v.truth()
        raise OutOfReach(f"truth value of {type(v).__name__}")

    # ------------------------------------------------------------------------------------------
    _BIN = {ast.Add: operator.add, ast.Sub: operator.sub, ast.Mult: operator.mul, ast.Div: operator.truediv,
            ast.FloorDiv: operator.floordiv, ast.Mod: operator.mod, ast.MatMult: operator.matmul,
            ast.Pow: operator.pow, ast.BitAnd: operator.and_, ast.BitOr: operator.or_}

    _DUNDER = {ast.MatMult: ("__matmul__", "__rmatmul__"), ast.Mult: ("__mul__", "__rmul__"),
               ast.Add: ("__add__", "__radd__"), ast.Sub: ("__sub__", "__rsub__")}

    def binop(self, op, l, r):
        f = self._BIN.get(type(op))
        if f is None:
            raise OutOfReach(f"operator {type(op).__name__}")
        l, r = _num(l), _num(r)
        if (isinstance(l, Opaque) and l.what == "time") or (isinstance(r, Opaque) and r.what == "time"):
            if isinstance(l, (Opaque, int, Fraction)) and isinstance(r, (Opaque, int, Fraction)):
                return Opaque("time")    # clock readings only combine into clock readings
        dn = self._DUNDER.get(type(op))
        if dn is not None:
            if isinstance(l, Obj):
                m = l.cls.methods.get(dn[0])
                if m is None:
                    raise Raised("TypeError", f"unsupported operand: {l.cls.name} has no {dn[0]}")
                return self.call(BoundMethod(l, m), [r], {})
            if isinstance(r, Obj):
                m = r.cls.methods.get(dn[1])
                if m is None:
                    raise Raised("TypeError", f"unsupported operand: {r.cls.name} has no {dn[1]}")
                return self.call(BoundMethod(r, m), [l], {})
        if type(op) is ast.Div and isinstance(r, (int, Fraction)) and not isinstance(l, (SInt, SReal)) and isinstance(l, (int, Fraction)):
            if r == 0:
                raise Raised("ZeroDivisionError", "division by zero")
            return Fraction(l) / Fraction(r)
        if type(op) is ast.Pow and isinstance(l, (int, Fraction)) and isinstance(r, Fraction):
            if r.denominator == 1:
                return l ** int(r)
            if r == Fraction(1, 2):
                return sym.ssqrt(l)
            raise OutOfReach("fractional power")
        try:
            return f(l, r)
        except TypeError as e:
            raise OutOfReach(f"{type(op).__name__} on {type(l).__name__}, {type(r).__name__}: {e}")

    def eval_index(self, sl, fr):
        if isinstance(sl, ast.Slice):
            return slice(self.eval(sl.lower, fr) if sl.lower else None,
                         self.eval(sl.upper, fr) if sl.upper else None,
                         self.eval(sl.step, fr) if sl.step else None)
        if isinstance(sl, ast.Tuple):
            return tuple(self.eval_index(e, fr) for e in sl.elts)
        return self.eval(sl, fr)

    def eval(self, e, fr):
        t = type(e)
        if t is ast.Constant:
            v = e.value
            if isinstance(v, float):
                if v != v or v in (float("inf"), float("-inf")):
                    return v
                return Fraction(repr(v))
            if isinstance(v, complex):
                from .idx import CScal
                return CScal(Fraction(repr(v.real)), Fraction(repr(v.imag)))
            return v
        if t is ast.Name:
            return self.lookup(e.id, fr)
        if t is ast.BinOp:
            return self.binop(e.op, self.eval(e.left, fr), self.eval(e.right, fr))
        if t is ast.UnaryOp:
            v = self.eval(e.operand, fr)
            if isinstance(e.op, ast.USub):
                return -_num(v)
            if isinstance(e.op, ast.UAdd):
                return v
            if isinstance(e.op, ast.Not):
                return snot(v) if isinstance(v, SBool) else (not self.truth(v))
            if isinstance(e.op, ast.Invert):
                return ~v
        if t is ast.BoolOp:
            if isinstance(e.op, ast.And):
                v = True
                for x in e.values:
                    v = self.eval(x, fr)
                    if not self.truth(v):
                        return v
                return v
            v = False
            for x in e.values:
                v = self.eval(x, fr)
                if self.truth(v):
                    return v
            return v
        if t is ast.Compare:
            l = self.eval(e.left, fr)
            res = True
            for op, rn in zip(e.ops, e.comparators):
                r = self.eval(rn, fr)
                c = self.compare(op, l, r)
                if len(e.ops) == 1 and not isinstance(c, (bool, SBool)):
                    return c            # element-wise comparison of arrays yields an array
                res = sand(res, c)
                if res is False:
                    return False
                l = r
            return res
        if t is ast.Call:
            return self.eval_call(e, fr)
        if t is ast.Attribute:
            return self.getattr(self.eval(e.value, fr), e.attr)
        if t is ast.Subscript:
            base = self.eval(e.value, fr)
            idx = self.eval_index(e.slice, fr)
            return self.getitem(base, idx)
        if t is ast.Tuple:
            return tuple(self.eval(x, fr) for x in e.elts)
        if t is ast.List:
            return [self.eval(x, fr) for x in e.elts]
        if t is ast.Dict:
            return {self.eval(k, fr): self.eval(v, fr) for k, v in zip(e.keys, e.values)}
        if t is ast.IfExp:
            return self.eval(e.body, fr) if self.truth(self.eval(e.test, fr)) else self.eval(e.orelse, fr)
        if t is ast.JoinedStr:
            cur().note("f-string formatting dropped")
            return Opaque("fstring")
        if t in (ast.ListComp, ast.GeneratorExp):
            return self.eval_comp(e, fr)
        if t is ast.Lambda:
            fn = ast.FunctionDef(name="<lambda>", args=e.args, body=[ast.Return(value=e.body)], decorator_list=[],
                                 lineno=e.lineno, col_offset=e.col_offset, end_lineno=e.end_lineno)
            return FuncVal(fr.module, fn, "<lambda>", closure=fr)
        if t is ast.Starred:
            raise OutOfReach("starred expression")
        raise OutOfReach(f"expression {t.__name__}")

    def eval_comp(self, e, fr):
        if len(e.generators) != 1:
            gens = e.generators
        else:
            gens = e.generators
        out = []

        def rec(i, frame):
            if i == len(gens):
                out.append(self.eval(e.elt, frame))
                return
            g = gens[i]
            it = self.eval(g.iter, frame)
            if isinstance(it, SymRange):
                raise _SymComp(it)
            for x in (it if not isinstance(it, dict) else list(it)):
                f2 = Frame(frame.fn, frame.module, frame)
                self.assign(g.target, x, f2)
                if all(self.truth(self.eval(c, f2)) for c in g.ifs):
                    rec(i + 1, f2)

        try:
            rec(0, fr)
        except _SymComp as sc:
            # [elt(i) for i in range(a, b)] with a symbolic bound: a list given by its closed form
            if len(gens) != 1 or gens[0].ifs or sc.rng.step != 1 or not isinstance(gens[0].target, ast.Name):
                # a sidecar contract may describe this comprehension (keyed like a loop rule: (qualname, "comp", ordinal in the function))
                if fr.fn is not None:
                    comps = sorted((n for n in ast.walk(fr.fn.node) if isinstance(n, (ast.ListComp, ast.GeneratorExp))), key=lambda n: (n.lineno, n.col_offset))
                    crule = self.loop_rules.get((fr.fn.qualname, "comp", comps.index(e))) if e in comps else None
                    if crule is not None:
                        return crule(self, e, fr)
                raise OutOfReach("comprehension over a symbolic range (only the plain one-generator form is modelled)")
            from .values import SymList
            g = gens[0]
            start = sc.rng.start

            def entry_raw(j, g=g, fr=fr):
                f2 = Frame(fr.fn, fr.module, fr)
                f2.vars[g.target.id] = start + j
                return self.eval(e.elt, f2)
            n = sym.smax(sc.rng.stop - start, 0)
            # obligations of the element expression are checked once, for a generic index in range ...
            c = cur()
            jg = SInt.var(c.fresh_name("jcomp"))
            mark = len(c.path_hyps)
            c.path_hyps.append(sym.as_z3bool(sand(jg >= 0, jg < n)))
            try:
                entry_raw(jg)
            finally:
                del c.path_hyps[mark:]

            # ... and not again when the closed form is evaluated at other (model) indices
            def entry(j):
                c2 = cur()
                c2.suppress = getattr(c2, "suppress", 0) + 1
                try:
                    return entry_raw(j)
                finally:
                    c2.suppress -= 1
            return SymList(n, "comprehension", entry=entry)
        return out

    def compare(self, op, l, r):
        t = type(op)
        l, r = _num(l), _num(r)
        if t is ast.Is:
            return l is r
        if t is ast.IsNot:
            return l is not r
        from .values import OtherStr
        if isinstance(l, OtherStr) or isinstance(r, OtherStr):
            if t in (ast.Eq, ast.NotEq):
                res = l.eq(r) if isinstance(l, OtherStr) else r.eq(l)
                return (not res) if t is ast.NotEq else res
            if t in (ast.In, ast.NotIn) and isinstance(l, OtherStr) and isinstance(r, (list, tuple, dict)):
                res = any([l.eq(x) for x in (list(r))])
                return (not res) if t is ast.NotIn else res
            raise OutOfReach(f"{t.__name__} on an arbitrary string")
        if t in (ast.In, ast.NotIn):
            if isinstance(r, dict):
                res = l in r
            elif isinstance(r, (list, tuple)):
                res = sor(*[self.compare(ast.Eq(), l, x) for x in r]) if r else False
            elif isinstance(r, str) and isinstance(l, str):
                res = l in r
            else:
                raise OutOfReach("membership test")
            return snot(res) if t is ast.NotIn else res
        if t is ast.Eq or t is ast.NotEq:
            if getattr(l, "qv_value", False) and hasattr(l, "vshape") or getattr(r, "qv_value", False) and hasattr(r, "vshape"):
                if not (isinstance(l, tuple) or isinstance(r, tuple) or l is None or r is None or isinstance(l, str) or isinstance(r, str)):
                    return (l == r) if t is ast.Eq else (l != r)
            if isinstance(l, Opaque) or isinstance(r, Opaque):
                raise OutOfReach("comparison with an uninterpreted value")
            if isinstance(l, str) or isinstance(r, str) or l is None or r is None:
                res = (l == r) if not (isinstance(l, (SInt, SReal)) or isinstance(r, (SInt, SReal))) else False
            elif isinstance(l, tuple) and isinstance(r, tuple):
                res = sand(*[self.compare(ast.Eq(), a, b) for a, b in zip(l, r)]) if len(l) == len(r) else False
            elif isinstance(l, float) or isinstance(r, float):
                # only +-inf / nan reach here
                res = (l == r) if isinstance(l, float) and isinstance(r, float) else False
            else:
                res = (l == r)
            if t is ast.NotEq:
                return snot(res)
            return res
        f = {ast.Lt: operator.lt, ast.LtE: operator.le, ast.Gt: operator.gt, ast.GtE: operator.ge}[t]
        try:
            return f(l, r)
        except TypeError as e:
            raise OutOfReach(f"comparison {t.__name__} on {type(l).__name__},{type(r).__name__}")

    def getattr(self, v, name):
        if isinstance(v, Obj):
            if name in v.fields:
                return v.fields[name]
            m = v.cls.methods.get(name)
            if m is not None:
                return BoundMethod(v, m)
            if name == "__dict__":
                return v.fields
            raise Raised("AttributeError", name)
        if isinstance(v, ModVal):
            if v.module is not None:
                env = self.module_env(v.module)
                if name in env:
                    return env[name]
                raise Raised("AttributeError", f"{v.name}.{name}")
            return self.lib.getattr(v, name)
        if isinstance(v, ClassVal):
            if name in v.methods:
                return v.methods[name]
            raise Raised("AttributeError", name)
        if isinstance(v, Opaque):
            raise OutOfReach(f"attribute {name} of uninterpreted value {v.what}")
        r = self.lib.value_getattr(v, name)
        if r is not _MISSING:
            return r
        raise OutOfReach(f"attribute {name} on {type(v).__name__}")

    def getitem(self, base, idx):
        if hasattr(base, "getitem"):
            return base.getitem(idx)
        if isinstance(base, (list, tuple, str)):
            if isinstance(idx, (SInt, SReal)):
                raise OutOfReach("symbolic index into a Python sequence")
            if isinstance(idx, slice) and any(isinstance(x, SInt) for x in (idx.start, idx.stop, idx.step)):
                raise OutOfReach("symbolic slice of a Python sequence")
            try:
                return base[idx]
            except IndexError:
                raise Raised("IndexError", "sequence index out of range")
        if isinstance(base, dict):
            if idx not in base:
                raise Raised("KeyError", str(idx))
            return base[idx]
        raise OutOfReach(f"subscript on {type(base).__name__}")

    def eval_call(self, e, fr):
        self._where(e, fr)
        # print is dropped
        if isinstance(e.func, ast.Name) and e.func.id == "print":
            cur().note("print() dropped")
            return None
        f = self.eval(e.func, fr)
        args = []
        for a in e.args:
            if isinstance(a, ast.Starred):
                args.extend(self.iterate(self.eval(a.value, fr)))
            else:
                args.append(self.eval(a, fr))
        kwargs = {}
        for k in e.keywords:
            if k.arg is None:
                kwargs.update(self.eval(k.value, fr))
            else:
                kwargs[k.arg] = self.eval(k.value, fr)
        self._where(e, fr)
        return self.call(f, args, kwargs)


class _SymComp(Exception):
    def __init__(self, rng):
        self.rng = rng


class _LazyGlobal:
    def __init__(self, expr):
        self.expr = expr


class _Missing:
    pass


_MISSING = _Missing()


class SymRange:
    def __init__(self, start, stop, step=1):
        self.start, self.stop, self.step = start, stop, step


def _as_load(t):
    import copy
    t2 = copy.deepcopy(t)
    for n in ast.walk(t2):
        if hasattr(n, "ctx"):
            n.ctx = ast.Load()
    return t2


def _num(v):
    if isinstance(v, float) and v == v and v not in (float("inf"), float("-inf")):
        return Fraction(repr(v))
    return v
