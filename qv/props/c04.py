"""C04 - Q-GMRES returns a true solution and truthful convergence information.

Deductive part:
  solve.epilogue.{dense,sparse}   (matrix-level algebra, symbolic n; the core _GMRESQsparse by contract: ANY returned
                      iterate / residual / history)  the returned x is the core's iterate; info.residual and
                      info.residual_true are ||A x - b||_F / (||b||_F + 1e-30) of THAT x against the ORIGINAL system;
                      converged is (core residual < tol); iterations / history are the core's; the iteration cap passed to
                      the core is n when max_iter is None and max_iter otherwise, and self.max_iter is not written;
  solve.guard         non-square A raises before anything else (with and without preconditioner);
  core.zero_rhs       b = 0: the core returns x = 0, residual 0, no iterations (index level, symbolic n);
  core.bookkeeping    (term level, see below) for every path through one cycle of the core - any m, breakdown or not, last
                      cycle or not - the residual reported for the cycle is ||b - A xm|| / ||b|| of the iterate xm formed in
                      that cycle, xm = x0 + V y, the history entry is [m, res_ym, that residual], a cycle that does not stop
                      hands exactly its xm to the next cycle as x0, and the function returns the last cycle's (xm, res);
  core.arnoldi        (index level, all N, m, j) loop invariants of the modified Gram-Schmidt Arnoldi loop: the Arnoldi relation
                      A v_j = sum_{i <= j+1} v_i h_ij for every column, H upper Hessenberg, frames of V and H;
  core.least_squares  (free quaternion *-algebra, component quadruples as handles; all N, all cycle lengths, Arnoldi loop replaced by an
                      arbitrary V, H, v; Hess_QR_ggivens / UtriangleQsparse by their C16 contracts) the y used in a cycle satisfies the
                      normal equations H^H (Vm^H r0 - H y) = 0 and no other z has a smaller ||Vm^H r0 - H z|| (difference = ||H(y - z)||^2);
  core.arnoldi_orthonormal  (free algebra, basis array as a family of column atoms; all N, all cycle lengths, every column) modified Gram-Schmidt:
                      every column written has unit norm and is orthogonal to every earlier column, also the last vector that stays in v_0..v_3
                      (inner invariant: the work vector is orthogonal to the columns 0 .. i-1); exact arithmetic, the breakdown exit excluded,
                      restart residual assumed non-zero.  With core.least_squares and core.arnoldi: the iterate of a cycle minimises
                      ||b - A x|| over x0 + span(V) in exact arithmetic.
Rounding (loss of orthogonality in floating point), monotone history, convergence within n cycles, independence of
scaling and of preconditioning are decided by the bounded stand-in on the real code (n <= 6 (8); 9 matrix classes x
right-hand sides incl. eigenvectors and 0 x tolerances x caps 0..n x {none, left_lu} x dense/sparse x scalings 1e-6..1e6)."""
from __future__ import annotations

import itertools
from fractions import Fraction

import numpy as np
import z3

from .. import nc as ncm
from .. import smt
from ..core import Bounded, Obligation, Report, run_case
from ..kernels import ALGEBRA
from ..libmodel import Library
from ..nc import NC
from ..sym import OutOfReach, Raised, SBool, SInt, SReal, cur, sand, snot, sor, ssqrt
from ..values import F4, HMat, Obj, Opaque, QMat, RMat, SymList, fresh_qmat, fresh_rmat
from .c01 import comps_of, dims, mk_sparse
from .c03 import mk_self

P = "C04"
S = "quatica/solver.py::"
G = S + "QGMRESSolver."


def req(a, b):
    return SBool.mk(SReal.lift(a) == SReal.lift(b))


def k_core(I, args, kwargs):
    """Contract of the core used by solve(): arbitrary iterate, residual, basis, count and history."""
    slf, A0, A1, A2, A3, b0, b1, b2, b3, tol, maxit = args
    c = cur()
    N = A0.shape[1]
    xm = [fresh_rmat(f"xm{i}", N, 1) for i in range(4)]
    res = SReal.var("res_core")
    it = SInt.var("iter_core")
    hist = SymList(SInt.var("len_hist"), "resv")
    V = [Opaque(f"V{i}") for i in range(4)]
    c.ghost["core"] = dict(A=[A0, A1, A2, A3], b=[b0, b1, b2, b3], tol=tol, maxit=maxit, xm=xm, res=res, iter=it, hist=hist, V=V)
    return (*xm, res, *V, it, hist)


def same_comps(a, b):
    return all(isinstance(x, RMat) and isinstance(y, RMat) and not ncm.nc_diff_words(x.p, y.p) for x, y in zip(a, b))


def deductive(rep: Report, tier):
    lib = Library("nc")
    contracts = dict(ALGEBRA)
    contracts[G + "_GMRESQsparse"] = k_core

    for kind in ("dense", "sparse"):
        for cap in ("default", "given"):
            def setup(I, ctx, kind=kind, cap=cap):
                (n,) = dims(ctx, "n")
                tol = SReal.var("tol")
                K = SInt.var("max_iter")
                A = fresh_qmat("A", n, n) if kind == "dense" else mk_sparse(I, "A", n, n)
                b = fresh_qmat("b", n, 1)
                slf = mk_self(I, "QGMRESSolver", tol=tol, max_iter=(None if cap == "default" else K), verbose=False, preconditioner="none")
                return [slf, A, b], {}, dict(A=A, b=b, n=n, tol=tol, K=K, slf=slf, cap=cap)

            def post(I, ctx, outcome, val, aux, kind=kind):
                if outcome != "return":
                    return [("no_exception", False)]
                g = ctx.ghost.get("core")
                ok = isinstance(val, tuple) and len(val) == 2 and isinstance(val[1], dict) and g is not None
                out = [("no_exception", True), ("returns_x_and_info", ok)]
                if not ok:
                    return out
                x, info = val
                A, b, n = aux["A"], aux["b"], aux["n"]
                out.append(("x_is_the_core_iterate", isinstance(x, QMat) and same_comps(x.c, g["xm"])))
                out.append(("core_sees_the_original_system", same_comps(g["A"], comps_of(A)) and same_comps(g["b"], comps_of(b))))
                Ac, bc, xc = [c.p for c in comps_of(A)], [c.p for c in comps_of(b)], [c.p for c in g["xm"]]
                from .. import spec
                Ax = spec.ham_sym(Ac, xc)
                r2 = None
                for i in range(4):
                    t = ncm.fro2(Ax[i] - bc[i])
                    r2 = t if r2 is None else r2 + t
                b2 = None
                for i in range(4):
                    t = ncm.fro2(bc[i])
                    b2 = t if b2 is None else b2 + t
                true = ssqrt(r2) / (ssqrt(b2) + Fraction(1, 10 ** 30))
                out.append(("residual_is_true_residual_of_returned_x", req(info.get("residual"), true)))
                out.append(("residual_true_is_true_residual_of_returned_x", req(info.get("residual_true"), true)))
                conv = info.get("converged")
                want = g["res"] < aux["tol"]
                out.append(("converged_is_core_residual_below_tol", (conv == want) if isinstance(conv, SBool) else False))
                out.append(("iterations_and_history_are_the_core's", info.get("iterations") is g["iter"] and info.get("residual_history") is g["hist"]))
                out.append(("tolerance_passed_to_core", g["tol"] is aux["tol"]))
                if aux["cap"] == "default":
                    out.append(("cap_passed_to_core", SBool.mk(SInt.lift(g["maxit"]) == SInt.lift(n))))
                else:
                    out.append(("cap_passed_to_core", g["maxit"] is aux["K"]))
                wrote = [e for e in ctx.effects if e[0] == "setattr" and e[1] is aux["slf"]]
                out.append(("solver_object_not_modified", not wrote))
                return out
            cl = ["no_exception", "returns_x_and_info", "x_is_the_core_iterate", "core_sees_the_original_system", "residual_is_true_residual_of_returned_x",
                  "residual_true_is_true_residual_of_returned_x", "converged_is_core_residual_below_tol", "iterations_and_history_are_the_core's",
                  "tolerance_passed_to_core", "cap_passed_to_core", "solver_object_not_modified"]
            run_case(rep, P, G + "solve", f"epilogue.{kind}.{cap}", setup, post, lib=lib, contracts=contracts, clauses=cl, replay=replay_solve, timeout_s=30)

    for prec in ("none", "left_lu"):
        def setup_g(I, ctx, prec=prec):
            m, n = dims(ctx, "m", "n")
            ctx.assume(m != n, base=True)
            slf = mk_self(I, "QGMRESSolver", tol=Fraction(1, 10 ** 6), max_iter=None, verbose=False, preconditioner=prec)
            return [slf, fresh_qmat("A", m, n), fresh_qmat("b", m, 1)], {}, None

        def post_g(I, ctx, outcome, val, aux):
            return [("raises_ValueError", outcome == "raise" and val.exc_type == "ValueError"), ("nothing_called_before", "core" not in ctx.ghost)]
        run_case(rep, P, G + "solve", f"guard_square.{prec}", setup_g, post_g, lib=lib, contracts=contracts, clauses=["raises_ValueError", "nothing_called_before"])
    solve_left_lu(rep)
    core_bookkeeping(rep)
    least_squares_glue(rep)
    arnoldi_orthonormality(rep)
    arnoldi_relation(rep)
    # canary: a residual formed against a different right-hand side is not accepted
    a, b, c = z3.Reals("a b c")
    rep.canary("C04.canary.other_rhs", smt.prove([a >= 0, b > 0, c > 0], a / b == a / c, 5).status == smt.REFUTED)


# ----------------------------------------------------------------------------------------------------
# solve() with the left LU preconditioner (abstract quaternion algebra; LU and the triangular solves by contract)
class Comp:
    """Component c of an abstract quaternion matrix (handle passed between _quat_to_components, the core and back)."""
    qv_value = True

    def __init__(self, mat, c):
        self.mat, self.c = mat, c
        self.shape = mat.shape


def solve_left_lu(rep: Report):
    from ..interp import LoopRule
    from ..nc import Atom
    from ..values import fresh_hmat
    from .c13 import k_upper_solve
    LUQ = "quatica/decomp/LU.py::quaternion_lu"
    lib = Library("nc")
    lib.qmode = "H"

    def k_lu(I, args, kwargs):
        """quaternion_lu(A, return_p=True) by its C07 contract: P A = L U with P a permutation, L, U invertible; it may
        also raise (zero pivot), which solve() catches."""
        (A,) = args[:1]
        c = cur()
        if c.decide(SBool(z3.Bool(c.fresh_name("lu_fails")))):
            raise Raised("ValueError", "zero pivot")
        n = A.shape[0]
        Li, Ui = Atom("Linv", n, n, "gen", alg="H"), Atom("Uinv", n, n, "gen", alg="H")
        L, U = Atom("L", n, n, "gen", inv_of="Linv", alg="H"), Atom("U", n, n, "gen", inv_of="Uinv", alg="H")
        Pm = Atom("P", n, n, "orth", alg="H")
        w = [wd for wd in A.p.t]
        if len(w) != 1 or len(w[0]) != 1:
            raise OutOfReach("LU of a compound expression")
        ncm.add_rewrite((("P", False),) + tuple(w[0]), (("L", False), ("U", False)))
        M = NC.atom(Ui) @ NC.atom(Li) @ NC.atom(Pm)
        c.ghost["lu"] = dict(A=A, Minv=M)
        return HMat(NC.atom(L)), HMat(NC.atom(U)), HMat(NC.atom(Pm))

    def k_to_comps(I, args, kwargs):
        _, A = args
        if not isinstance(A, HMat):
            raise OutOfReach("components of a non-matrix")
        return tuple(Comp(A, c) for c in range(4))

    def k_core_h(I, args, kwargs):
        slf, A0, A1, A2, A3, b0, b1, b2, b3, tol, maxit = args
        c = cur()
        ok = all(isinstance(x, Comp) and x.c == i for i, x in enumerate((A0, A1, A2, A3))) and len({id(x.mat) for x in (A0, A1, A2, A3)}) == 1 \
            and all(isinstance(x, Comp) and x.c == i for i, x in enumerate((b0, b1, b2, b3))) and len({id(x.mat) for x in (b0, b1, b2, b3)}) == 1
        if not ok:
            raise OutOfReach("core called with mixed components")
        X = fresh_hmat("X", A0.shape[1], 1)
        res, it = SReal.var("res_core"), SInt.var("iter_core")
        hist = SymList(SInt.var("len_hist"), "resv")
        c.ghost["core"] = dict(A=A0.mat, b=b0.mat, tol=tol, maxit=maxit, X=X, res=res, iter=it, hist=hist)
        return (*[Comp(X, i) for i in range(4)], res, Opaque("V0"), Opaque("V1"), Opaque("V2"), Opaque("V3"), it, hist)

    def k_from_comps(I, args, kwargs):
        _, c0, c1, c2, c3 = args
        if all(isinstance(x, Comp) and x.c == i for i, x in enumerate((c0, c1, c2, c3))) and len({id(x.mat) for x in (c0, c1, c2, c3)}) == 1:
            return c0.mat
        raise OutOfReach("components of different matrices recombined")

    class Columns(LoopRule):
        """for Aj in A_cols: after k columns A_tilde_cols[j] = U^-1 L^-1 P A[:, j] for every j < k."""
        modifies = ("A_tilde_cols",)

        def entry(self, fr):
            M = cur().ghost["lu"]["Minv"]
            cols = fr.vars["A_cols"]
            return lambda j: HMat(M @ cols.entry(j).p)

        def establish(self, it, fr, start):
            v = fr.vars.get("A_tilde_cols")
            cur().require("inv.establish", isinstance(v, list) and not v, "no preconditioned column yet", key="lu.columns.inv.establish")

        def havoc(self, it, fr, k):
            fr.vars["A_tilde_cols"] = SymList(k, "A_tilde_cols", entry=self.entry(fr))

        def preserve(self, it, fr, k):
            c = cur()
            v = fr.vars.get("A_tilde_cols")
            one = isinstance(v, SymList) and len(v.items) == 1 and isinstance(v.items[0], HMat)
            c.require("inv.preserve", one, "exactly one column appended", key="lu.columns.inv.preserve.one_append")
            if one:
                st, be, secs, wit = ncm.nc_equal_obligation(v.items[0].p, self.entry(fr)(k).p, c.hyps())
                c.require("inv.preserve", st == smt.PROVED, f"appended column is U^-1 L^-1 P A[:, k]: {wit}", key="lu.columns.inv.preserve.value")

    def np_concatenate(parts, axis=0):
        if isinstance(parts, SymList) and axis == 1 and parts.entry is not None and not parts.items:
            c = cur()
            j = SInt.var(c.fresh_name("jcol"))
            c.assume(sand(j >= 0, j < parts.prefix_len))
            pj = parts.entry(j).p
            key = f"e[{SInt.lift(j)}]"
            W = {}
            for w, coef in pj.t.items():
                if not w or w[-1] != (key, False) or any(str(SInt.lift(j)) in n for n, _ in w[:-1]):
                    raise OutOfReach("concatenated columns are not of the form W e_j")
                W[w[:-1]] = coef
            return HMat(NC(W, pj.rows, parts.prefix_len))
        raise OutOfReach("np.concatenate form")
    lib.np.table["concatenate"] = np_concatenate
    contracts = dict(ALGEBRA)
    contracts.update({LUQ: k_lu, S + "_solve_lower_triangular_quat": k_upper_solve, S + "_solve_upper_triangular_quat": k_upper_solve,
                      G + "_quat_to_components": k_to_comps, G + "_GMRESQsparse": k_core_h, G + "_components_to_quat": k_from_comps})

    def setup(I, ctx):
        (n,) = dims(ctx, "n")
        tol = SReal.var("tol")
        A, b = fresh_hmat("A", n, n), fresh_hmat("b", n, 1)
        slf = mk_self(I, "QGMRESSolver", tol=tol, max_iter=None, verbose=False, preconditioner="left_lu")
        HMat.column_atoms = True
        return [slf, A, b], {}, dict(A=A, b=b, n=n, tol=tol, slf=slf)

    def post(I, ctx, outcome, val, aux):
        if outcome == "loop_end" or outcome == "abort":
            return []
        if outcome != "return":
            return [("no_exception", False)]
        g = ctx.ghost.get("core")
        ok = isinstance(val, tuple) and len(val) == 2 and isinstance(val[1], dict) and g is not None
        out = [("no_exception", True), ("returns_x_and_info", ok)]
        if not ok:
            return out
        x, info = val
        A, b, n = aux["A"], aux["b"], aux["n"]
        out.append(("x_is_the_core_iterate", x is g["X"]))
        lu = ctx.ghost.get("lu")
        if lu is not None:
            # preconditioned system: M^-1 A (= I by the LU contract) and M^-1 b
            st1 = ncm.nc_equal_obligation(g["A"].p, NC.eye(n), ctx.hyps())[0] == smt.PROVED
            st2 = ncm.nc_equal_obligation(g["b"].p, lu["Minv"] @ b.p, ctx.hyps())[0] == smt.PROVED
            out.append(("core_sees_the_preconditioned_or_original_system", st1 and st2))
        else:
            out.append(("core_sees_the_preconditioned_or_original_system", g["A"] is A and g["b"] is b))
        true = ssqrt(ncm.fro2(A.p @ g["X"].p - b.p)) / (ssqrt(ncm.fro2(b.p)) + Fraction(1, 10 ** 30))
        out.append(("residual_is_true_residual_against_the_original_system", req(info.get("residual"), true)))
        out.append(("residual_true_is_true_residual_against_the_original_system", req(info.get("residual_true"), true)))
        conv = info.get("converged")
        out.append(("converged_is_core_residual_below_tol", (conv == (g["res"] < aux["tol"])) if isinstance(conv, SBool) else False))
        return out
    cl = ["no_exception", "returns_x_and_info", "x_is_the_core_iterate", "core_sees_the_preconditioned_or_original_system",
          "residual_is_true_residual_against_the_original_system", "residual_true_is_true_residual_against_the_original_system", "converged_is_core_residual_below_tol"]
    try:
        run_case(rep, P, G + "solve", "left_lu", setup, post, lib=lib, contracts=contracts, loop_rules={(G + "solve", 0): Columns()},
                 clauses=cl, replay=replay_solve, timeout_s=30)
    finally:
        HMat.column_atoms = False


# ----------------------------------------------------------------------------------------------------
# term-level bookkeeping of the Arnoldi core
def core_bookkeeping(rep: Report):
    from .. import term as tm
    from ..interp import LoopRule
    UQ = "quatica/utils.py::"
    QN = G + "_GMRESQsparse"
    contracts = {UQ + "normQsparse": tm.k_norm, UQ + "timesQsparse": tm.k_times, UQ + "Hess_QR_ggivens": tm.k_hess_qr,
                 UQ + "A2A0123": tm.k_a2a0123, UQ + "UtriangleQsparse": tm.k_utriangle}

    def residual_of(A, b, x):
        d = tm.times_terms(A, x)
        return tm.norm_term([b[c] - d[c] for c in range(4)]) / tm.norm_term(b)

    class Arnoldi(LoopRule):
        """for j in range(m): the Arnoldi / Gram-Schmidt body is NOT executed; afterwards the basis V (N x m'), the
        Hessenberg matrix H (m'+1 x m'), the next vector v, the breakdown flag and m' (1 <= m' <= m, m' = m unless
        breakdown) are arbitrary."""
        skip_body = True
        modifies = ("V0", "V1", "V2", "V3", "H0", "H1", "H2", "H3", "v_0", "v_1", "v_2", "v_3", "breakdown", "m")

        def havoc(self, it, fr, k):
            c = cur()
            N, m_old = fr.vars["N"], fr.vars["m"]
            bd = SBool(z3.Bool(c.fresh_name("breakdown")))
            mp = SInt.var(c.fresh_name("m_cycle"))
            c.assume(sand(mp >= 1, mp <= m_old, sor(bd, mp == m_old)))
            tag = c.fresh_name("cyc")
            for i in range(4):
                fr.vars[f"V{i}"] = tm.atom(f"V{i}@{tag}", (N, mp))
                fr.vars[f"H{i}"] = tm.atom(f"H{i}@{tag}", (mp + 1, mp))
                fr.vars[f"v_{i}"] = tm.atom(f"v{i}@{tag}", (N, 1))
            fr.vars["breakdown"] = bd
            fr.vars["m"] = mp
            c.ghost["cycle"] = dict(m=mp, breakdown=bd, index=m_old)

    class Restart(LoopRule):
        """for m in range(1, N+1): at the head of cycle k > 1 the state is the one left by a completed, non-stopping cycle
        k-1:  x0 = xm,  res = ||b - A xm|| / ||b||,  iter = k-1,  history of length k-1 whose last entry is [k-1, . , res]."""
        modifies = ("x0_0", "x0_1", "x0_2", "x0_3", "xm_0", "xm_1", "xm_2", "xm_3", "res", "resv", "iter", "V0", "V1", "V2", "V3")

        def establish(self, it, fr, start):
            c = cur()
            z = all(isinstance(fr.vars.get(f"x0_{i}"), tm.TArr) and fr.vars[f"x0_{i}"].node[0] == "zeros" for i in range(4))
            c.require("inv.establish", z, "the first cycle starts from x0 = 0", key="core.inv.establish.x0_zero")
            c.require("inv.establish", isinstance(fr.vars.get("resv"), list) and not fr.vars["resv"], "history empty at entry", key="core.inv.establish.history_empty")
            c.ghost["entry"] = {n: fr.vars.get(n) for n in ("x0_0", "x0_1", "x0_2", "x0_3", "resv")}

        def havoc(self, it, fr, k):
            c = cur()
            g = c.ghost
            A = [fr.vars[f"A{i}"] for i in range(4)]
            b = [fr.vars[f"b_{i}"] for i in range(4)]
            N = fr.vars["N"]
            if c.decide(SBool.mk(SInt.lift(k) > 1)):
                tag = c.fresh_name("prev")
                XM = [tm.atom(f"xm{i}@{tag}", (N, 1)) for i in range(4)]
                res = residual_of(A, b, XM)
                RY = z3.Function(c.fresh_name("RESYM"), z3.IntSort(), z3.RealSort())
                RX = z3.Function(c.fresh_name("RESXM"), z3.IntSort(), z3.RealSort())
                entry = lambda j: [SInt.mk(SInt.lift(j) + 1), SReal(RY(SInt.lift(j))), SReal(z3.If(SInt.lift(j) == SInt.lift(k - 2), SReal.lift(res), RX(SInt.lift(j))))]
                for i in range(4):
                    fr.vars[f"xm_{i}"] = XM[i]
                    fr.vars[f"x0_{i}"] = XM[i].copy()
                    fr.vars[f"V{i}"] = tm.atom(f"Vprev{i}@{tag}", (N, k - 1))
                fr.vars["res"] = res
                fr.vars["iter"] = k - 1
                fr.vars["resv"] = SymList(k - 1, "resv", entry=entry)
                g["head"] = dict(k=k, x0=XM, first=False)
            else:
                for n_, v in g["entry"].items():
                    fr.vars[n_] = v.copy() if isinstance(v, tm.TArr) else list(v)
                g["head"] = dict(k=k, x0=[fr.vars[f"x0_{i}"] for i in range(4)], first=True)

        def preserve(self, it, fr, k):
            c = cur()
            A = [fr.vars[f"A{i}"] for i in range(4)]
            b = [fr.vars[f"b_{i}"] for i in range(4)]
            xm = [fr.vars.get(f"xm_{i}") for i in range(4)]
            x0 = [fr.vars.get(f"x0_{i}") for i in range(4)]
            ok = all(isinstance(v, tm.TArr) for v in xm + x0)
            c.require("inv.preserve", ok and all(a.node == b_.node for a, b_ in zip(x0, xm)), "a cycle that does not stop hands its own iterate xm to the next cycle as x0", key="core.inv.preserve.restart_from_xm")
            c.require("inv.preserve", ok and req(fr.vars.get("res"), residual_of(A, b, xm)), "res is ||b - A xm|| / ||b|| of this cycle's iterate", key="core.inv.preserve.res_is_residual_of_xm")
            c.require("inv.preserve", SBool.mk(SInt.lift(fr.vars.get("iter")) == SInt.lift(k)), "iter is the cycle index", key="core.inv.preserve.iter")
            rv = fr.vars.get("resv")
            items = rv.items if isinstance(rv, SymList) else rv
            n_now = rv.length() if isinstance(rv, SymList) else len(rv)
            last = items[-1] if items else None
            good = isinstance(last, list) and len(last) == 3
            c.require("inv.preserve", good and SBool.mk(SInt.lift(n_now) == SInt.lift(k)), "exactly one history entry per cycle", key="core.inv.preserve.history_length")
            if good:
                c.require("inv.preserve", sand(SBool.mk(SInt.lift(last[0]) == SInt.lift(k)), req(last[2], fr.vars.get("res"))), "history entry is [cycle, . , res of this cycle]", key="core.inv.preserve.history_entry")
            self.check_update(fr, xm)

        @staticmethod
        def update_ok(V, xm):
            h = cur().ghost["head"]
            return all(isinstance(x, tm.TArr) and x.node[0] == "add" and x.node[2] == h["x0"][i].node and isinstance(x.node[1], tuple) and x.node[1][0] == "times"
                       and x.node[1][1] == i and all(isinstance(v, tm.TArr) for v in V) and x.node[1][2] == tuple(v.node for v in V) for i, x in enumerate(xm))

        @staticmethod
        def check_update(fr, xm):
            c = cur()
            h = c.ghost["head"]
            V = [fr.vars.get(f"V{i}") for i in range(4)]
            shape_ok = all(isinstance(x, tm.TArr) and x.node[0] == "add" and x.node[2] == h["x0"][i].node and isinstance(x.node[1], tuple) and x.node[1][0] == "times"
                           and x.node[1][1] == i and x.node[1][2] == tuple(v.node for v in V) for i, x in enumerate(xm))
            c.require("step", shape_ok, "xm = x0 + V y with the cycle's basis V and the restart iterate x0", key="core.step.xm_is_x0_plus_Vy")

    for cap in ("given", "none"):
        def setup(I, ctx, cap=cap):
            (n,) = dims(ctx, "n")
            A = [tm.atom(f"A{i}", (n, n)) for i in range(4)]
            b = [tm.atom(f"b{i}", (n, 1)) for i in range(4)]
            tol, K = SReal.var("tol"), SInt.var("maxit")
            slf = mk_self(I, "QGMRESSolver", tol=tol, max_iter=None, verbose=False, preconditioner="none")
            return [slf] + A + b + [tol, (K if cap == "given" else None)], {}, dict(A=A, b=b, n=n, tol=tol)

        def post(I, ctx, outcome, val, aux):
            if outcome == "raise":
                return [("no_exception", False)]
            if outcome != "return":
                return []
            A, b, n = aux["A"], aux["b"], aux["n"]
            ok = isinstance(val, tuple) and len(val) == 11
            out = [("no_exception", True), ("returns_eleven_values", ok)]
            if not ok:
                return out
            xm, res, it, resv = list(val[0:4]), val[4], val[9], val[10]
            nb = tm.norm_term(b)
            if ctx.valid(nb == 0) is True:
                zero = all(isinstance(x, tm.TArr) and x.node[0] == "zeros" for x in xm)
                out += [("zero_rhs_returns_x_zero", zero), ("zero_rhs_residual_zero_no_cycles", res == 0 and it == 0 and resv == [])]
                return out
            out.append(("zero_rhs_returns_x_zero", True))
            out.append(("zero_rhs_residual_zero_no_cycles", True))
            good = all(isinstance(x, tm.TArr) for x in xm)
            out.append(("res_is_residual_of_returned_x", good and req(res, residual_of(A, b, xm))))
            items = resv.items if isinstance(resv, SymList) else resv
            if items:
                last = items[-1]
            elif isinstance(resv, SymList) and resv.entry is not None:
                last = resv.entry(resv.length() - 1)
            else:
                last = None
            goodl = isinstance(last, list) and len(last) == 3
            out.append(("last_history_entry_is_returned_res", goodl and req(last[2], res)))
            out.append(("iter_is_last_cycle", goodl and SBool.mk(SInt.lift(it) == SInt.lift(last[0]))))
            head = ctx.ghost.get("head")
            untouched = head is not None and all(isinstance(x, tm.TArr) and x.node == head["x0"][i].node for i, x in enumerate(xm))
            if not untouched:       # (untouched: the loop ran to completion and the state is the invariant's own iterate)
                # the cycle that stopped (tolerance reached, cap exceeded or breakdown): its iterate is still x0 + V y
                out.append(("stopping_cycle_iterate_is_x0_plus_Vy", Restart.update_ok(list(val[5:9]), xm)))
            else:
                out.append(("stopping_cycle_iterate_is_x0_plus_Vy", True))
            return out
        cl = ["no_exception", "returns_eleven_values", "zero_rhs_returns_x_zero", "zero_rhs_residual_zero_no_cycles", "res_is_residual_of_returned_x",
              "last_history_entry_is_returned_res", "iter_is_last_cycle", "stopping_cycle_iterate_is_x0_plus_Vy"]
        lib = tm.install(Library("idx"))
        run_case(rep, P, QN, f"bookkeeping.cap_{cap}", setup, post, lib=lib, contracts=contracts,
                 loop_rules={(QN, 0): Restart(), (QN, 1): Arnoldi()}, clauses=cl, replay=replay_solve, timeout_s=30, max_paths=800)


# ----------------------------------------------------------------------------------------------------
# the small least-squares problem of one cycle: the y that is used minimises ||bm - H y||   (all N, all cycle lengths)
def least_squares_glue(rep: Report):
    """One generic restart cycle of _GMRESQsparse in the free quaternion *-algebra, component quadruples as handles (QComp):
       the Arnoldi loop is replaced by an arbitrary basis V, Hessenberg matrix H and new vector v (its own relation is
       arnoldi_relation); everything after it is the real code:
           bm = Vm^H r0,   (U, R) = Hess_QR_ggivens(H)  [contract C16:  U unitary,  U R = H,  R = [Rt; 0] with Rt m x m upper triangular,
           here: invertible - the zero-diagonal fault path is UtriangleQsparse's own obligation in C16],
           bm2 = U^H bm (zero-padded when the basis is already square),  y = UtriangleQsparse(R[:m, :m], bm2[:m])  [contract C16: Rt y = rhs].
       Obligations emitted where the triangular solve is called:
           ls.normal_equations      H^H (bm - H y) = 0
           ls.optimal               ||bm - H z||^2 - ||bm - H y||^2 = ||H (y - z)||^2   for an arbitrary z  (so no z does better)
       both as identities of normal forms (definitional rewrite  H -> U E1 Rt,  E1 = [I_m; 0],  inverse pair Rt / Rt^-1)."""
    from ..interp import LoopRule
    from ..nc import Atom
    from ..values import fresh_hmat
    UQ = "quatica/utils.py::"
    QN = G + "_GMRESQsparse"

    class QComp:
        """component c of the quaternion matrix `mat`; tr: transposed, sgn: sign.  (X0.T, -X1.T, -X2.T, -X3.T) is X^H in component form."""
        qv_value = True

        def __init__(self, mat, c, tr=False, sgn=1):
            self.mat, self.c, self.tr, self.sgn = mat, c, tr, sgn
            r, k = mat.shape
            self.shape = (k, r) if tr else (r, k)

        def has_attr(self, name):
            return name in ("shape", "T", "flatten", "copy")

        @property
        def T(self):
            return QComp(self.mat, self.c, not self.tr, self.sgn)

        def __neg__(self):
            return QComp(self.mat, self.c, self.tr, -self.sgn)

        def flatten(self):
            return self

        def copy(self):
            return QComp(self.mat, self.c, self.tr, self.sgn)

        def _bin(self, o, sign):
            if isinstance(o, Zero):
                return self
            if not (isinstance(o, QComp) and o.c == self.c and not self.tr and not o.tr and self.sgn == 1 and o.sgn == 1):
                raise OutOfReach("sum of unrelated component handles")
            return QComp(HMat(self.mat.p + o.mat.p if sign > 0 else self.mat.p - o.mat.p), self.c)

        def __add__(self, o):
            return self._bin(o, 1)

        def __radd__(self, o):
            if isinstance(o, Zero):
                return self
            return NotImplemented

        def __sub__(self, o):
            return self._bin(o, -1)

        def __truediv__(self, s):
            if self.tr or self.sgn != 1:
                raise OutOfReach("scaling of a transposed handle")
            if getattr(s, "np_float64", False):      # numpy: division by a float64 norm never raises (A1: inf / nan not modelled)
                return QComp(HMat(self.mat.p.scale(SReal.mk(1 / SReal.lift(s)))), self.c)
            return QComp(HMat(self.mat.p / s), self.c)

        def getitem(self, idx):
            """the two slices the code takes:  R[:m, :m] of the triangular factor and  c[:m] of an (m+1)-vector"""
            g = cur().ghost.get("ls")
            if g is None or self.tr or self.sgn != 1:
                raise OutOfReach("slice of a component handle")
            t = idx if isinstance(idx, tuple) else (idx,)
            ok = all(isinstance(s_, slice) and s_.start is None and s_.step is None and s_.stop is not None for s_ in t)
            if not ok or cur().valid(sand(*[SBool.mk(SInt.lift(s_.stop) == SInt.lift(g["m"])) for s_ in t])) is not True:
                raise OutOfReach("slice other than [:m]")
            if len(t) == 2 and ncm.nc_syntactically_equal(self.mat.p, g["R"].p):
                return QComp(g["Rt"], self.c)
            if len(t) == 1 and cur().valid(sand(SBool.mk(SInt.lift(self.mat.shape[0]) == SInt.lift(g["m"]) + 1), SBool.mk(SInt.lift(self.mat.shape[1]) == 1))) is True:
                return QComp(HMat(g["E1"].p.star @ self.mat.p), self.c)
            raise OutOfReach("slice of a component handle that is neither R[:m, :m] nor c[:m]")

    class Zero:
        """np.zeros(...) work array: whatever is written into it before the Arnoldi loop is overwritten by the loop rule's arbitrary state"""
        qv_value = True

        def __init__(self, shape):
            self.shape = tuple(shape)

        def has_attr(self, name):
            return name in ("shape", "copy", "flatten")

        def copy(self):
            return Zero(self.shape)

        def flatten(self):
            return self

        def setitem(self, idx, val):
            cur().ghost["zero_written"] = True
            self.dirty = True

    def quad(q):
        """the quaternion matrix (NC polynomial) denoted by a component quadruple"""
        if all(isinstance(x, Zero) and not getattr(x, "dirty", False) for x in q):
            return NC.zero(q[0].shape[0], q[0].shape[1])
        if not all(isinstance(x, QComp) and x.c == i for i, x in enumerate(q)):
            raise OutOfReach("quadruple of unrelated component handles")
        m0 = q[0].mat.p
        if not all(ncm.nc_syntactically_equal(x.mat.p, m0) for x in q[1:]):
            raise OutOfReach("components of different matrices in one quadruple")
        if all(not x.tr and x.sgn == 1 for x in q):
            return m0
        if all(x.tr for x in q) and q[0].sgn == 1 and all(x.sgn == -1 for x in q[1:]):
            return m0.star
        if len({x.tr for x in q}) == 1:
            # some other sign pattern (e.g. the plain transpose X^T, which is no anti-automorphism of quaternion matrices): a matrix of that
            # shape about which nothing is known
            r, k = q[0].shape
            return fresh_hmat(cur().fresh_name("signed_variant"), r, k).p
        raise OutOfReach("component quadruple with mixed transposition")

    def comps(p):
        Hm = HMat(p)
        return tuple(QComp(Hm, i) for i in range(4))

    def k_times(I, args, kwargs):
        B, C = quad(args[0:4]), quad(args[4:8])
        ncm.dims_equal(B.cols, C.rows, "conformable.timesQsparse")
        wB = B.t
        if len(wB) == 1:
            (word, coef), = wB.items()
            if len(word) == 1 and word[0][1] and word[0][0].split("!")[0] in ("V", "Vm") and isinstance(coef, Fraction) and coef == 1:
                # Vm^H r: the coordinates of a vector in the cycle's basis - for r = r0 the right-hand side (beta e1) of the small problem
                cur().ghost["ls_bm"] = HMat(B @ C)
        return comps(B @ C)

    def k_norm(I, args, kwargs):
        from ..term import NPFloat
        return NPFloat(ssqrt(ncm.fro2(quad(args[0:4]))).z)      # a numpy float: dividing by it never raises

    def np_column_stack(parts):
        Vc, vc = parts
        if not (isinstance(Vc, QComp) and isinstance(vc, QComp) and Vc.c == vc.c):
            raise OutOfReach("column_stack form")
        memo = cur().ghost.setdefault("colstack", {})
        key = (id(Vc.mat), id(vc.mat))
        if key not in memo:
            memo[key] = fresh_hmat(cur().fresh_name("Vm"), Vc.shape[0], Vc.shape[1] + vc.shape[1])
        return QComp(memo[key], Vc.c)

    class Stack4:
        qv_value = True

        def __init__(self, mat):
            self.mat = mat
            self.shape = (4 * mat.shape[0], mat.shape[1])

    def np_vstack(parts):
        parts = list(parts)
        if len(parts) == 4 and all(isinstance(x, QComp) for x in parts):
            return Stack4(HMat(quad(parts)))
        if len(parts) == 2 and isinstance(parts[0], QComp) and isinstance(parts[1], Zero):
            # [c; 0] with one zero row appended = E1' c with E1' = [I; 0]: only the case rows(c) = m, one row appended, is used
            g = cur().ghost.get("ls")
            c_, z = parts
            if g is not None and cur().valid(sand(SBool.mk(SInt.lift(z.shape[0]) == 1), SBool.mk(SInt.lift(c_.shape[0]) == SInt.lift(g["m"])), SBool.mk(SInt.lift(c_.shape[1]) == 1))) is True:
                return QComp(HMat(g["E1"].p @ c_.mat.p), c_.c)
        raise OutOfReach("np.vstack form")

    def k_hess(I, args, kwargs):
        (Hs,) = args
        if not isinstance(Hs, Stack4):
            raise OutOfReach("Hess_QR_ggivens on something that is not the stacked Hessenberg matrix")
        w = Hs.mat.p.t
        if len(w) != 1 or len(next(iter(w))) != 1:
            raise OutOfReach("Hessenberg matrix is not an atom")
        (word, _), = w.items()
        m1, m = Hs.mat.shape
        Ua = Atom("Uq", m1, m1, "orth", alg="H")
        E1 = Atom("E1", m1, m, "orthcols", alg="H")
        Rti = Atom("Rtinv", m, m, "gen", alg="H")
        Rt = Atom("Rt", m, m, "gen", inv_of="Rtinv", alg="H")
        ncm.add_rewrite(tuple(word), (("Uq", False), ("E1", False), ("Rt", False)))
        g = cur().ghost["ls"] = dict(H=Hs.mat, U=HMat(NC.atom(Ua)), E1=HMat(NC.atom(E1)), Rt=HMat(NC.atom(Rt)), Rtinv=HMat(NC.atom(Rti)), m=m,
                                     R=HMat(NC.atom(E1) @ NC.atom(Rt)), Hword=word)
        return ("hessU", g["U"]), ("hessR", g["R"])

    def k_a2a(I, args, kwargs):
        (t,) = args
        if isinstance(t, tuple) and len(t) == 2 and t[0] in ("hessU", "hessR"):
            return tuple(QComp(t[1], i) for i in range(4))
        raise OutOfReach("A2A0123 on an unknown block matrix")

    def k_utri(I, args, kwargs):
        c = cur()
        g = c.ghost.get("ls")
        Rm, rhs = quad(args[0:4]), quad(args[4:8])
        if g is None or not ncm.nc_syntactically_equal(Rm, g["Rt"].p):
            raise OutOfReach("triangular solve with a matrix that is not the leading block of the QR factor")
        y = g["Rtinv"].p @ rhs
        Hm = NC.atom(ncm.ATOMS[g["Hword"][0][0]])
        bm = c.ghost.get("ls_bm")
        res = c.ghost.setdefault("ls_results", [])
        names = ("normal_equations_HH_times_bm_minus_Hy_is_zero", "no_other_z_gives_a_smaller_residual")
        m_ = g["m"]
        if bm is not None and c.valid(SBool.mk(SInt.lift(bm.shape[0]) == SInt.lift(m_))) is True:
            bm = HMat(g["E1"].p @ bm.p)            # the basis is already square (m = N): [bm; 0]
        if bm is None or c.valid(SBool.mk(SInt.lift(bm.shape[0]) == SInt.lift(m_) + 1)) is not True:
            for nm in names:    # the small problem's right-hand side Vm^H r0 was not recognised: nothing is decided here (never a refutation)
                res.append((nm, smt.UNDECIDED, "", 0.0, "the product Vm^H r0 that defines the small least-squares problem was not found before the triangular solve"))
        else:
            hy = c.hyps()
            st, be, secs, wit = ncm.nc_equal_obligation(Hm.star @ (bm.p - Hm @ y), NC.zero(Hm.cols, 1), hy)
            res.append((names[0], st, be, secs, wit or None))
            z = fresh_hmat(c.fresh_name("zany"), Hm.cols, 1).p
            lhs = ncm.fro2(bm.p - Hm @ z) - ncm.fro2(bm.p - Hm @ y)
            rhs_ = ncm.fro2(Hm @ (y - z))
            v = smt.prove(hy, SReal.lift(lhs) == SReal.lift(rhs_), 20)
            res.append((names[1], v.status, "normal-form+" + v.backend, v.secs, None if v.status == smt.PROVED else {"model": v.model}))
        c.ghost["ls_checked"] = c.ghost.get("ls_checked", 0) + 1
        return comps(y)

    class Arnoldi(LoopRule):
        skip_body = True
        modifies = ("V0", "V1", "V2", "V3", "H0", "H1", "H2", "H3", "v_0", "v_1", "v_2", "v_3", "breakdown", "m")

        def havoc(self, it, fr, k):
            c = cur()
            N, m_old = fr.vars["N"], fr.vars["m"]
            bd = SBool(z3.Bool(c.fresh_name("breakdown")))
            mp = SInt.var(c.fresh_name("m_cycle"))
            c.assume(sand(mp >= 1, mp <= m_old, sor(bd, mp == m_old)))
            V, Hm, v = fresh_hmat(c.fresh_name("V"), N, mp), fresh_hmat(c.fresh_name("H"), mp + 1, mp), fresh_hmat(c.fresh_name("v"), N, 1)
            for i in range(4):
                fr.vars[f"V{i}"], fr.vars[f"H{i}"], fr.vars[f"v_{i}"] = QComp(V, i), QComp(Hm, i), QComp(v, i)
            fr.vars["breakdown"] = bd
            fr.vars["m"] = mp

    class Cycle(LoopRule):
        """invariant 'True': a cycle starts from an arbitrary restart iterate x0 (what the cycles hand to each other is core_bookkeeping's business)"""
        modifies = ("x0_0", "x0_1", "x0_2", "x0_3", "xm_0", "xm_1", "xm_2", "xm_3", "res", "resv", "iter")

        def havoc(self, it, fr, k):
            c = cur()
            X0 = fresh_hmat(c.fresh_name("x0"), fr.vars["N"], 1)
            Xm = fresh_hmat(c.fresh_name("xm"), fr.vars["N"], 1)
            for i in range(4):
                fr.vars[f"x0_{i}"], fr.vars[f"xm_{i}"] = QComp(X0, i), QComp(Xm, i)
            fr.vars["res"] = SReal.var(c.fresh_name("res"))
            fr.vars["iter"] = SInt.var(c.fresh_name("iter"))
            L = SInt.var(c.fresh_name("len"))
            c.assume(L >= 0)
            fr.vars["resv"] = SymList(L, "resv")

    lib = Library("nc")
    lib.qmode = "H"
    lib.alloc_hooks.append(lambda what, shape, dtype: Zero(shape if isinstance(shape, tuple) else (shape,)) if what in ("zeros", "empty") else None)
    lib.np.table["column_stack"] = np_column_stack
    lib.np.table["vstack"] = np_vstack
    contracts = {UQ + "normQsparse": k_norm, UQ + "timesQsparse": k_times, UQ + "Hess_QR_ggivens": k_hess, UQ + "A2A0123": k_a2a, UQ + "UtriangleQsparse": k_utri}

    def setup(I, ctx):
        (n,) = dims(ctx, "n")
        A, b = fresh_hmat("A", n, n), fresh_hmat("b", n, 1)
        tol, K = SReal.var("tol"), SInt.var("maxit")
        slf = mk_self(I, "QGMRESSolver", tol=tol, max_iter=None, verbose=False, preconditioner="none")
        return [slf] + [QComp(A, i) for i in range(4)] + [QComp(b, i) for i in range(4)] + [tol, K], {}, None

    def post(I, ctx, outcome, val, aux):
        if not ctx.ghost.get("ls"):
            return []          # paths that never enter a cycle (b = 0, empty loop)
        return [("a_cycle_reaches_the_triangular_solve", ctx.ghost.get("ls_checked", 0) >= 1)] + list(ctx.ghost.get("ls_results", []))
    run_case(rep, P, QN, "least_squares", setup, post, lib=lib, contracts=contracts, loop_rules={(QN, 0): Cycle(), (QN, 1): Arnoldi()},
             clauses=["a_cycle_reaches_the_triangular_solve", "normal_equations_HH_times_bm_minus_Hy_is_zero", "no_other_z_gives_a_smaller_residual"], replay=replay_solve, timeout_s=30, max_paths=400, loop_end=True)


# ----------------------------------------------------------------------------------------------------
# modified Gram-Schmidt: the Arnoldi basis is orthonormal (exact arithmetic), all N, all cycle lengths, every column
def arnoldi_orthonormality(rep: Report):
    """The Arnoldi loop of _GMRESQsparse in the free quaternion *-algebra, component quadruples as handles.  The basis array is a family of column
    atoms v[t] (column t is written exactly once: t = 0 before the loop, t = j + 1 in pass j); what is known about them are the facts proved
    when they are written.  Invariants:
        pass j (outer):   columns 0..j are orthonormal:  v[a]^H v[b] = delta_ab  for a, b <= j
        step i (inner):   the work vector w satisfies  v[l]^H w = 0  for every l < i        (w_0 = A v[j],  w_{i+1} = w_i - v[i] (v[i]^H w_i))
    and at each write of a column (and for the last vector, which stays in v_0..v_3) the obligations
        unit norm:  ||w / ||w|| ||_F = 1      orthogonal to every earlier column:  v[l]^H (w / ||w||) = 0  for a generic l <= j.
    Universally quantified facts are instantiated by hand at the indices a step touches (the generic l, the current i); the breakdown exit
    (||w|| negligible: the vector is not normalised) is outside the claim.  With core.least_squares this gives: in exact arithmetic the iterate of a
    cycle minimises the residual over x0 + span(V)."""
    from ..interp import LoopRule
    from ..nc import Atom
    from ..sym import PathAbort
    from ..term import NPFloat
    from ..values import fresh_hmat
    UQ = "quatica/utils.py::"
    QN = G + "_GMRESQsparse"
    zi = SInt.lift

    class QComp:
        qv_value = True

        def __init__(self, mat, c, tr=False, sgn=1):
            self.mat, self.c, self.tr, self.sgn = mat, c, tr, sgn
            r, k = mat.shape
            self.shape = (k, r) if tr else (r, k)

        def has_attr(self, name):
            return name in ("shape", "T", "flatten", "copy")

        @property
        def T(self):
            return QComp(self.mat, self.c, not self.tr, self.sgn)

        def __neg__(self):
            return QComp(self.mat, self.c, self.tr, -self.sgn)

        def flatten(self):
            return self

        def copy(self):
            return QComp(self.mat, self.c, self.tr, self.sgn)

        def getitem(self, idx):
            if idx == (0, 0) and cur().valid(sand(SBool.mk(zi(self.shape[0]) == 1), SBool.mk(zi(self.shape[1]) == 1))) is True:
                return self
            raise OutOfReach("index into a component handle")

        def _bin(self, o, sign):
            if isinstance(o, Zero):
                return self
            if not (isinstance(o, QComp) and o.c == self.c and not self.tr and not o.tr and self.sgn == 1 and o.sgn == 1):
                raise OutOfReach("sum of unrelated component handles")
            return QComp(HMat(self.mat.p + o.mat.p if sign > 0 else self.mat.p - o.mat.p), self.c)

        def __add__(self, o):
            return self._bin(o, 1)

        def __sub__(self, o):
            return self._bin(o, -1)

        def __truediv__(self, s):
            if self.tr or self.sgn != 1:
                raise OutOfReach("scaling of a transposed handle")
            if getattr(s, "np_float64", False):
                return QComp(HMat(self.mat.p.scale(SReal.mk(1 / SReal.lift(s)))), self.c)
            return QComp(HMat(self.mat.p / s), self.c)

    class Zero:
        qv_value = True

        def __init__(self, shape):
            self.shape = tuple(shape)

        def has_attr(self, name):
            return name in ("shape", "copy", "flatten")

        def copy(self):
            return Zero(self.shape)

        def flatten(self):
            return self

    def colname(t):
        return f"v[{z3.simplify(zi(t)) if not isinstance(t, int) else t}]"

    def col(t, N):
        nm = colname(t)
        if nm not in ncm.ATOMS:
            Atom(nm, N, 1, "gen", alg="H")
        return HMat(NC.atom(ncm.ATOMS[nm]))

    def orth_fact(a, b):
        """instantiate the outer invariant (columns 0 .. j_cur orthonormal) at the pair (a, b)"""
        c = cur()
        g = c.ghost
        jc = g["j_cur"]
        if c.valid(sand(SBool.mk(zi(a) >= 0), SBool.mk(zi(a) <= zi(jc)), SBool.mk(zi(b) >= 0), SBool.mk(zi(b) <= zi(jc)))) is not True:
            return
        na, nb = colname(a), colname(b)
        if c.valid(SBool.mk(zi(a) == zi(b))) is True:
            ncm.add_rewrite(((na, True), (nb, False)), ())
        elif c.valid(SBool.mk(zi(a) != zi(b))) is True:
            g["zero_words"] = tuple(g.get("zero_words", ())) + (((na, True), (nb, False)), ((nb, True), (na, False)))

    class VArr:
        """component c of the basis array: column t is the atom v[t]"""
        qv_value = True

        def __init__(self, c, N, m):
            self.c, self.shape = c, (N, m)

        def has_attr(self, name):
            return name in ("shape", "T")

        @property
        def T(self):
            raise PathAbort("after the Arnoldi loop (left through the breakdown exit with a square basis): the least-squares step is core.least_squares")

        def getitem(self, idx):
            c = cur()
            if isinstance(idx, tuple) and len(idx) == 2 and idx[0] == slice(None) and isinstance(idx[1], slice) and idx[1].step is None:
                a, b = idx[1].start, idx[1].stop
                if a is None:                       # V[:, :m] on breakdown
                    return VArr(self.c, self.shape[0], b)
                if c.valid(SBool.mk(zi(b) == zi(a) + 1)) is True:
                    c.require("index.range", sand(SBool.mk(zi(a) >= 0), SBool.mk(zi(a) < zi(self.shape[1]))), f"column {zi(a)} inside the basis array")
                    return QComp(col(a, self.shape[0]), self.c)
            raise OutOfReach("index pattern on the basis array")

        def setitem(self, idx, val):
            c = cur()
            if not (isinstance(idx, tuple) and len(idx) == 2 and idx[0] == slice(None) and not isinstance(idx[1], slice) and isinstance(val, QComp) and val.c == self.c and not val.tr):
                raise OutOfReach("write pattern on the basis array")
            t = idx[1]
            c.require("index.range", sand(SBool.mk(zi(t) >= 0), SBool.mk(zi(t) < zi(self.shape[1]))), f"column {zi(t)} inside the basis array")
            pend = c.ghost.setdefault("col_writes", {})
            key = colname(t)
            ent = pend.setdefault(key, {"t": t, "vals": {}})
            ent["vals"][self.c] = val.mat
            if len(ent["vals"]) == 4:
                mats = [ent["vals"][k] for k in range(4)]
                same = all(ncm.nc_syntactically_equal(m_.p, mats[0].p) for m_ in mats[1:])
                new_column(t, mats[0] if same else None, self.shape[0])
                del pend[key]

    def new_column(t, E, N):
        """column t := E.  Obligations on E, then E is known as the atom v[t]."""
        c = cur()
        g = c.ghost
        rec = g.setdefault("emit", [])
        tag = "first_column" if (isinstance(t, int) and t == 0) else "new_column"
        if E is None:
            rec.append((f"{tag}.same_vector_in_all_four_components", smt.REFUTED, "syntactic", 0.0, None))
            return
        v = smt.prove(c.hyps(), SReal.lift(ncm.fro2(E.p)) == 1, 20)
        rec.append((f"{tag}.unit_norm", v.status, "normal-form+" + v.backend, v.secs, None if v.status == smt.PROVED else {"model": v.model}))
        if tag == "new_column":
            check_orthogonal_to_earlier(E, t, tag)
        col(t, N)

    def check_orthogonal_to_earlier(E, t, tag):
        """v[l]^H E = 0 for a generic earlier column l < t: the work vector is W (inner invariant: orthogonal to every column l <= j), E = W / ||W||"""
        c = cur()
        g = c.ghost
        rec = g.setdefault("emit", [])
        l = SInt.var(c.fresh_name("l_earlier"))
        c.assume(sand(l >= 0, l < t))
        N = E.shape[0]
        w = g.get("w_inv")
        if w is not None:
            Wname, bound = w
            if c.valid(SBool.mk(zi(l) < zi(bound))) is True:          # instance of the inner invariant at l
                g["zero_words"] = tuple(g.get("zero_words", ())) + (((colname(l), True), (Wname, False)), ((Wname, True), (colname(l), False)))
        vl = col(l, N)
        prod = vl.p.star @ E.p
        st, be, secs, wit = ncm.nc_equal_obligation(prod, NC.zero(1, 1), c.hyps())
        rec.append((f"{tag}.orthogonal_to_every_earlier_column", st, be, secs, wit or None))

    def quad(q):
        if all(isinstance(x, Zero) for x in q):
            return NC.zero(q[0].shape[0], q[0].shape[1])
        if not all(isinstance(x, QComp) and x.c == i for i, x in enumerate(q)):
            raise OutOfReach("quadruple of unrelated component handles")
        m0 = q[0].mat.p
        if not all(ncm.nc_syntactically_equal(x.mat.p, m0) for x in q[1:]):
            raise OutOfReach("components of different matrices in one quadruple")
        if all(not x.tr and x.sgn == 1 for x in q):
            return m0
        if all(x.tr for x in q) and q[0].sgn == 1 and all(x.sgn == -1 for x in q[1:]):
            return m0.star
        if len({x.tr for x in q}) == 1:
            r, k = q[0].shape           # another sign pattern (e.g. the plain transpose): some matrix of that shape about which nothing is known
            return fresh_hmat(cur().fresh_name("signed_variant"), r, k).p
        raise OutOfReach("component quadruple with mixed transposition")

    def comps(p):
        Hm = HMat(p)
        return tuple(QComp(Hm, i) for i in range(4))

    def k_times(I, args, kwargs):
        B, C = quad(args[0:4]), quad(args[4:8])
        ncm.dims_equal(B.cols, C.rows, "conformable.timesQsparse")
        return comps(B @ C)

    def k_norm(I, args, kwargs):
        return NPFloat(ssqrt(ncm.fro2(quad(args[0:4]))).z)

    class HArr:
        """component c of the Hessenberg array: only the entry written last is read back"""
        qv_value = True

        def __init__(self, c, shape):
            self.c, self.shape, self.last = c, tuple(shape), None

        def has_attr(self, name):
            return name == "shape"

        def setitem(self, idx, val):
            self.last = (str(tuple(str(zi(x)) if not isinstance(x, int) else x for x in idx)), val)

        def getitem(self, idx):
            if isinstance(idx, tuple) and len(idx) == 2 and any(isinstance(x, slice) for x in idx):
                return self
            key = str(tuple(str(zi(x)) if not isinstance(x, int) else x for x in idx))
            if self.last is not None and self.last[0] == key:
                return self.last[1]
            raise OutOfReach("read of a Hessenberg entry other than the one written last")

    def alloc(what, shape, dtype):
        c = cur()
        shp = shape if isinstance(shape, tuple) else (shape,)
        if what not in ("zeros", "empty") or len(shp) != 2:
            return None
        k = c.ghost.get("alloc_count", 0)
        c.ghost["alloc_count"] = k + 1
        role = c.ghost.get("alloc_roles", {}).get(k)
        if role and role[0] == "V":
            return VArr(role[1], shp[0], shp[1])
        if role and role[0] == "H":
            return HArr(role[1], shp)
        return Zero(shp)

    class Inner(LoopRule):
        """for i in range(j + 1):  the work vector is orthogonal to the columns 0 .. i-1"""
        modifies = ("v_0", "v_1", "v_2", "v_3", "H0", "H1", "H2", "H3")      # (the Hessenberg arrays keep only the entry written last)

        def establish(self, it, fr, start):
            pass                                        # i = 0: nothing to show

        def havoc(self, it, fr, k):
            c = cur()
            N = fr.vars["N"]
            W = fresh_hmat(c.fresh_name("W"), N, 1)
            (word, _), = W.p.t.items()
            c.ghost["w_inv"] = (word[0][0], k)
            for i in range(4):
                fr.vars[f"v_{i}"] = QComp(W, i)
            if c.ghost.get("_havoc_kind") == "generic":
                # the step uses column i = k and the generic earlier column: instantiate the orthonormality of the columns 0 .. j at those pairs
                orth_fact(k, k)

        def preserve(self, it, fr, k):
            c = cur()
            g = c.ghost
            rec = g.setdefault("emit", [])
            vq = [fr.vars.get(f"v_{i}") for i in range(4)]
            if not all(isinstance(x, QComp) and x.c == i and not x.tr for i, x in enumerate(vq)) or not all(ncm.nc_syntactically_equal(x.mat.p, vq[0].mat.p) for x in vq[1:]):
                rec.append(("inner.preserve.work_vector_is_one_quaternion_vector", smt.REFUTED, "syntactic", 0.0, None))
                return
            Wn = vq[0].mat
            N = Wn.shape[0]
            Wname, _ = g["w_inv"]
            l = SInt.var(c.fresh_name("l_inner"))
            c.assume(sand(l >= 0, l < k + 1))
            if c.decide(SBool.mk(zi(l) == zi(k))):
                vl = col(k, N)                                           # l = i: v[i]^H (w - v[i] (v[i]^H w)) = 0 because v[i]^H v[i] = 1
            else:
                orth_fact(l, k)                                          # l < i: v[l]^H v[i] = 0 and (inner invariant at l) v[l]^H w = 0
                g["zero_words"] = tuple(g.get("zero_words", ())) + (((colname(l), True), (Wname, False)), ((Wname, True), (colname(l), False)))
                vl = col(l, N)
            # the new work vector was formed before these facts were registered: rebuild its normal form under them by re-multiplying
            prod = vl.p.star @ (Wn.p @ NC.eye(1))
            st, be, secs, wit = ncm.nc_equal_obligation(prod, NC.zero(1, 1), c.hyps())
            rec.append(("inner.preserve.work_vector_orthogonal_to_columns_up_to_i", st, be, secs, wit or None))

    class Outer(LoopRule):
        """for j in range(m): columns 0 .. j are orthonormal (the facts are attached to the column atoms when the columns are written)"""
        modifies = ("v_0", "v_1", "v_2", "v_3", "breakdown", "H0", "H1", "H2", "H3", "m", "V0", "V1", "V2", "V3")
        # (m and the truncation of V change only on the breakdown exit; the basis array object itself is a stateless view on the column atoms)

        def establish(self, it, fr, start):
            cur().ghost["j_cur"] = start

        def havoc(self, it, fr, k):
            c = cur()
            if c.ghost.get("_havoc_kind") == "exhausted":
                raise PathAbort("after the Arnoldi loop: the least-squares step is core.least_squares")
            c.ghost["j_cur"] = k
            for i in range(4):
                fr.vars[f"v_{i}"] = Opaque(f"v_{i}")
                fr.vars[f"H{i}"] = HArr(i, (fr.vars["m"] + 1, fr.vars["m"]))
            fr.vars["breakdown"] = False

        def preserve(self, it, fr, k):
            c = cur()
            g = c.ghost
            # pass j = m - 1: the new vector is not stored in the array but stays in v_0..v_3 (it becomes the last column of Vm)
            if c.valid(SBool.mk(zi(k) == zi(fr.vars["m"]) - 1)) is True and fr.vars.get("breakdown") is False:
                vq = [fr.vars.get(f"v_{i}") for i in range(4)]
                if all(isinstance(x, QComp) for x in vq) and all(ncm.nc_syntactically_equal(x.mat.p, vq[0].mat.p) for x in vq[1:]):
                    E = vq[0].mat
                    v = smt.prove(c.hyps(), SReal.lift(ncm.fro2(E.p)) == 1, 20)
                    g.setdefault("emit", []).append(("last_vector.unit_norm", v.status, "normal-form+" + v.backend, v.secs, None if v.status == smt.PROVED else {"model": v.model}))
                    check_orthogonal_to_earlier(E, k + 1, "last_vector")

    class Cycle(LoopRule):
        modifies = ("x0_0", "x0_1", "x0_2", "x0_3", "xm_0", "xm_1", "xm_2", "xm_3", "res", "resv", "iter")

        def havoc(self, it, fr, k):
            c = cur()
            X0 = fresh_hmat(c.fresh_name("x0"), fr.vars["N"], 1)
            for i in range(4):
                fr.vars[f"x0_{i}"] = QComp(X0, i)
                fr.vars[f"xm_{i}"] = QComp(X0, i)
            fr.vars["res"] = SReal.var(c.fresh_name("res"))
            fr.vars["iter"] = SInt.var(c.fresh_name("iter"))
            L = SInt.var(c.fresh_name("len"))
            c.assume(L >= 0)
            fr.vars["resv"] = SymList(L, "resv")
            # a cycle starts from an iterate that is not an exact solution: r0 = b - A x0 != 0.  (First cycle: x0 = 0 and b != 0 was tested; later cycles:
            # the previous cycle ended with res >= tol, so r0 != 0 whenever tol > 0.  With tol = 0 and an exact iterate the code divides by beta = 0 - nan
            # propagation is outside the model, assumption A1.)
            Amat, bmat = fr.vars["A0"].mat, fr.vars["b_0"].mat
            c.assume(SReal.lift(ncm.fro2(bmat.p - Amat.p @ X0.p)) > 0)
            # the allocations of one cycle, in program order: V0..V3 (N x m), H0..H3 (m+1 x m); the x0 work arrays before the loop are Zero
            c.ghost["alloc_roles"] = {c.ghost.get("alloc_count", 0) + i: ("V", i) for i in range(4)}
            c.ghost["alloc_roles"].update({c.ghost.get("alloc_count", 0) + 4 + i: ("H", i) for i in range(4)})

    def after_the_loop(*a, **k):
        raise PathAbort("after the Arnoldi loop (here: left through the breakdown exit): the least-squares step is core.least_squares")

    lib = Library("nc")
    lib.qmode = "H"
    lib.alloc_hooks.append(alloc)
    lib.np.table["column_stack"] = after_the_loop
    contracts = {UQ + "normQsparse": k_norm, UQ + "timesQsparse": k_times}

    def setup(I, ctx):
        (n,) = dims(ctx, "n")
        A, b = fresh_hmat("A", n, n), fresh_hmat("b", n, 1)
        tol, K = SReal.var("tol"), SInt.var("maxit")
        slf = mk_self(I, "QGMRESSolver", tol=tol, max_iter=None, verbose=False, preconditioner="none")
        return [slf] + [QComp(A, i) for i in range(4)] + [QComp(b, i) for i in range(4)] + [tol, K], {}, None

    def post(I, ctx, outcome, val, aux):
        return list(ctx.ghost.get("emit", []))
    cl = ["first_column.unit_norm", "new_column.unit_norm", "new_column.orthogonal_to_every_earlier_column", "inner.preserve.work_vector_orthogonal_to_columns_up_to_i",
          "last_vector.unit_norm", "last_vector.orthogonal_to_every_earlier_column"]
    run_case(rep, P, QN, "arnoldi_orthonormal", setup, post, lib=lib, contracts=contracts, loop_rules={(QN, 0): Cycle(), (QN, 1): Outer(), (QN, 2): Inner()},
             clauses=cl, replay=replay_solve, timeout_s=30, max_paths=600, loop_end=True)


# ----------------------------------------------------------------------------------------------------
# index-level invariant of the modified Gram-Schmidt Arnoldi loop:  A V_m = V_{m+1} H   (column by column, all N, m)
def arnoldi_relation(rep: Report):
    """Ghost functions (a definitional extension; every (i, j) / (n, i) is written exactly once by the code):
         VF(n, i)  entry n of the basis vector i      HF(i, j)  entry (i, j) of the Hessenberg matrix
         AVF(j, n) entry n of  A * VF(:, j)           SG(j, i, n) = sum_{i' < i} VF(n, i') HF(i', j)   (unfolding axiom)
       inner loop (i):   v(n) == AVF(j, n) - SG(j, i, n),  H[i', j] == HF(i', j) for i' < i,  V untouched
       outer loop (j):   V[:, i] == VF(:, i) for i <= j (zero elsewhere), H[:, j'] == HF(:, j') for j' < j (zero elsewhere)
       per column j:     AVF(j, n) == SG(j, j + 2, n),  i.e.  A v_j = sum_{i <= j+1} v_i h_ij   (also for the last column of the
                         cycle, whose new vector stays in v_0..v_3)
     Orthonormality of V and the values of H (inner products, norms) are numerics: not claimed here."""
    from .. import idx as ix
    from ..interp import LoopRule
    from ..rules import _set_whole
    from ..sym import PathAbort
    UQ = "quatica/utils.py::"
    QN = G + "_GMRESQsparse"

    def F(name, *sorts):
        return [z3.Function(f"{name}{c}", *sorts, z3.RealSort()) for c in range(4)]
    I_ = z3.IntSort()
    VF, HF, AVF, SG = F("VF", I_, I_), F("HF", I_, I_), F("AVF", I_, I_), F("SG", I_, I_, I_)
    zi = SInt.lift

    def q(fs, *a):
        return ix.QScal(*[SReal.mk(f(*[zi(x) for x in a])) for f in fs])

    def comps(fr, base, idx):           # quaternion at idx from four component arrays base0..base3
        return ix.QScal(*[fr.vars[f"{base}{c}"].at(*idx) for c in range(4)])

    class Cycles(LoopRule):
        """for m in range(1, N+1): only a generic cycle is entered (arbitrary restart iterate); nothing is claimed across cycles."""
        modifies = ("x0_0", "x0_1", "x0_2", "x0_3", "resv")

        def havoc(self, it, fr, k):
            if cur().ghost.get("_havoc_kind") == "exhausted":
                raise PathAbort("cycles after the loop: not part of this obligation")
            N = fr.vars["N"]
            for c in range(4):
                fr.vars[f"x0_{c}"] = ix.input_array(f"x0{c}", [N, 1])
            fr.vars["resv"] = SymList(SInt.var("nhist"), "resv")

    class Columns(LoopRule):
        modifies = ("V0", "V1", "V2", "V3", "H0", "H1", "H2", "H3", "m", "breakdown")      # m / breakdown change only on the exit path

        def closedV(self, fr, j):
            return [(lambda vi, c=c: ix.ite(vi[1] <= j, SReal.mk(VF[c](zi(vi[0]), zi(vi[1]))), Fraction(0))) for c in range(4)]

        def closedH(self, fr, j):
            return [(lambda vi, c=c: ix.ite(sand(vi[1] < j, vi[0] <= vi[1] + 1), SReal.mk(HF[c](zi(vi[0]), zi(vi[1]))), Fraction(0))) for c in range(4)]

        def check(self, fr, j, phase):
            c = cur()
            for cc in range(4):
                cond, _ = ix.pointwise_eq(c, fr.vars[f"V{cc}"], self.closedV(fr, j)[cc])
                c.require(f"inv.{phase}", cond, "basis columns <= j hold VF, later ones are still zero", key=f"arnoldi.columns.inv.{phase}.V{cc}")
                cond, _ = ix.pointwise_eq(c, fr.vars[f"H{cc}"], self.closedH(fr, j)[cc])
                c.require(f"inv.{phase}", cond, "Hessenberg columns < j hold HF (rows <= j'+1), everything else is zero", key=f"arnoldi.columns.inv.{phase}.H{cc}")

        def establish(self, it, fr, start):
            c = cur()
            # naming: column 0 of V is the normalised residual; call it VF(:, 0)
            n0 = ix.fresh_indices(c, [fr.vars["N"]], "e")[0]
            for cc in range(4):
                c.assume(SBool.mk(VF[cc](zi(n0), zi(0)) == SReal.lift(fr.vars[f"V{cc}"].at(n0, 0))))
            c.ghost["establish_n0"] = n0
            # the check below picks its own indices; the naming is per entry, so instantiate it through a closed form instead
            for cc in range(4):
                V = fr.vars[f"V{cc}"]
                snap = V._snapshot()
                cond, idx = ix.pointwise_eq(c, V, lambda vi, cc=cc, snap=snap: ix.ite(vi[1] <= 0, snap((vi[0], 0)), Fraction(0)))
                c.require("inv.establish", cond, "only column 0 of the basis is set at entry", key=f"arnoldi.columns.inv.establish.V{cc}")
                cond, _ = ix.pointwise_eq(c, fr.vars[f"H{cc}"], lambda vi: Fraction(0))
                c.require("inv.establish", cond, "H is zero at entry", key=f"arnoldi.columns.inv.establish.H{cc}")

        def havoc(self, it, fr, j):
            if cur().ghost.get("_havoc_kind") == "exhausted":
                raise PathAbort("after the Arnoldi loop: not part of this obligation")
            for cc in range(4):
                _set_whole(fr.vars[f"V{cc}"], self.closedV(fr, j)[cc])
                _set_whole(fr.vars[f"H{cc}"], self.closedH(fr, j)[cc])
            cur().ghost["col_j"] = j

        def preserve(self, it, fr, j):
            c = cur()
            g = c.ghost
            m, N = fr.vars["m"], fr.vars["N"]
            nu = fr.vars["H0"].at(j + 1, j)
            n1 = ix.fresh_indices(c, [N], "r")[0]
            # naming of the new basis vector: VF(n, j+1) is what the code stores (column j+1 of V, or v_0..v_3 for the last column)
            last = c.decide(SBool.mk(zi(j) == zi(m - 1)))
            for cc in range(4):
                newv = fr.vars[f"v_{cc}"].at(n1, 0) if last else fr.vars[f"V{cc}"].at(n1, j + 1)
                c.assume(SBool.mk(VF[cc](zi(n1), zi(j + 1)) == SReal.lift(newv)))
                c.assume(SBool.mk(HF[cc](zi(j + 1), zi(j)) == SReal.lift(fr.vars[f"H{cc}"].at(j + 1, j))))
            # unfolding of the ghost sum at the sub-diagonal term
            c.assume(ix.scal_eq(q(SG, j, j + 2, n1), q(SG, j, j + 1, n1) + q(VF, n1, j + 1) * q(HF, j + 1, j)))
            pre = g["v_after_inner"]          # v(n) right after the orthogonalisation loop, as a function of n
            c.require("step", ix.scal_eq(q(VF, n1, j + 1) * q(HF, j + 1, j), pre(n1)), "the new basis vector times its norm is the orthogonalised vector", key="arnoldi.step.normalisation")
            c.require("step", ix.scal_eq(q(AVF, j, n1), q(SG, j, j + 2, n1)), "Arnoldi relation for column j:  A v_j = sum_{i <= j+1} v_i h_ij", key="arnoldi.step.relation")
            if not last:
                # frame + naming instantiated pointwise: compare with the closed form at j+1, except column j+1 / H column j which are named now
                for cc in range(4):
                    V, H = fr.vars[f"V{cc}"], fr.vars[f"H{cc}"]
                    sv, sh = V._snapshot(), H._snapshot()
                    cond, _ = ix.pointwise_eq(c, V, lambda vi, cc=cc, sv=sv: ix.ite(SBool.mk(zi(vi[1]) == zi(j + 1)), sv(tuple(vi)), self.closedV(fr, j)[cc](vi)))
                    c.require("inv.preserve", cond, "no basis column other than j+1 is written", key=f"arnoldi.columns.inv.preserve.frame.V{cc}")
                    cond, _ = ix.pointwise_eq(c, H, lambda vi, cc=cc, sh=sh: ix.ite(SBool.mk(zi(vi[1]) == zi(j)), ix.ite(vi[0] <= j + 1, sh(tuple(vi)), Fraction(0)), self.closedH(fr, j)[cc](vi)))
                    c.require("inv.preserve", cond, "only column j of H is written, rows <= j+1", key=f"arnoldi.columns.inv.preserve.frame.H{cc}")

    class Gram(LoopRule):
        modifies = ("v_0", "v_1", "v_2", "v_3", "H0", "H1", "H2", "H3")

        def closed_v(self, fr, i):
            j = fr.vars["j"]
            return lambda n: q(AVF, j, n) - (ix.QScal(Fraction(0)) if (isinstance(i, int) and i == 0) else ix.ite(SBool.mk(zi(i) == zi(0)), ix.QScal(Fraction(0)), q(SG, j, i, n)))

        def closedH(self, fr, i):
            j = fr.vars["j"]
            base = Columns().closedH(fr, j)
            return [(lambda vi, c=c: ix.ite(sand(SBool.mk(zi(vi[1]) == zi(j)), vi[0] < i), SReal.mk(HF[c](zi(vi[0]), zi(vi[1]))), base[c](vi))) for c in range(4)]

        def check(self, fr, i, phase):
            c = cur()
            N = fr.vars["N"]
            n2 = ix.fresh_indices(c, [N], "g")[0]
            have = comps(fr, "v_", (n2, 0))
            c.require(f"inv.{phase}", ix.scal_eq(have, self.closed_v(fr, i)(n2)), "v = A v_j - sum_{i' < i} v_i' h_i'j", key=f"arnoldi.gram.inv.{phase}.v")
            for cc in range(4):
                cond, _ = ix.pointwise_eq(c, fr.vars[f"H{cc}"], self.closedH(fr, i)[cc])
                c.require(f"inv.{phase}", cond, "rows < i of column j of H hold HF; the rest of H is unchanged", key=f"arnoldi.gram.inv.{phase}.H{cc}")

        def establish(self, it, fr, start):
            self.check(fr, start, "establish")

        def havoc(self, it, fr, i):
            c = cur()
            N = fr.vars["N"]
            cv = self.closed_v(fr, i)
            for cc in range(4):
                fr.vars[f"v_{cc}"] = ix.IArr.from_fn([N, 1], lambda vi, cc=cc: cv(vi[0]).c[cc])
                _set_whole(fr.vars[f"H{cc}"], self.closedH(fr, i)[cc])
            if c.ghost.get("_havoc_kind") == "exhausted":
                c.ghost["v_after_inner"] = cv

        def preserve(self, it, fr, i):
            c = cur()
            j, N = fr.vars["j"], fr.vars["N"]
            # naming of the coefficient just stored, and unfolding of the ghost sum at (j, i)
            for cc in range(4):
                c.assume(SBool.mk(HF[cc](zi(i), zi(j)) == SReal.lift(fr.vars[f"H{cc}"].at(i, j))))
            n3 = ix.fresh_indices(c, [N], "u")[0]
            prev = ix.ite(SBool.mk(zi(i) == zi(0)), ix.QScal(Fraction(0)), q(SG, j, i, n3))
            c.assume(ix.scal_eq(q(SG, j, i + 1, n3), prev + q(VF, n3, i) * q(HF, i, j)))
            have = comps(fr, "v_", (n3, 0))
            c.require("inv.preserve", ix.scal_eq(have, q(AVF, j, n3) - q(SG, j, i + 1, n3)), "v = A v_j - sum_{i' <= i} v_i' h_i'j after the projection is subtracted", key="arnoldi.gram.inv.preserve.v")
            for cc in range(4):
                cond, _ = ix.pointwise_eq(c, fr.vars[f"H{cc}"], self.closedH(fr, i + 1)[cc])
                c.require("inv.preserve", cond, "only H[i, j] is written", key=f"arnoldi.gram.inv.preserve.H{cc}")

    # kernel contracts at index level for the three call patterns of the loop (C01 proves the kernel against the Hamilton spec)
    def k_times_idx(I, args, kwargs):
        B, C = args[:4], args[4:8]
        c = cur()
        g = c.ghost
        if all(isinstance(x, ix.IArr) for x in B + C):
            rB, cB = B[0].vshape
            rC, cC = C[0].vshape
            inner_is_one = isinstance(cB, int) and cB == 1
            if inner_is_one:
                raise OutOfReach("outer-product call pattern not expected here")
            j = g.get("col_j")
            is_col = j is not None and isinstance(cC, int) and cC == 1 and c.valid(SBool.mk(zi(rB) == zi(cB))) is True and "in_column_body" not in g
            if is_col:
                # A * V[:, j]: name the result AVF(j, .) after checking that the argument is column j of the basis (= VF(:, j))
                n4 = ix.fresh_indices(c, [rC], "a")[0]
                ok = sand(*[SBool.mk(SReal.lift(C[cc].at(n4, 0)) == VF[cc](zi(n4), zi(j))) for cc in range(4)])
                c.require("contract.pre", ok, "the kernel is applied to column j of the basis", key="arnoldi.kernel.A_times_column_j")
                g["in_column_body"] = True
                return tuple(ix.IArr.from_fn([rB, 1], lambda vi, cc=cc: SReal.mk(AVF[cc](zi(j), zi(vi[0])))) for cc in range(4))
            if isinstance(rB, int) and rB == 1 and isinstance(cC, int) and cC == 1:
                # inner product <v_i, v>: some quaternion (its value is numerics)
                tag = c.fresh_name("ip")
                return tuple(ix.IArr.from_fn([1, 1], lambda vi, cc=cc: SReal.var(f"{tag}.{cc}")) for cc in range(4))
            # A * x0 (restart residual) and anything of the same shape pattern: arbitrary result of the right shape
            tag = c.fresh_name("prod")
            fs = [z3.Function(f"{tag}.{cc}", I_, I_, z3.RealSort()) for cc in range(4)]
            return tuple(ix.IArr.from_fn([rB, cC], lambda vi, cc=cc: SReal.mk(fs[cc](zi(vi[0]), zi(vi[1])))) for cc in range(4))
        if all(isinstance(x, ix.IArr) for x in B) and all(is_real(x) for x in C):
            # column times a quaternion scalar from the right: entrywise Hamilton product (C01: scalar path of the kernel)
            h = ix.QScal(*C)
            snaps = [b._snapshot() for b in B]
            return tuple(ix.IArr.from_fn(list(B[0].vshape), lambda vi, cc=cc: (ix.QScal(*[s_(tuple(vi)) for s_ in snaps]) * h).c[cc]) for cc in range(4))
        raise PathAbort("kernel call pattern beyond the Arnoldi loop")

    def is_real(x):
        from ..sym import is_reallike
        return is_reallike(x)

    def k_norm_idx(I, args, kwargs):
        c = cur()
        from ..term import NPFloat
        nu = NPFloat(z3.Real(c.fresh_name("nrm")))      # numpy float64: dividing by it never raises
        c.assume(nu >= 0)
        return nu

    def abort(*a, **k):
        raise PathAbort("beyond the Arnoldi loop")

    def setup(I, ctx):
        (n,) = dims(ctx, "n")
        A = [ix.input_array(f"A{c}", [n, n]) for c in range(4)]
        b = [ix.input_array(f"b{c}", [n, 1]) for c in range(4)]
        tol, K = SReal.var("tol"), SInt.var("maxit")
        slf = mk_self(I, "QGMRESSolver", tol=tol, max_iter=None, verbose=False, preconditioner="none")
        return [slf] + A + b + [tol, K], {}, None

    def post(I, ctx, outcome, val, aux):
        return []
    lib = Library("idx")
    for nm in ("column_stack", "vstack"):
        lib.np.table[nm] = abort
    contracts = {UQ + "timesQsparse": k_times_idx, UQ + "normQsparse": k_norm_idx, UQ + "Hess_QR_ggivens": abort, UQ + "A2A0123": abort, UQ + "UtriangleQsparse": abort}
    n_before = len(rep.obligations)
    run_case(rep, P, QN, "arnoldi", setup, post, lib=lib, contracts=contracts,
             loop_rules={(QN, 0): Cycles(), (QN, 1): Columns(), (QN, 2): Gram()}, clauses=[], replay=replay_solve, timeout_s=60, max_paths=1500)
    got = {o.id for o in rep.obligations[n_before:]}
    for need in ("arnoldi.step.relation", "arnoldi.step.normalisation", "arnoldi.gram.inv.preserve.v"):
        if not any(need in i for i in got):
            rep.add(Obligation(f"{P}._GMRESQsparse.arnoldi.{need}.reached", QN, "all-shapes", smt.UNDECIDED, "none", 0.0, {"reason": "obligation was not generated (vacuity guard)"}))


# ----------------------------------------------------------------------------------------------------
# bounded stand-in on the real code
def matrix_class(rng, kind, n):
    from .. import runtime as rt
    if kind == "generic":
        return rng.standard_normal((n, n, 4)) + 2.0 * rt.eye4(n)
    if kind == "hermitian":
        B = rng.standard_normal((n, n, 4))
        return 0.5 * (B + rt.qH(B)) + (n + 1.0) * rt.eye4(n)
    if kind == "unitary":
        return rt.gram_schmidt_unitary(rng, n)
    if kind == "scaled_identity":
        return 2.5 * rt.eye4(n)
    if kind == "identity":
        return rt.eye4(n)
    if kind == "identity_low_rank":
        u, v = rng.standard_normal((n, 1, 4)), rng.standard_normal((n, 1, 4))
        return rt.eye4(n) + 0.3 * rt.qmm(u, rt.qH(v))
    if kind == "triangular":
        B = rng.standard_normal((n, n, 4))
        for i in range(n):
            B[i, :i] = 0.0
            B[i, i] = [2.0 + i, 0.3, -0.2, 0.1]
        return B
    if kind == "diag_repeated":
        D = np.zeros((n, n, 4))
        for i in range(n):
            D[i, i, 0] = 2.0 if i % 2 == 0 else -3.0
        return D
    if kind == "quat_diag":
        D = np.zeros((n, n, 4))
        for i in range(n):
            q = rng.standard_normal(4)
            D[i, i] = (1.0 + i % 2) * q / np.linalg.norm(q)
        return D
    raise ValueError(kind)


def true_solution(A4, b4):
    from .. import runtime as rt
    n = A4.shape[0]
    M = rt.complex_adjoint_rect(A4)
    B = rt.complex_adjoint_rect(b4)
    X = np.linalg.solve(M, B)
    C, D = X[:n, :1], X[:n, 1:2]
    return np.stack([C.real, C.imag, D.real, D.imag], axis=-1)


def check_solve(A4, b4, tol, cap, prec, sparse, expect_solved=True):
    """Run the real solver; returns a failure dict or None."""
    from .. import runtime as rt
    sv = rt.real().solver
    n = A4.shape[0]
    A = rt.sparse_from4(A4) if sparse else rt.q_from4(A4)
    bq = rt.q_from4(b4)
    s = sv.QGMRESSolver(tol=tol, max_iter=cap, preconditioner=prec)
    x, info = s.solve(A, bq)
    x4 = rt.q_to4(x).reshape(n, 1, 4)
    if not np.all(np.isfinite(x4)):
        return {"what": "non-finite solution"}
    nb = rt.fro(b4)
    true = rt.fro(rt.qmm(A4, x4) - b4) / nb if nb > 0 else rt.fro(rt.qmm(A4, x4))
    rep_res = float(info["residual"])
    # the residual itself is only defined up to the rounding of the product A x:  eps ||A|| ||x|| / ||b||
    slack = 100 * np.finfo(float).eps * rt.fro(A4) * rt.fro(x4) / nb if nb > 0 else 0.0
    if nb > 0 and not abs(rep_res - true) <= 1e-6 * true + slack + 1e-15:
        return {"what": "info.residual is not ||Ax-b||/||b|| of the returned x", "reported": rep_res, "true": true}
    if nb == 0:
        if rt.fro(x4) != 0.0:
            return {"what": "b = 0 but x != 0", "normx": rt.fro(x4)}
        return None
    if info["converged"] and not true <= 10 * tol + slack + 1e-13:
        return {"what": "converged=True but the true residual is not small", "true": true, "tol": tol}
    hist = info["residual_history"]
    ress = [float(h[2]) for h in hist]
    for a, b in (zip(ress, ress[1:]) if expect_solved else ()):     # monotonicity is claimed for nonsingular systems
        if not (b <= a * (1 + 1e-8) + 1e-14):
            return {"what": "residual history increases", "pair": [a, b]}
    if info["iterations"] != len(hist):
        return {"what": "iterations != len(history)", "iterations": info["iterations"], "len": len(hist)}
    if cap is not None and info["iterations"] > max(cap, 0) + 1:
        return {"what": "iteration cap exceeded", "iterations": info["iterations"], "cap": cap}
    if expect_solved and (cap is None or cap >= n):
        if not true <= max(tol, 1e-9) * 10:
            return {"what": "not solved to the tolerance after n cycles", "true": true, "tol": tol, "iterations": info["iterations"]}
    return None


def check_cycle_optimality(A4, b4):
    """Iterate of cycle m (cap = m - 1 ... the solver stops after cycle cap+1) minimises ||b - A x|| over x0 + K_m(A, r0)."""
    from .. import runtime as rt
    sv = rt.real().solver
    n = A4.shape[0]
    M = rt.complex_adjoint_rect(A4)
    Bc = rt.complex_adjoint_rect(b4)[:, :1]
    prev = np.zeros((2 * n, 1), dtype=complex)
    for cap in range(0, n):
        s = sv.QGMRESSolver(tol=1e-300, max_iter=cap)
        x, info = s.solve(rt.q_from4(A4), rt.q_from4(b4))
        m = info["iterations"]
        x4 = rt.q_to4(x).reshape(n, 1, 4)
        xc = rt.complex_adjoint_rect(x4)[:, :1]
        r0 = Bc - M @ prev
        # quaternion Krylov space K_m(A, r0) = span over H of {r0, A r0, ...}: in the complex adjoint picture span of [v, J conj(v)] pairs
        cols = []
        v = r0
        J = np.block([[np.zeros((n, n)), np.eye(n)], [-np.eye(n), np.zeros((n, n))]])
        for _ in range(m):
            cols += [v, J @ np.conj(v)]
            v = M @ v
        K = np.hstack(cols)
        y, *_ = np.linalg.lstsq(M @ K, r0, rcond=None)
        best = np.linalg.norm(r0 - M @ K @ y)
        got = np.linalg.norm(Bc - M @ xc)
        if not (got <= best * (1 + 1e-6) + 1e-10 * np.linalg.norm(Bc)):
            return {"what": "cycle iterate does not minimise the residual over its Krylov space", "cycle": m, "residual": got, "optimum": best}
        prev = xc
        if got <= 1e-12 * np.linalg.norm(Bc):
            break
    return None


def replay_solve(seed):
    rng = np.random.default_rng(seed)
    for kind, n in (("generic", 4), ("identity", 3), ("hermitian", 5), ("diag_repeated", 4)):
        A4 = matrix_class(rng, kind, n)
        b4 = rng.standard_normal((n, 1, 4))
        for prec in ("none", "left_lu"):
            try:
                res = check_solve(A4, b4, 1e-8, None, prec, False)
            except Exception as e:
                res = {"exception": f"{type(e).__name__}: {e}"}
            if res:
                res.update({"failed": True, "A": A4, "b": b4, "class": kind, "preconditioner": prec})
                return res
    return {"failed": False}


def bounded(rep: Report, tier, seed):
    from .. import runtime as rt
    rng = np.random.default_rng(seed)
    quick = tier == "quick"
    N = 5 if quick else 7
    kinds = ["generic", "hermitian", "unitary", "scaled_identity", "identity", "identity_low_rank", "triangular", "diag_repeated", "quat_diag"]
    b = rep.add_bounded(Bounded("systems", f"n = 1..{N}; classes {kinds}; rhs random / eigenvector-like / unit vector / zero; tol 1e-2..1e-12; caps None, 0..n; none/left_lu; dense/sparse",
                                "info.residual true; converged => small true residual; history non-increasing; solved after n cycles; b=0 -> x=0; lengths"))
    for n in range(1, N + 1):
        for kind in kinds:
            A4 = matrix_class(rng, kind, n)
            rhs = {"random": rng.standard_normal((n, 1, 4)), "unit": np.eye(n)[:, :1, None] * np.array([1.0, 0, 0, 0]), "zero": np.zeros((n, 1, 4))}
            if kind in ("hermitian", "diag_repeated", "scaled_identity", "identity"):
                w, V = np.linalg.eigh(rt.complex_adjoint_rect(A4))
                v = V[:, -1:]
                rhs["eigenvector"] = np.stack([v[:n].real, v[:n].imag, -v[n:].real, v[n:].imag], axis=-1)
            for rname, b4 in rhs.items():
                tols = (1e-2, 1e-6, 1e-10, 1e-12) if not quick else ((1e-6, 1e-12) if rname == "random" else (1e-8,))
                caps = [None] + list(range(0, n + 1)) if (not quick or rname == "random") else [None, 1]
                for tol, cap, prec, sparse in itertools.product(tols, caps, ("none", "left_lu"), (False, True)):
                    if quick and sparse and (prec == "left_lu" or cap not in (None, 1)):
                        continue
                    if quick and prec == "left_lu" and cap not in (None, 0, n):
                        continue
                    if prec == "left_lu" and sparse:
                        continue     # the LU preconditioner takes dense input
                    b.case(f"{P}.bounded.solve", (n, kind, rname, tol, cap, prec, sparse),
                           lambda A4=A4, b4=b4, tol=tol, cap=cap, prec=prec, sparse=sparse: check_solve(A4, b4, tol, cap, prec, sparse),
                           f"Q-GMRES n={n} {kind} rhs={rname} tol={tol} cap={cap} prec={prec} sparse={sparse}",
                           facts={"n": n, "class": kind, "rhs": rname, "tol": tol, "cap": cap, "prec": prec, "sparse": sparse}, inputs={"A": A4, "b": b4, "tol": tol, "cap": cap, "preconditioner": prec, "sparse": sparse})
    b.samples.append({"n": 3, "class": "identity", "rhs": "random", "expect": "lucky breakdown in cycle 1, x = b"})
    b.done()

    b2 = rep.add_bounded(Bounded("scaling_and_preconditioning", f"n = 2..{N}; c in 1e-6, 1e-3, 1, 1e3, 1e6; classes generic / hermitian / triangular / identity_low_rank",
                                 "x(cA, cb) = x(A, b) and x(left_lu) = x(none) = the true solution, to 1e-6 relative (tol 1e-12)"))
    for n in range(2, N + 1):
        for kind in ("generic", "hermitian", "triangular", "identity_low_rank", "graded_1e3"):
            # graded_1e3: singular values 1 .. 1e-3, so that after scaling by 1e-6 the small triangular factor has diagonal entries
            # down to 1e-9 (still far above the 1e-14 zero-pivot threshold of the back substitution)
            A4 = rt.from_svd(rng, n, n, list(np.geomspace(1.0, 1e-3, n)))[0] if kind == "graded_1e3" else matrix_class(rng, kind, n)
            b4 = rng.standard_normal((n, 1, 4))
            xt = true_solution(A4, b4)

            def f(A4=A4, b4=b4, xt=xt, n=n):
                sv = rt.real().solver
                for c in (1e-6, 1e-3, 1.0, 1e3, 1e6):
                    for prec in ("none", "left_lu"):
                        x, info = sv.QGMRESSolver(tol=1e-12, preconditioner=prec).solve(rt.q_from4(c * A4), rt.q_from4(c * b4))
                        x4 = rt.q_to4(x).reshape(n, 1, 4)
                        err = rt.fro(x4 - xt) / rt.fro(xt)
                        if not err <= 1e-6:
                            return {"what": "solution depends on scaling / preconditioning", "scale": c, "preconditioner": prec, "relative_error": err}
                return None
            b2.case(f"{P}.bounded.scaling", (n, kind), f, f"scaling / preconditioner independence n={n} {kind}", inputs={"A": A4, "b": b4})
            # loose tolerances on down-/up-scaled systems: the stopping rule is relative, so flag soundness and truthfulness
            # must not depend on the scale (||cb|| may be far below tol)
            for c_, tol_ in ((1e-6, 1e-2), (1e-6, 1e-5), (1e-3, 1e-2), (1e6, 1e-2)):
                b2.case(f"{P}.bounded.scaled_loose_tol", (n, kind, c_, tol_), lambda A4=A4, b4=b4, c_=c_, tol_=tol_: check_solve(c_ * A4, c_ * b4, tol_, None, "none", False),
                        f"n={n} {kind} scaled by {c_:g}, tol {tol_:g}", inputs={"A": c_ * A4, "b": c_ * b4, "tol": tol_})
    b2.samples.append({"n": 4, "class": "generic", "scales": [1e-6, 1e6]})
    b2.done()

    b3 = rep.add_bounded(Bounded("cycle_optimality", f"n = 2..{min(N, 5)}; generic / hermitian / triangular; every cap 0..n-1", "the iterate of every cycle minimises ||b - A x|| over x_prev + K_m(A, r_prev) (least-squares oracle on the complex adjoint)"))
    for n in range(2, min(N, 5) + 1):
        for kind in ("generic", "hermitian", "triangular", "quat_diag"):
            A4 = matrix_class(rng, kind, n)
            b4 = rng.standard_normal((n, 1, 4))
            b3.case(f"{P}.bounded.cycle_optimality", (n, kind), lambda A4=A4, b4=b4: check_cycle_optimality(A4, b4), f"per-cycle optimality n={n} {kind}", inputs={"A": A4, "b": b4})
    b3.samples.append({"n": 4, "class": "generic"})
    b3.done()

    b4_ = rep.add_bounded(Bounded("fault_paths", "zero pivot in the LU preconditioner (singular leading block), zero diagonal in the small triangular solve (singular A), breakdown at every Arnoldi step (block diagonal with k distinct eigenvalues)",
                                  "no exception escapes for nonsingular A; silent fallback still solves; singular A never reports converged with a large residual"))
    for n in range(2, N + 1):
        # zero leading pivot but nonsingular (needs pivoting), and exactly singular leading block handled by fallback
        A4 = matrix_class(rng, "generic", n)
        A4[0, 0] = 0.0
        bq = rng.standard_normal((n, 1, 4))
        b4_.case(f"{P}.bounded.fault.zero_pivot", (n, "pivot"), lambda A4=A4, bq=bq: check_solve(A4, bq, 1e-8, None, "left_lu", False), f"zero (1,1) entry, left_lu n={n}", inputs={"A": A4, "b": bq})
        for k in range(1, n + 1):
            D = np.zeros((n, n, 4))
            for i in range(n):
                D[i, i, 0] = 1.0 + (i % k)
            U = rt.gram_schmidt_unitary(rng, n)
            Ak = rt.qmm(rt.qmm(U, D), rt.qH(U))
            b4_.case(f"{P}.bounded.fault.breakdown", (n, k), lambda Ak=Ak, bq=bq: check_solve(Ak, bq, 1e-10, None, "none", False), f"{k} distinct eigenvalues n={n} (Krylov space invariant after {k} steps)", inputs={"A": Ak, "b": bq})
        Sg = matrix_class(rng, "generic", n)
        Sg[:, -1] = Sg[:, 0]
        b4_.case(f"{P}.bounded.fault.singular", (n, "singular"), lambda Sg=Sg, bq=bq: check_solve(Sg, bq, 1e-8, None, "none", False, expect_solved=False), f"singular A n={n}: flag soundness only", inputs={"A": Sg, "b": bq})
        # ill-conditioned systems: the preconditioned and the true residual differ by orders of magnitude there, so a
        # residual / flag formed against the preconditioned system is told apart from the truthful one
        for cond in (1e8, 1e11, 1e13):
            sv_ = list(np.geomspace(1.0, 1.0 / cond, n)) if n > 1 else [1.0]
            Ai = rt.from_svd(rng, n, n, sv_)[0]
            for prec in ("none", "left_lu"):
                b4_.case(f"{P}.bounded.fault.ill_conditioned", (n, cond, prec), lambda Ai=Ai, bq=bq, prec=prec: check_solve(Ai, bq, 1e-10, None, prec, False, expect_solved=False),
                         f"cond {cond:g} n={n} {prec}: truthfulness of residual and flag only", inputs={"A": Ai, "b": bq, "preconditioner": prec})
    b4_.samples.append({"n": 4, "k": 2})
    b4_.done()


def run(tier, seed):
    rep = Report(P, tier, seed, "exploration")
    rep.assumptions += [
        "kernels (quat_matmat, quat_frobenius_norm, timesQsparse, normQsparse) by contract (C01)",
        "Arnoldi / Givens / triangular-solve numerics (minimal residual, breakdown detection by the rounding test abs(h)+||A|| == ||A||) are outside contract reach: bounded only",
        "floats as reals (A1)",
    ]
    rep.trusted += ["qv engine", "z3 5.1", "library model"]
    deductive(rep, tier)
    bounded(rep, tier, seed)
    return rep


def replay(path):
    import json
    with open(path) as f:
        d = json.load(f)
    print(json.dumps({k: d[k] for k in ("property", "obligation", "text")}, indent=1))
    return run("quick", d.get("seed", 0)).finish()
