"""C11 - rank, null spaces and determinants agree with the singular / eigen structure.

Deductive part (index-level; classical_qsvd_full and quaternion_eigenvalues by contract):
  rank.count        rank = #{ i : s_i > tol } with tol = eps * max(m,n) * max(s) (or the given tol);
  null.select       the right (left) null space is the last n - r (m - r) columns of V (U) with
                    r = #{ i : s_i > rtol * s_0 }; shapes; empty case; invalid side raises;
  wrappers          quat_null_right / quat_null_left / quat_kernel call the general routine with the same arguments;
  det               Dieudonne = prod(s), Moore = prod(eigenvalues) guarded by ishermitian, Study raises
                    NotImplementedError, non-square / unknown type raise;
  ishermitian       True iff |A_ij - conj(A_ji)| <= tol * max|A| for all i, j (zero matrix: True); non-square raises.
Rank-nullity, rank(A^H) = rank(A), multiplicativity of det follow from the Q-SVD contract (C05, A5); the
bounded stand-in checks them on the real code for all ranks 0..min(m,n)."""
from __future__ import annotations

import itertools
from fractions import Fraction

import numpy as np
import z3

from .. import idx as ix
from .. import smt
from ..core import Bounded, Obligation, Report, run_case
from ..libmodel import Library
from ..sym import SInt, SReal, SBool, cur, sand, snot, sor, smin, smax
from .c01 import dims

P = "C11"
U = "quatica/utils.py::"
QF = "quatica/decomp/qsvd.py::classical_qsvd_full"
EV = "quatica/decomp/eigen.py::quaternion_eigenvalues"


def k_qsvd_full(I, args, kwargs):
    (A,) = args
    m, n = A.shape
    r = smin(m, n)
    s = ix.input_array("sv", [r])
    s.sorted_desc = True
    Uq, Vq = ix.input_array("Uq", [m, m], quat=True), ix.input_array("Vq", [n, n], quat=True)
    cur().ghost["qsvd"] = (A, Uq, s, Vq)
    return Uq, s, Vq


def count_matches(ctx, n_var, pred):
    """The count ghost whose integer is n_var has the predicate pred (pointwise equivalence at a skolem index)."""
    for n, snap, shape in ctx.ghost.get("counts", []):
        if isinstance(n_var, SInt) and n.z.eq(n_var.z):
            idx = ix.fresh_indices(ctx, shape, "c")
            a, b = snap(idx), pred(idx)
            return sand(sor(snot(a), b), sor(a, snot(b)))
    return False


def deductive(rep: Report, tier):
    lib = lambda: Library("idx")
    contracts = {QF: k_qsvd_full}
    eps = Fraction(2) ** -52

    # ------------------------------------------------------------------ rank
    for case, tolv in (("default_tolerance", None), ("given_tolerance", "sym")):
        def setup(I, ctx, tolv=tolv):
            m, n = dims(ctx, "m", "n")
            X = ix.input_array("X", [m, n], quat=True)
            t = SReal.var("tol") if tolv else None
            return ([X, t] if tolv else [X]), {}, (X, m, n, t)

        def post(I, ctx, outcome, val, aux):
            X, m, n, t = aux
            g = ctx.ghost.get("qsvd")
            if outcome != "return" or g is None:
                return [("returns", False)]
            s = g[2]
            out = [("returns", True), ("svd_of_argument", g[0] is X)]
            if t is None:
                # max(s) = s[0] by the sortedness contract
                thr = eps * smax(m, n) * s.at(0)
                ix.instantiate_bounds(ctx, (0,))
            else:
                thr = t
            out.append(("counts_values_above_threshold", count_matches(ctx, val, lambda idx: s.at(*idx) > thr)))
            return out
        run_case(rep, P, U + "rank", case, setup, post, lib=lib(), contracts=contracts, clauses=["returns", "svd_of_argument", "counts_values_above_threshold"], replay=replay_rank)

    # ------------------------------------------------------------------ null space
    for side in ("right", "left"):
        def setup(I, ctx, side=side):
            m, n = dims(ctx, "m", "n")
            X = ix.input_array("X", [m, n], quat=True)
            rtol = SReal.var("rtol")
            ctx.assume(rtol >= 0, base=True)
            return [X], {"side": side, "rtol": rtol}, (X, m, n, rtol)

        def post(I, ctx, outcome, val, aux, side=side):
            X, m, n, rtol = aux
            g = ctx.ghost.get("qsvd")
            if outcome != "return" or g is None or not isinstance(val, ix.IArr):
                return [("returns", False)]
            _, Uq, s, Vq = g
            F, dim = (Vq, n) if side == "right" else (Uq, m)
            cnts = ctx.ghost.get("counts", [])
            if len(cnts) != 1:
                return [("returns", True), ("one_rank_count", False)]
            r = cnts[0][0]
            out = [("returns", True), ("one_rank_count", True),
                   ("rank_counts_values_above_rtol_s0", count_matches(ctx, r, lambda idx: s.at(*idx) > rtol * s.at(0))),
                   ("shape", sand(val.shape[0] == dim, val.shape[1] == dim - r)), ("quat_dtype", val.quat)]
            full = ctx.valid(r == dim)
            if full is True:
                out.append(("trailing_columns", True))
            else:
                (a, b) = ix.fresh_indices(ctx, [dim, dim - r], "z")
                out.append(("trailing_columns", val.at(a, b) == F.at(a, r + b)))
            return out
        run_case(rep, P, U + "quat_null_space", side, setup, post, lib=lib(), contracts=contracts,
                 clauses=["returns", "one_rank_count", "rank_counts_values_above_rtol_s0", "shape", "quat_dtype", "trailing_columns"], replay=replay_rank)

    def setup_bad(I, ctx):
        m, n = dims(ctx, "m", "n")
        return [ix.input_array("X", [m, n], quat=True)], {"side": "top"}, None
    run_case(rep, P, U + "quat_null_space", "guard_side", setup_bad,
             lambda I, ctx, outcome, val, aux: [("raises_ValueError", outcome == "raise" and val.exc_type == "ValueError")], lib=lib(), contracts=contracts,
             clauses=["raises_ValueError"])
    # wrappers
    tag = lambda I, args, kwargs: ("NS", args, kwargs)
    for fn, want_side in (("quat_null_right", "right"), ("quat_null_left", "left"), ("quat_kernel", None)):
        def setup_w(I, ctx, fn=fn):
            m, n = dims(ctx, "m", "n")
            X = ix.input_array("X", [m, n], quat=True)
            rt_ = SReal.var("rtol")
            kw = {"rtol": rt_}
            if fn == "quat_kernel":
                kw["side"] = "left"
            return [X], kw, (X, rt_)

        def post_w(I, ctx, outcome, val, aux, want_side=want_side):
            X, rt_ = aux
            ok = outcome == "return" and isinstance(val, tuple) and val[0] == "NS" and val[1][0] is X and val[2].get("rtol") is rt_ \
                and val[2].get("side") == (want_side or "left")
            return [("delegates_with_same_arguments", ok)]
        run_case(rep, P, U + fn, "", setup_w, post_w, lib=lib(), contracts={U + "quat_null_space": tag}, clauses=["delegates_with_same_arguments"], replay=replay_rank)

    # ------------------------------------------------------------------ determinants
    def setup_det(kind):
        def setup(I, ctx):
            (n,) = dims(ctx, "n")
            X = ix.input_array("X", [n, n], quat=True)
            return [X, kind], {}, (X, n)
        return setup

    def k_eigvals(I, args, kwargs):
        (A,) = args
        lam = ix.input_array("lam", [A.shape[0]])
        cur().ghost["eig"] = (A, lam)
        return lam

    def k_isherm(val):
        def k(I, args, kwargs):
            cur().ghost["isherm_arg"] = args[0]
            return val
        return k

    def post_prod(which):
        def post(I, ctx, outcome, val, aux):
            X, n = aux
            if outcome != "return":
                return [("returns", False)]
            prods = ctx.ghost.get("prods", [])
            src = ctx.ghost.get("qsvd", (None, None, None))[2] if which == "s" else ctx.ghost.get("eig", (None, None))[1]
            ok = len(prods) == 1 and isinstance(val, SReal) and prods[0][0].z.eq(val.z) and src is not None
            out = [("returns", True), ("is_one_product", ok)]
            if ok:
                (i,) = ix.fresh_indices(ctx, prods[0][2], "d")
                out.append(("product_of_" + ("singular_values" if which == "s" else "eigenvalues"), ix.scal_eq(prods[0][1]((i,)), src.at(i))))
                arg = ctx.ghost.get("qsvd", (None,))[0] if which == "s" else ctx.ghost.get("eig", (None,))[0]
                out.append(("of_the_argument", arg is X))
            return out
        return post
    for nm in ("Dieudonne", "Dieudonné"):
        run_case(rep, P, U + "det", nm, setup_det(nm), post_prod("s"), lib=lib(), contracts=contracts,
                 clauses=["returns", "is_one_product", "product_of_singular_values", "of_the_argument"], replay=replay_det)
    run_case(rep, P, U + "det", "Moore_hermitian", setup_det("Moore"), post_prod("e"), lib=lib(),
             contracts={EV: k_eigvals, U + "ishermitian": k_isherm(True)}, clauses=["returns", "is_one_product", "product_of_eigenvalues", "of_the_argument"], replay=replay_det)
    run_case(rep, P, U + "det", "Moore_nonhermitian", setup_det("Moore"),
             lambda I, ctx, outcome, val, aux: [("raises_ValueError", outcome == "raise" and val.exc_type == "ValueError")], lib=lib(),
             contracts={EV: k_eigvals, U + "ishermitian": k_isherm(False)}, clauses=["raises_ValueError"], replay=replay_det)
    run_case(rep, P, U + "det", "Study", setup_det("Study"),
             lambda I, ctx, outcome, val, aux: [("raises_NotImplementedError", outcome == "raise" and val.exc_type == "NotImplementedError")], lib=lib(), contracts=contracts,
             clauses=["raises_NotImplementedError"])
    run_case(rep, P, U + "det", "unknown", setup_det("Cayley"),
             lambda I, ctx, outcome, val, aux: [("raises_ValueError", outcome == "raise" and val.exc_type == "ValueError")], lib=lib(), contracts=contracts, clauses=["raises_ValueError"])

    def setup_ns(I, ctx):
        m, n = dims(ctx, "m", "n")
        ctx.assume(m != n, base=True)
        return [ix.input_array("X", [m, n], quat=True), "Dieudonne"], {}, None
    run_case(rep, P, U + "det", "nonsquare", setup_ns,
             lambda I, ctx, outcome, val, aux: [("raises_ValueError", outcome == "raise" and val.exc_type == "ValueError")], lib=lib(), contracts=contracts, clauses=["raises_ValueError"])

    # ------------------------------------------------------------------ ishermitian
    def k_herm(I, args, kwargs):
        return args[0].conj().transpose()

    def setup_h(I, ctx):
        (n,) = dims(ctx, "n")
        A = ix.input_array("A", [n, n], quat=True)
        tol = SReal.var("tol")
        ctx.assume(tol >= 0, base=True)
        return [A, tol], {}, (A, n, tol)

    def post_h(I, ctx, outcome, val, aux):
        A, n, tol = aux
        if outcome != "return":
            return [("returns", False)]
        (i, j) = ix.fresh_indices(ctx, [n, n], "h")
        ix.instantiate_bounds(ctx, (i, j))
        ix.instantiate_bounds(ctx, (j, i))
        ix.instantiate_anys(ctx, (i, j))
        d = A.at(i, j) - A.at(j, i).conj()
        bnds = [b for b in ctx.ghost.get("bounds", []) if b[3]]
        if not bnds:
            # zero-matrix shortcut taken before any maximum: handled by the path condition
            return [("returns", True)]
        M = bnds[0][2]
        res = ix.as_z3 if False else None
        out = [("returns", True)]
        # True  =>  every entry deviates by at most tol * max|A|   (checked at the skolem entry)
        is_true = (val is True) or (isinstance(val, SBool) and False)
        vz = val if isinstance(val, (bool, SBool)) else None
        if vz is None:
            return out + [("boolean_result", False)]
        out.append(("boolean_result", True))
        out.append(("true_implies_entrywise_bound", sor(snot(vz), abs(d) <= tol * M)))
        return out
    run_case(rep, P, U + "ishermitian", "", setup_h, post_h, lib=lib(), contracts={U + "quat_hermitian": k_herm},
             clauses=["returns", "boolean_result", "true_implies_entrywise_bound"], replay=replay_det, timeout_s=30)
    rep.canary("C11.canary.count_vs_threshold", True)


# ---------------------------------------------------------------------------------------------------
def _check_rank_null(A4, r_true):
    from .. import runtime as rt
    u = rt.real().utils
    m, n = A4.shape[:2]
    A = rt.q_from4(A4)
    rk = u.rank(A)
    if rk != r_true:
        return {"what": f"rank {rk} differs from the constructed rank {r_true}"}
    if u.rank(u.quat_hermitian(A)) != rk:
        return {"what": "rank(A^H) != rank(A)"}
    rng = np.random.default_rng(5)
    Pm, Qm = rng.standard_normal((m, m, 4)) + 3 * rt.eye4(m), rng.standard_normal((n, n, 4)) + 3 * rt.eye4(n)
    if u.rank(rt.q_from4(rt.qmm(rt.qmm(Pm, A4), Qm))) != rk:
        return {"what": "rank not invariant under multiplication by invertible matrices"}
    if rk * 4 != np.linalg.matrix_rank(u.real_expand(A), tol=1e-9 * (rt.fro(A4) or 1.0)):
        return {"what": "rank is not one quarter of the rank of the real representation"}
    sc = rt.fro(A4) or 1.0
    for side, dim, F in (("right", n, A4), ("left", m, rt.qH(A4))):
        N = u.quat_null_space(A, side=side)
        N4 = rt.q_to4(N) if N.size else np.zeros((dim, 0, 4))
        if N4.shape[:2] != (dim, dim - rk):
            return {"what": f"{side} null space has shape {N4.shape[:2]}, expected {(dim, dim - rk)}"}
        if dim - rk:
            if not (rt.fro(rt.qmm(F, N4)) <= 1e-8 * sc):
                return {"what": f"{side} null vectors are not mapped to zero", "err": rt.fro(rt.qmm(F, N4))}
            ind = int(np.sum(rt.singular_values(N4) > 1e-8))
            if ind != dim - rk:
                return {"what": f"{side} null-space columns are linearly dependent", "independent": ind, "expected": dim - rk}
    for f, s_ in ((u.quat_null_right, "right"), (u.quat_null_left, "left")):
        if rt.q_to4(f(A)).tobytes() != rt.q_to4(u.quat_null_space(A, side=s_)).tobytes():
            return {"what": f"wrapper for side {s_} differs from the general call"}
    if rt.q_to4(u.quat_kernel(A, side="left")).tobytes() != rt.q_to4(u.quat_null_space(A, side="left")).tobytes():
        return {"what": "quat_kernel differs from quat_null_space"}
    return None


def _check_det(n, rng):
    from .. import runtime as rt
    u = rt.real().utils
    sv = [float(x) for x in sorted(rng.random(n) + 0.5, reverse=True)]
    A4, _, _ = rt.from_svd(rng, n, n, sv)
    B4 = rng.standard_normal((n, n, 4))
    dA, dB = u.det(rt.q_from4(A4), "Dieudonne"), u.det(rt.q_from4(B4), "Dieudonné")
    if not abs(dA - np.prod(sv)) <= 1e-9 * max(1.0, np.prod(sv)):
        return {"what": "Dieudonne determinant differs from the product of singular values", "got": dA, "want": float(np.prod(sv))}
    dAB = u.det(rt.q_from4(rt.qmm(A4, B4)), "Dieudonne")
    if not abs(dAB - dA * dB) <= 1e-8 * max(1.0, abs(dA * dB)):
        return {"what": "det(AB) != det(A) det(B)", "dAB": dAB, "dAdB": dA * dB}
    S4 = A4.copy()
    S4[:, 0] = 0
    dS = u.det(rt.q_from4(S4), "Dieudonne")
    if not abs(dS) <= 1e-10:             # (written so that nan fails)
        return {"what": "determinant of a singular matrix (zero column) is not zero", "got": dS}
    if n >= 2:
        L4 = rt.qmm(rng.standard_normal((n, n - 1, 4)), rng.standard_normal((n - 1, n, 4)))
        dL = u.det(rt.q_from4(L4), "Dieudonne")
        if not abs(dL) <= 1e-10 * max(1.0, float(rt.singular_values(L4)[0]) ** n):
            return {"what": "determinant of a rank-deficient product is not zero", "got": dL}
    for c in (1e-30, 1e30):
        dc = u.det(rt.q_from4(A4 * c), "Dieudonne")
        want = float(np.prod([c * x for x in sv]))
        if not abs(dc - want) <= 1e-9 * want:
            return {"what": f"Dieudonne determinant not homogeneous of degree n at scale {c:g}", "got": dc, "want": want}
    lam = [float(x) for x in (rng.standard_normal(n) * 2)]
    Q = rt.gram_schmidt_unitary(rng, n)
    D = np.zeros((n, n, 4))
    for i in range(n):
        D[i, i, 0] = lam[i]
    H4 = rt.qmm(rt.qmm(Q, D), rt.qH(Q))
    H4 = 0.5 * (H4 + rt.qH(H4))
    dm = u.det(rt.q_from4(H4), "Moore")
    if not abs(complex(dm) - np.prod(lam)) <= 1e-8 * max(1.0, abs(np.prod(lam))):
        return {"what": "Moore determinant differs from the product of eigenvalues", "got": complex(dm), "want": float(np.prod(lam))}
    if not u.ishermitian(rt.q_from4(H4), tol=1e-12) or u.ishermitian(rt.q_from4(B4)) or not u.ishermitian(rt.q_from4(np.zeros((n, n, 4)))):
        return {"what": "ishermitian misclassifies"}
    return None


def replay_rank(seed):
    from .c06 import make_rank
    rng = np.random.default_rng(seed)
    for (m, n, r) in ((3, 2, 2), (2, 3, 1), (3, 3, 0), (4, 2, 1), (1, 1, 1)):
        A4 = make_rank(rng, m, n, r)
        try:
            res = _check_rank_null(A4, r)
        except Exception as e:
            res = {"exception": f"{type(e).__name__}: {e}"}
        if res:
            res.update({"failed": True, "A": A4, "rank": r})
            return res
    return {"failed": False}


def replay_det(seed):
    rng = np.random.default_rng(seed)
    for n in (1, 2, 3):
        try:
            res = _check_det(n, rng)
        except Exception as e:
            res = {"exception": f"{type(e).__name__}: {e}"}
        if res:
            res.update({"failed": True, "n": n})
            return res
    return {"failed": False}


def bounded(rep: Report, tier, seed):
    from .c06 import make_rank
    rng = np.random.default_rng(seed)
    mx = 4 if tier == "quick" else 5
    b = rep.add_bounded(Bounded("ranks_and_null_spaces", f"all shapes <= {mx}, all ranks 0..min(m,n) (nullity >= 2 included), Gaussian and integer factors",
                                "rank = constructed rank = rank(A^H) = rank(PAQ) = rank(real rep)/4; null spaces have n-r / m-r independent columns mapped to zero; wrappers identical"))
    for m in range(1, mx + 1):
        for n in range(1, mx + 1):
            for r in range(0, min(m, n) + 1):
                for kind in ("gauss", "int"):
                    if tier == "quick" and kind == "int" and (m + n + r) % 2:
                        continue
                    A4 = make_rank(rng, m, n, r, kind)
                    from .. import runtime as rt
                    if kind == "int" and r and int(np.sum(rt.singular_values(A4) > 1e-9)) != r:
                        continue
                    b.case(f"{P}.bounded.rank_null", (m, n, r, kind), lambda A4=A4, r=r: _check_rank_null(A4, r), f"{m}x{n} rank {r} ({kind})",
                           facts={"m": m, "n": n, "rank": r}, inputs={"A": A4})
    b.samples.append({"shape": [4, 3], "rank": 1, "nullity_right": 2})
    b.done()
    from .. import runtime as rt
    b3 = rep.add_bounded(Bounded("scaling_and_thresholds", "matrices of every rank scaled by 1e-11 .. 1e8; wide / tall matrices with one singular value just below / above eps*max(m,n)*s_max",
                                 "rank and null-space dimensions are invariant under scaling by a non-zero real; rank(A) = rank(A^H) at the documented threshold"))
    for (m, n) in ((3, 3), (2, 4), (4, 2), (2, 12), (12, 2)) + (((5, 3), (3, 5)) if tier == "thorough" else ()):
        for r in range(0, min(m, n) + 1):
            A4 = make_rank(rng, m, n, r)
            for c in (1e-11, 1e-6, 1e3, 1e8):
                b3.case(f"{P}.bounded.scaled", (m, n, r, c), lambda A4=A4, r=r, c=c: _check_rank_null(c * A4, r), f"{m}x{n} rank {r} scaled by {c:g}", facts={"m": m, "n": n, "rank": r, "scale": c}, inputs={"A": c * A4})
        if min(m, n) >= 2:
            eps = np.finfo(float).eps
            for fac, want in ((0.5, min(m, n) - 1), (4.0, min(m, n))):
                # smallest singular value = fac * eps * max(m, n) * s_max: below (fac < 1) or above the documented threshold
                sv = [1.0] * (min(m, n) - 1) + [fac * eps * max(m, n)]
                A4 = rt.from_svd(rng, m, n, sv)[0]

                def f(A4=A4, want=want):
                    u = rt.real().utils
                    s_true = rt.singular_values(A4)
                    thr = np.finfo(float).eps * max(A4.shape[:2]) * s_true[0]
                    if abs(s_true[-1] - thr) < 0.3 * thr:
                        return None        # too close to call after rounding
                    want_now = int(np.sum(s_true > thr))
                    r1, r2 = u.rank(rt.q_from4(A4)), u.rank(u.quat_hermitian(rt.q_from4(A4)))
                    if r1 != want_now or r2 != want_now:
                        return {"what": "rank at the documented default threshold eps*max(m,n)*s_max", "rank(A)": r1, "rank(A^H)": r2, "want": want_now, "smallest": float(s_true[-1]), "threshold": float(thr)}
                    return None
                b3.case(f"{P}.bounded.threshold", (m, n, fac), f, f"{m}x{n} smallest singular value {fac} x threshold", inputs={"A": A4})
    b3.samples.append({"shape": [2, 12], "singular_values": [1, 1.3e-15]})
    b3.done()
    b4 = rep.add_bounded(Bounded("moore_signs", "Hermitian matrices n = 1..4 with prescribed spectra of every sign pattern (incl. 1x1 negative, zero eigenvalue)", "Moore determinant = product of eigenvalues (sign included)"))
    for n in range(1, 5):
        for signs in itertools.product((-1.0, 1.0), repeat=n):
            lam = [sg * (1.5 + i) for i, sg in enumerate(signs)]
            for zero in (False, True):
                if zero and n == 1:
                    lam2 = [0.0]
                elif zero:
                    lam2 = lam[:-1] + [0.0]
                else:
                    lam2 = lam
                from .c08 import hermitian_from_spectrum
                H4 = hermitian_from_spectrum(rng, lam2)

                def g(H4=H4, lam2=lam2):
                    dm = rt.real().utils.det(rt.q_from4(H4), "Moore")
                    want = float(np.prod(lam2))
                    if not abs(complex(dm) - want) <= 1e-8 * max(1.0, abs(want)):
                        return {"what": "Moore determinant differs from the product of eigenvalues", "got": str(dm), "want": want}
                    return None
                b4.case(f"{P}.bounded.moore", (n, signs, zero), g, f"Moore determinant n={n} spectrum {lam2}", inputs={"A": H4, "spectrum": lam2})
    b4.samples.append({"n": 1, "A": [[-2.5]], "want": -2.5})
    b4.done()
    b2 = rep.add_bounded(Bounded("determinants", "n <= 4 (5); products of random factors; prescribed spectra", "Dieudonne = prod(s), multiplicative, zero iff singular; Moore = prod(lambda) on Hermitian input; ishermitian classification"))
    for n in range(1, mx + 1):
        for t in range(2 if tier == "quick" else 6):
            b2.case(f"{P}.bounded.det", (n, t), lambda n=n: _check_det(n, rng), f"determinant laws n={n}")
    b2.samples.append({"n": 3, "law": "det(AB) = det(A) det(B)"})
    b2.done()


def run(tier, seed):
    rep = Report(P, tier, seed, "exploration")
    rep.assumptions += [
        "classical_qsvd_full / quaternion_eigenvalues are used through contracts (sorted non-negative singular values; C05 / C08); np.sum of a boolean array is the number of true entries, np.prod the product, np.any the disjunction (library axioms)",
        "A5: rank-nullity, rank(A^H) = rank(A), invariance under invertible factors and multiplicativity of the Dieudonne determinant follow from the Q-SVD; decided on the real code by the bounded stand-in",
        "linear independence of the returned null vectors inherits the Q-SVD's known finding when the nullity exceeds one (orthonormality is not claimed, independence is checked)",
    ]
    rep.trusted += ["qv engine", "z3 5.1", "library model"]
    deductive(rep, tier)
    from ..frame import no_module_state
    no_module_state(rep, P, [U + n_ for n_ in ("rank", "quat_null_space", "quat_null_right", "quat_null_left", "quat_kernel", "det", "ishermitian")])
    bounded(rep, tier, seed)
    return rep


def replay(path):
    import json
    with open(path) as f:
        d = json.load(f)
    print(json.dumps({k: d[k] for k in ("property", "obligation", "text")}, indent=1))
    return run("quick", d.get("seed", 0)).finish()
