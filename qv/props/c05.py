"""C05 - Q-SVD: true singular values, unitary factors, exact and optimal reconstruction.

Deductive part (index-level, symbolic m, n, R; np.linalg.svd by its textbook contract only; real_expand /
real_contract by their C02 contracts):
  full.shapes          U is m x m, V is n x n, s has min(m,n) entries;
  full.select_values   s_quat[i] = s_real[4 i]  (list-append loop invariant);
  full.select_vectors  U_q and V_q are the block read-backs of U_real and of Vt_real^T - both through the same
                       contraction, so the left and right vectors of column j come from real singular triples
                       with the same offset inside block j;
  trunc.slices         classical_qsvd returns the first R columns / values of the same factors.
Under the structure lemma for *simple* quaternion singular values (assumption A5) these give U, V unitary and
A = U S V^H; for repeated or multiple zero singular values the lemma's hypothesis fails, LAPACK's contract says
nothing about the basis it picks inside the 4k-dimensional real singular subspace, and the postcondition is not
derivable - the bounded stand-in finds inputs and the failure is a known finding.
Bounded stand-in: shapes <= 4 (5), every multiplicity pattern, all truncation ranks."""
from __future__ import annotations

import itertools
from fractions import Fraction

import numpy as np
import z3

from .. import idx as ix
from .. import smt
from ..core import Bounded, Obligation, Report, run_case
from ..libmodel import Library
from ..rules import ListInv
from ..sym import SInt, SReal, SBool, cur, sand, snot, sor, smin
from .c01 import dims
from . import c02
from .c06 import contracts_with_rb

P = "C05"
QS = "quatica/decomp/qsvd.py::"
U = "quatica/utils.py::"


def lapack_svd():
    def svd(A, full_matrices=True, compute_uv=True, **kw):
        M, N = A.shape
        r = smin(M, N)
        c = cur()
        k = len(c.ghost.setdefault("svd_calls", []))
        Um = ix.input_array(f"Ureal{k}", [M, M] if full_matrices else [M, r])
        s = ix.input_array(f"sreal{k}", [r])
        s.sorted_desc = True
        Vt = ix.input_array(f"Vtreal{k}", [N, N] if full_matrices else [r, N])
        c.ghost["svd_calls"].append((A, Um, s, Vt, full_matrices))
        return Um, s, Vt
    return svd


def deductive(rep: Report, tier):
    contracts, RB = contracts_with_rb(rep)
    if RB is None:
        rep.add(Obligation(f"{P}.readback_table", U + "real_contract", "all-shapes", smt.UNDECIDED, "", 0.0, "no read-back table"))
        return

    def mklib():
        lib = Library("idx")
        lib.np.table["linalg"].table["svd"] = lapack_svd()
        return lib

    def rules(fn):
        return {(QS + fn, 0): ListInv({"s_quat": lambda it, fr: (lambda j, s=fr.vars["s"]: s.at(4 * j))})}

    def readback(Mreal, a, b):
        return c02.rb_apply(RB, lambda x, y: Mreal.at(4 * a + x, 4 * b + y))

    def common(ctx, X, m, n, val, R=None):
        calls = ctx.ghost.get("svd_calls", [])
        if len(calls) != 1 or not (isinstance(val, tuple) and len(val) == 3):
            return [("returns_triple_from_one_svd", False)], None
        A_real, Ur, s, Vt, full = calls[0]
        Uq, sq, Vq = val
        out = [("returns_triple_from_one_svd", True), ("full_matrices_requested", full is True)]
        r = smin(m, n)
        ku, kv, ks = (m, n, r) if R is None else (R, R, R)
        out.append(("shapes", isinstance(Uq, ix.IArr) and isinstance(Vq, ix.IArr) and isinstance(sq, ix.IArr) and
                    sand(Uq.shape[0] == m, Uq.shape[1] == ku, Vq.shape[0] == n, Vq.shape[1] == kv, sq.shape[0] == ks)))
        (p, q) = ix.fresh_indices(ctx, [4 * m, 4 * n], "e")
        out.append(("svd_of_the_real_expansion", ix.scal_eq(A_real.at(p, q), contracts[U + "real_expand"](None, [X], {}).at(p, q))))
        (a, b) = ix.fresh_indices(ctx, [m, ku], "u")
        out.append(("select_vectors.U", Uq.at(a, b) == readback(Ur, a, b)))
        (a2, b2) = ix.fresh_indices(ctx, [n, kv], "v")
        out.append(("select_vectors.V", Vq.at(a2, b2) == c02.rb_apply(RB, lambda x, y: Vt.at(4 * b2 + y, 4 * a2 + x))))
        (i,) = ix.fresh_indices(ctx, [ks], "s")
        out.append(("select_values", ix.scal_eq(sq.at(i), s.at(4 * i))))
        return out, (Ur, s, Vt)

    def setup_full(I, ctx):
        m, n = dims(ctx, "m", "n")
        X = ix.input_array("X", [m, n], quat=True)
        return [X], {}, (X, m, n)

    def post_full(I, ctx, outcome, val, aux):
        X, m, n = aux
        if outcome != "return":
            return [("returns_triple_from_one_svd", False)]
        return common(ctx, X, m, n, val)[0]
    cl = ["returns_triple_from_one_svd", "full_matrices_requested", "shapes", "svd_of_the_real_expansion", "select_vectors.U", "select_vectors.V", "select_values"]
    run_case(rep, P, QS + "classical_qsvd_full", "", setup_full, post_full, lib=mklib(), contracts=contracts, loop_rules=rules("classical_qsvd_full"),
             clauses=cl, replay=replay_svd, timeout_s=30)

    def setup_tr(I, ctx):
        m, n, R = dims(ctx, "m", "n", "R")
        ctx.assume(sand(R <= m, R <= n), base=True)
        X = ix.input_array("X", [m, n], quat=True)
        return [X, R], {}, (X, m, n, R)

    def post_tr(I, ctx, outcome, val, aux):
        X, m, n, R = aux
        if outcome != "return":
            return [("returns_triple_from_one_svd", False)]
        return common(ctx, X, m, n, val, R)[0]
    run_case(rep, P, QS + "classical_qsvd", "", setup_tr, post_tr, lib=mklib(), contracts=contracts, loop_rules=rules("classical_qsvd"),
             clauses=cl, replay=replay_svd, timeout_s=30)
    # both real vectors of a quaternion column come from the same position inside their block (column 0 of the read-back)
    same = True
    for c in range(4):
        for a in range(4):
            for b in range(1, 4):
                from ..lintable import subst
                pairs = [(c02.RBV[x][y], z3.RealVal(1 if (x, y) == (a, b) else 0)) for x in range(4) for y in range(4)]
                if subst(RB.c[c], pairs) != 0:
                    same = False
    rep.add(Obligation(f"{P}.lemma.contraction_reads_one_real_column_per_block", U + "real_contract", "all-shapes", smt.PROVED if same else smt.UNDECIDED,
                       "probe", 0.0, None if same else "the read-back mixes several block columns: pairing of left/right real singular vectors not established"))
    # Eckart-Young bookkeeping lemma: with orthonormal U, V the truncation error is the tail of the spectrum (spec level, z3)
    s1, s2, s3 = z3.Reals("s1 s2 s3")
    v = smt.prove([s1 >= s2, s2 >= s3, s3 >= 0], z3.And(s2 * s2 + s3 * s3 >= s3 * s3, s3 * s3 <= s2 * s2), 5)
    rep.add(Obligation(f"{P}.lemma.tail_energy_monotone", "spec", "all-shapes", v.status, v.backend, v.secs, v.model, kind="lemma"))
    rep.canary("C05.canary.offset_mismatch", smt.prove([s1 >= s2, s2 >= 0], s1 == s2, 5).status == smt.REFUTED)


# ---------------------------------------------------------------------------------------------------
KNOWN_CLAUSES = ("U or V not unitary", "A != U S V^H", "truncated U_R or V_R columns not orthonormal", "rank-R truncation does not attain the Eckart-Young optimum")


def check_qsvd(A4, svals_true=None, tol=1e-9, trunc=True):
    """Every clause is evaluated and all failures are collected (facts['failures']): the known finding C05.qsvd.repeated_singular_value
    is about the singular VECTORS in a repeated singular subspace only, so a failing case matches it only when nothing but the
    vector clauses fails - wrong shapes or wrong singular VALUES on the same input are a different violation."""
    from .. import runtime as rt
    r = rt.real()
    m, n = A4.shape[:2]
    k = min(m, n)
    Uq, s, Vq = r.qsvd.classical_qsvd_full(rt.q_from4(A4))
    U4, V4 = rt.q_to4(Uq), rt.q_to4(Vq)
    s = np.asarray(s, dtype=float)
    sv = rt.singular_values(A4) if svals_true is None else np.asarray(sorted(svals_true, reverse=True), dtype=float)
    sc = float(sv[0]) if len(sv) and float(sv[0]) > 0 else 1.0
    # multiplicity facts (zero counted; |m - n| structural zeros belong to the zero cluster of the larger factor)
    ext = list(sv) + [0.0] * (max(m, n) - k)
    mult = 1
    for i in range(len(ext)):
        mult = max(mult, sum(1 for x in ext if abs(x - ext[i]) <= 1e-8 * sc))
    facts = {"m": m, "n": n, "max_multiplicity": mult, "repeated": mult >= 2, "failures": []}
    fails = []

    def fail(d):
        fails.append(d)
        facts["failures"].append(d["what"])

    def done():
        other = [f for f in fails if f["what"] not in KNOWN_CLAUSES]
        return (other[0] if other else (fails[0] if fails else None)), facts
    if U4.shape[:2] != (m, m) or V4.shape[:2] != (n, n) or s.shape != (k,):
        fail({"what": "shapes", "U": U4.shape, "V": V4.shape, "s": s.shape})
        return done()
    if not (np.all(s >= -1e-12 * sc) and np.all(np.diff(s) <= 1e-10 * sc)):
        fail({"what": "singular values not non-negative non-increasing", "s": s})
    if not np.allclose(s, sv, atol=tol * sc, rtol=0):
        fail({"what": "singular values differ from the true quaternion singular values", "got": s, "want": sv})
    eu, ev = rt.fro(rt.qmm(rt.qH(U4), U4) - rt.eye4(m)), rt.fro(rt.qmm(rt.qH(V4), V4) - rt.eye4(n))
    if not (eu <= tol and ev <= tol):
        fail({"what": "U or V not unitary", "errU": eu, "errV": ev})
    S4 = np.zeros((m, n, 4))
    for i in range(k):
        S4[i, i, 0] = s[i]
    er = rt.fro(rt.qmm(rt.qmm(U4, S4), rt.qH(V4)) - A4)
    if not er <= tol * sc:
        fail({"what": "A != U S V^H", "err": er})
    if trunc:
        for R in range(1, k + 1):
            UR, sR, VR = r.qsvd.classical_qsvd(rt.q_from4(A4), R)
            UR4, VR4 = rt.q_to4(UR), rt.q_to4(VR)
            sR = np.asarray(sR, dtype=float)
            if UR4.shape[:2] != (m, R) or VR4.shape[:2] != (n, R) or sR.shape != (R,):
                fail({"what": "truncated shapes", "R": R})
                break
            if not np.allclose(sR, sv[:R], atol=tol * sc, rtol=0):
                fail({"what": "truncated singular values differ from the R largest true singular values", "R": R, "got": sR, "want": sv[:R]})
                break
            euR, evR = rt.fro(rt.qmm(rt.qH(UR4), UR4) - rt.eye4(R)), rt.fro(rt.qmm(rt.qH(VR4), VR4) - rt.eye4(R))
            if not (euR <= tol and evR <= tol):
                fail({"what": "truncated U_R or V_R columns not orthonormal", "R": R, "errU": euR, "errV": evR})
                break
            D = np.zeros((R, R, 4))
            for i in range(R):
                D[i, i, 0] = sR[i]
            err2 = rt.fro(rt.qmm(rt.qmm(UR4, D), rt.qH(VR4)) - A4) ** 2
            opt = float(np.sum(sv[R:] ** 2))
            if not abs(err2 - opt) <= tol * sc * sc * 10:
                fail({"what": "rank-R truncation does not attain the Eckart-Young optimum", "R": R, "err2": err2, "optimum": opt})
                break
    return done()


def check_history_independence(A4, B4):
    """The same ndarray object is overwritten in place between two calls (rank sweeps / iterative re-truncation do this): the second
    result must be the result for the NEW contents, bit for bit what a call on a fresh copy returns."""
    from .. import runtime as rt
    r = rt.real()
    k = min(A4.shape[:2])
    for name, fn in (("classical_qsvd_full", lambda X: r.qsvd.classical_qsvd_full(X)), ("classical_qsvd", lambda X: r.qsvd.classical_qsvd(X, max(1, k - 1)))):
        X = rt.q_from4(A4.copy())      # (q_from4 returns a view: work on a copy so that A4 itself is not overwritten)
        fn(X)
        X[...] = rt.q_from4(B4)
        got = fn(X)
        want = fn(rt.q_from4(B4))
        for g, w, what in zip(got, want, ("U", "s", "V")):
            g4 = rt.q_to4(g) if hasattr(g, "dtype") and g.dtype != np.float64 else np.asarray(g, dtype=float)
            w4 = rt.q_to4(w) if hasattr(w, "dtype") and w.dtype != np.float64 else np.asarray(w, dtype=float)
            if g4.shape != w4.shape or not np.array_equal(g4, w4):
                return {"what": f"{name}: {what} of the second call on an array overwritten in place differs from the call on a fresh copy of the same contents"}
    return None


def replay_svd(seed):
    from .. import runtime as rt
    rng = np.random.default_rng(seed)
    for (m, n, sv) in ((3, 2, [2.0, 0.5]), (2, 3, [3.0, 1.0]), (3, 3, [4.0, 2.0, 1.0]), (1, 1, [2.0]), (2, 2, [1.0, 0.0])):
        A4, _, _ = rt.from_svd(rng, m, n, sv)
        try:
            res, facts = check_qsvd(A4, sv)
        except Exception as e:
            res, facts = {"exception": f"{type(e).__name__}: {e}"}, {}
        if res and not facts.get("repeated"):
            res.update({"failed": True, "A": A4, "svals": sv})
            return res
    return {"failed": False}


def bounded(rep: Report, tier, seed):
    from .. import runtime as rt
    rng = np.random.default_rng(seed)
    mx = 4 if tier == "quick" else 5
    b = rep.add_bounded(Bounded("multiplicity_patterns", f"shapes <= {mx}x{mx}; spectra: simple, k-fold repeated non-zero, one zero, multiple zeros, unitary, identity-like, wide dynamic range",
                                "A = U diag(s) V^H built with harness unitaries; s = true values, U^H U = I, V^H V = I, A = U S V^H, Eckart-Young equality for every R; distinct by (m, n, spectrum)"))
    for m in range(1, mx + 1):
        for n in range(1, mx + 1):
            k = min(m, n)
            pats = {"simple": [float(k - i) for i in range(k)], "wide_range": [10.0 ** (2 - 2 * i) for i in range(k)],
                    "one_zero": [float(k - i) for i in range(k - 1)] + [0.0]}
            if k >= 2:
                pats["repeated"] = [2.0] * 2 + [1.0 / (i + 1) for i in range(k - 2)]
                pats["all_equal"] = [1.0] * k
                pats["multiple_zeros"] = [3.0] + [0.0] * (k - 1)
            for name, sv in pats.items():
                if tier == "quick" and name in ("wide_range",) and (m + n) % 2:
                    continue
                A4, _, _ = rt.from_svd(rng, m, n, sv)
                try:
                    res, facts = check_qsvd(A4, sv)
                except Exception as e:
                    res, facts = {"exception": f"{type(e).__name__}: {e}"}, {"m": m, "n": n}
                facts["pattern"] = name
                b.case(f"{P}.bounded.qsvd", (m, n, name), (lambda res=res: res), f"Q-SVD of a {m}x{n} matrix with spectrum pattern {name}", facts=facts, inputs={"A": A4, "svals": sv})
    b.samples.append({"shape": [3, 3], "pattern": "all_equal (unitary)", "expected": "known finding"})
    b.done()
    b2 = rep.add_bounded(Bounded("entry_patterns", f"shapes <= {mx}x{mx}; pure quaternions (zero real plane), single axis (only j), real, one scaled by 1e-9 / 1e9; generic spectra",
                                 "same clauses; true singular values from the harness's complex-adjoint SVD"))
    for m in range(1, mx + 1):
        for n in range(1, mx + 1):
            G = rng.standard_normal((m, n, 4))
            pats = {"pure": G * np.array([0.0, 1.0, 1.0, 1.0]), "single_axis_j": G * np.array([0.0, 0.0, 1.0, 0.0]), "real": G * np.array([1.0, 0.0, 0.0, 0.0]),
                    "tiny": G * 1e-9, "huge": G * 1e9}
            for name, A4 in pats.items():
                if tier == "quick" and name in ("tiny", "huge", "real") and (m + n) % 2:
                    continue
                try:
                    res, facts = check_qsvd(A4)
                except Exception as e:
                    res, facts = {"exception": f"{type(e).__name__}: {e}"}, {"m": m, "n": n}
                facts["pattern"] = name
                b2.case(f"{P}.bounded.qsvd", (m, n, name), (lambda res=res: res), f"Q-SVD of a {m}x{n} matrix with entry pattern {name}", facts=facts, inputs={"A": A4})
    b2.done()
    b3 = rep.add_bounded(Bounded("call_histories", "two calls on one ndarray object overwritten in place in between; shapes 2x2, 3x2, 2x4, 4x4",
                                 "second result identical to a call on a fresh copy (the result is a function of the argument's value)"))
    for (m, n) in ((2, 2), (3, 2), (2, 4), (4, 4)):
        A4, B4 = rng.standard_normal((m, n, 4)), rng.standard_normal((m, n, 4))
        b3.case(f"{P}.bounded.call_history", (m, n), lambda A4=A4, B4=B4: check_history_independence(A4, B4), f"in-place overwrite between two Q-SVD calls, {m}x{n}", inputs={"A": A4, "B": B4})
    b3.done()


def run(tier, seed):
    rep = Report(P, tier, seed, "exploration")
    rep.assumptions += [
        "np.linalg.svd is assumed to satisfy its textbook contract only: orthogonal U, Vt, non-negative non-increasing s, A = U diag(s) Vt; nothing about which basis is returned inside a repeated singular subspace",
        "A5 (structure lemma): for a simple quaternion singular value the real singular subspace is {vec(u q)} and paired real columns carry the same unit quaternion q; under it the selected columns are quaternion singular vectors",
        "real_expand / real_contract by their C02 contracts (tables extracted from the code on this run)",
    ]
    rep.trusted += ["qv engine", "z3 5.1", "library model (LAPACK contract)"]
    deductive(rep, tier)
    from ..frame import no_module_state
    no_module_state(rep, P, [QS + "classical_qsvd", QS + "classical_qsvd_full"], replay=replay_svd)
    bounded(rep, tier, seed)
    return rep


def replay(path):
    import json
    with open(path) as f:
        d = json.load(f)
    print(json.dumps({k: d[k] for k in ("property", "obligation", "text")}, indent=1))
    return run("quick", d.get("seed", 0)).finish()
