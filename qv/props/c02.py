"""C02 - real and complex embeddings are faithful *-homomorphisms with exact round trip.

Deductive part (index-level domain, symbolic m, n):
  * real_expand / Realp(matrix branch) / quaternion_to_complex_adjoint are proved *blockwise*: the
    embedding of a matrix is the block matrix of the embeddings of its entries (loop invariants given
    as closed forms; 16 slice assignments tile the result), where the embedding of one quaternion is the
    table obtained by executing the same real function on a 1x1 input;
  * the per-quaternion tables are proved (QF_NRA, 8 real unknowns) to be real-linear, multiplicative for
    the Hamilton product, to map conjugation to transposition, to scale the norm by 4 (resp. 2) and to be
    injective;  the block-matrix versions are re-proved in the free algebra for all shapes from the
    coefficients extracted from the tables;
  * real_contract reads the first column of every block; composed with the contract of real_expand it
    is the identity (term-level equality, hence bit-for-bit); A2A0123 and the component conversions of
    the Krylov solver are lossless.
Bounded stand-in: basis units at every position, shapes <= 3, against an independent embedding."""
from __future__ import annotations

import itertools
import time
from fractions import Fraction

import numpy as np
import z3

from .. import idx as ix
from .. import nc as ncm
from .. import smt, spec
from ..core import Bounded, Obligation, Report, run_case
from ..interp import Interp
from ..libmodel import Library
from ..lintable import LinTable, subst
from ..nc import NC
from ..rules import FunctionalInv
from ..sym import Ctx, OutOfReach, Raised, SInt, SReal, SBool, cur, sand, sor, ssqrt
from ..values import QMat, RMat, Obj, fresh_qmat, fresh_rmat
from .c01 import dims, mk_sparse, comps_of

P = "C02"
U = "quatica/utils.py::"
S = "quatica/solver.py::"

QV = [z3.Real(n) for n in ("qw", "qx", "qy", "qz")]
PV = [z3.Real(n) for n in ("pw", "px", "py", "pz")]


def _single_path(rep, qual, setup, mode="idx", contracts=None, loop_rules=None):
    """Run one symbolic call that must have exactly one returning path; returns the value (or raises)."""
    lib = Library(mode)
    ctx = Ctx(qual)
    with ctx:
        ctx.begin_path([])
        I = Interp(rep.repo, lib, contracts or {}, loop_rules or {})
        args, kwargs = setup(I, ctx)
        val = I.call_qual(qual, *args, **kwargs)
        if ctx.decisions:
            raise OutOfReach("table extraction forked")
        return val


def one_quat_input():
    return ix.IArr.from_fn([1, 1], lambda vi: ix.QScal(*[SReal(v) for v in QV]), quat=True)


def extract_tables(rep):
    """E1 = real_expand([[q]]), RP = Realp(qw,qx,qy,qz), AD = adjoint([[q]]) as tables over (qw,qx,qy,qz)."""
    tabs = {}
    errs = {}
    for name, qual, setup in (
        ("E1", U + "real_expand", lambda I, c: ([one_quat_input()], {})),
        ("RP", U + "Realp", lambda I, c: ([SReal(v) for v in QV], {})),
        ("AD", U + "quaternion_to_complex_adjoint", lambda I, c: ([one_quat_input()], {})),
    ):
        rep.function(qual)
        try:
            arr = _single_path(rep, qual, setup)
            if not isinstance(arr, ix.IArr):
                raise OutOfReach(f"{name}: result is not an array")
            tabs[name] = LinTable(arr, QV)
        except (OutOfReach, Raised) as e:
            errs[name] = f"{type(e).__name__}: {e}"
        except Exception as e:
            errs[name] = f"engine exception {type(e).__name__}: {e}"
    # RB = real_contract(block, 1, 1) on a 4x4 block of 16 symbolic reals: which cells are read back
    try:
        rep.function(U + "real_contract")
        blk = ix.IArr.from_fn([4, 4], lambda vi: SReal(RBV[vi[0]][vi[1]]) if all(isinstance(i, int) for i in vi) else _sym_pick(vi))
        arr = _single_path(rep, U + "real_contract", lambda I, c: ([blk, 1, 1], {}))
        if not (isinstance(arr, ix.IArr) and arr.quat and tuple(arr.vshape) == (1, 1)):
            raise OutOfReach("RB: result is not a 1x1 quaternion array")
        tabs["RB"] = arr.at(0, 0)
    except (OutOfReach, Raised) as e:
        errs["RB"] = f"{type(e).__name__}: {e}"
    except Exception as e:
        errs["RB"] = f"engine exception {type(e).__name__}: {e}"
    return tabs, errs


RBV = [[z3.Real(f"r{a}{b}") for b in range(4)] for a in range(4)]


def _sym_pick(vi):
    res = None
    for a in range(3, -1, -1):
        for b in range(3, -1, -1):
            x = SReal(RBV[a][b])
            res = x if res is None else ix.ite(sand(vi[0] == a, vi[1] == b), x, res)
    return res


def rb_apply(RB, cellfn):
    """Read-back table applied to a block given by cellfn(a, b)."""
    pairs = [(RBV[a][b], SReal.lift(cellfn(a, b))) for a in range(4) for b in range(4)]
    return ix.QScal(*[subst(c, pairs) for c in RB.c])


def prove_ob(rep, oid, fn, goal, hyps=(), timeout=20, scope="all-shapes", kind="lemma", replay=None):
    if isinstance(goal, bool):
        st, be, secs, det = (smt.PROVED if goal else smt.REFUTED), "syntactic", 0.0, None
    else:
        v = smt.prove(list(hyps), goal, timeout)
        st, be, secs, det = v.status, v.backend, v.secs, ({"model": v.model} if v.status == smt.REFUTED else v.detail)
    rep.add(Obligation(oid, fn, scope, st, be, secs, det, replay=replay, kind=kind))
    return st


def undecided(rep, oid, fn, why):
    rep.add(Obligation(oid, fn, "all-shapes", smt.UNDECIDED, "", 0.0, why))


def zr(x):
    return SReal.lift(x)


# --------------------------------------------------------------------------------------------------
def table_lemmas(rep, name, T: LinTable, fn, scale, cplx=False, replay=None):
    """Per-quaternion lemmas on a table T(q): shape (r, r).  scale: ||T(q)||_F^2 = scale*|q|^2."""
    r = T.shape[0]
    v = T.verify_linear()
    rep.add(Obligation(f"{P}.{name}.linear", fn, "all-shapes", v.status, v.backend, v.secs, v.model, kind="lemma", replay=replay))
    Tq = T.apply([SReal(x) for x in QV])
    Tp = T.apply([SReal(x) for x in PV])
    pq = spec.hamilton([SReal(x) for x in PV], [SReal(x) for x in QV], lambda a, b: a * b)
    Tpq = T.apply(pq)
    # multiplicativity  T(p) T(q) = T(p (x) q)
    goals = []
    for a in range(r):
        for b in range(r):
            acc = Fraction(0) if not cplx else ix.CScal(Fraction(0))
            for l in range(r):
                acc = acc + Tp[(a, l)] * Tq[(l, b)]
            goals.append(sym_eq(acc, Tpq[(a, b)]))
    prove_ob(rep, f"{P}.{name}.hom", fn, z3.And(*goals), replay=replay)
    # star: T(conj q) = T(q)^T (real) / T(q)^H (complex)
    Tc = T.apply([SReal(QV[0]), -SReal(QV[1]), -SReal(QV[2]), -SReal(QV[3])])
    goals = []
    for a in range(r):
        for b in range(r):
            rhs = Tq[(b, a)]
            if cplx:
                rhs = ix.CScal.lift(rhs).conjugate()
            goals.append(sym_eq(Tc[(a, b)], rhs))
    prove_ob(rep, f"{P}.{name}.star", fn, z3.And(*goals), replay=replay)
    # norm scaling
    tot = Fraction(0)
    for k, e in Tq.items():
        tot = tot + (e * e if not cplx else ix.CScal.lift(e).re * ix.CScal.lift(e).re + ix.CScal.lift(e).im * ix.CScal.lift(e).im)
    n2 = sum((x * x for x in QV), z3.RealVal(0))
    prove_ob(rep, f"{P}.{name}.norm", fn, zr(tot) == scale * n2, replay=replay)
    # injective: T(q) = 0 -> q = 0
    zero = []
    for k, e in Tq.items():
        zero.append(sym_eq(e, Fraction(0) if not cplx else ix.CScal(Fraction(0))))
    prove_ob(rep, f"{P}.{name}.injective", fn, z3.Implies(z3.And(*zero), z3.And(*[x == 0 for x in QV])), replay=replay)
    # unit: T(1) = I
    T1 = T.apply([Fraction(1), Fraction(0), Fraction(0), Fraction(0)])
    goals = [sym_eq(T1[(a, b)], (Fraction(1) if a == b else Fraction(0))) for a in range(r) for b in range(r)]
    prove_ob(rep, f"{P}.{name}.unit", fn, z3.And(*goals), replay=replay)


def sym_eq(a, b):
    c = ix.scal_eq(a, b)
    z = c.z if isinstance(c, SBool) else z3.BoolVal(bool(c))
    return z


def block_lemmas_nc(rep, name, T: LinTable, fn, scale, cplx=False, replay=None):
    """Matrix-level statements in the free algebra, from the coefficients extracted from the table:
    Emb(A)[a][b] = sum_c coef[a,b][c] A_c ;  Emb(A) Emb(B) = Emb(ham(A,B)) ; Emb(A^H) = Emb(A)^T/H ;
    ||Emb(A)||_F^2 = scale ||A||_F^2   -- for all shapes."""
    co, ok = T.coefs()
    if not ok:
        for cl in ("hom", "star", "norm"):
            undecided(rep, f"{P}.{name}.matrix.{cl}", fn, "coefficient extraction failed")
        return
    r = T.shape[0]
    t0 = time.time()
    with Ctx(f"{name}.matrix") as ctx:
        ncm.reset_atoms()
        m, k, n = dims(ctx, "m", "k", "n")
        A = [fresh_rmat("A" + c, m, k).p for c in "wxyz"]
        B = [fresh_rmat("B" + c, k, n).p for c in "wxyz"]

        def emb(X, rows, cols):
            out = {}
            for a in range(r):
                for b in range(r):
                    re, im = NC.zero(rows, cols), NC.zero(rows, cols)
                    for c in range(4):
                        cf = co[(a, b)][c]
                        if cplx:
                            re = re + X[c].scale(cf[0])
                            im = im + X[c].scale(cf[1])
                        else:
                            re = re + X[c].scale(cf)
                    out[(a, b)] = (re, im)
            return out

        def cmul(x, y):
            return (x[0] @ y[0] - x[1] @ y[1], x[0] @ y[1] + x[1] @ y[0])
        EA, EB = emb(A, m, k), emb(B, k, n)
        EAB = emb(spec.ham_sym(A, B), m, n)
        status, det, secs = smt.PROVED, None, 0.0
        for a in range(r):
            for b in range(r):
                re, im = NC.zero(m, n), NC.zero(m, n)
                for l in range(r):
                    pr = cmul(EA[(a, l)], EB[(l, b)])
                    re, im = re + pr[0], im + pr[1]
                for got, want in ((re, EAB[(a, b)][0]), (im, EAB[(a, b)][1])):
                    st, be, sc, d = ncm.nc_equal_obligation(got, want, ctx.hyps())
                    secs += sc
                    if st != smt.PROVED:
                        status, det = st, {"block": [a, b], "words": d}
        rep.add(Obligation(f"{P}.{name}.matrix.hom", fn, "all-shapes", status, "normal-form", secs, det, kind="lemma", replay=replay))
        # star
        EH = emb(spec.herm_sym(A), k, m)
        status, det = smt.PROVED, None
        for a in range(r):
            for b in range(r):
                want_re, want_im = EA[(b, a)][0].T, (-EA[(b, a)][1].T if cplx else EA[(b, a)][1].T)
                for got, want in ((EH[(a, b)][0], want_re), (EH[(a, b)][1], want_im)):
                    st, be, sc, d = ncm.nc_equal_obligation(got, want, ctx.hyps())
                    if st != smt.PROVED:
                        status, det = st, {"block": [a, b], "words": d}
        rep.add(Obligation(f"{P}.{name}.matrix.star", fn, "all-shapes", status, "normal-form", 0.0, det, kind="lemma", replay=replay))
        # norm
        tot = Fraction(0)
        for a in range(r):
            for b in range(r):
                tot = tot + ncm.fro2(EA[(a, b)][0]) + ncm.fro2(EA[(a, b)][1])
        base = Fraction(0)
        for c in range(4):
            base = base + ncm.fro2(A[c])
        prove_ob(rep, f"{P}.{name}.matrix.norm", fn, zr(tot) == scale * zr(base), hyps=ctx.hyps(), replay=replay)
    rep.solver_secs += time.time() - t0


# --------------------------------------------------------------------------------------------------
def deductive(rep: Report, tier):
    tabs, errs = extract_tables(rep)
    for name, e in errs.items():
        undecided(rep, f"{P}.table.{name}", "extraction", e)
    lib = lambda: Library("idx")

    # ---------------- real_expand ------------------------------------------------------------------
    if "E1" in tabs:
        E1 = tabs["E1"]
        rep.add(Obligation(f"{P}.real_expand.table_shape", U + "real_expand", "all-shapes",
                           smt.PROVED if E1.shape == (4, 4) else smt.REFUTED, "syntactic", 0.0, {"shape": E1.shape}))
        table_lemmas(rep, "real_expand.block", E1, U + "real_expand", 4, replay=replay_embed("real_expand"))
        block_lemmas_nc(rep, "real_expand.block", E1, U + "real_expand", 4, replay=replay_embed("real_expand"))

        def spec_cell(Q, p, q):
            return E1.at(list(Q.at(p // 4, q // 4).c), (p % 4, q % 4))

        def outer(it, fr, k):
            Q = fr.vars["Q"]
            return lambda vi: ix.ite(vi[0] // 4 < k, spec_cell(Q, vi[0], vi[1]), Fraction(0))

        def inner(it, fr, k):
            Q, i = fr.vars["Q"], fr.vars["i"]
            return lambda vi: ix.ite(sor(vi[0] // 4 < i, sand(vi[0] // 4 == i, vi[1] // 4 < k)), spec_cell(Q, vi[0], vi[1]), Fraction(0))
        rules = {(U + "real_expand", 0): FunctionalInv(arrays={"R": outer}, tag="outer."),
                 (U + "real_expand", 1): FunctionalInv(arrays={"R": inner}, tag="inner.")}

        def setup(I, ctx):
            m, n = dims(ctx, "m", "n")
            Q = ix.input_array("Q", [m, n], quat=True)
            return [Q], {}, (Q, m, n)

        def post(I, ctx, outcome, val, aux):
            Q, m, n = aux
            if outcome != "return" or not isinstance(val, ix.IArr):
                return [("returns", False)]
            shape_ok = sand(val.shape[0] == 4 * m, val.shape[1] == 4 * n)
            (p, q) = ix.fresh_indices(ctx, [4 * m, 4 * n])
            return [("returns", True), ("shape", shape_ok), ("real_dtype", not val.quat and not val.cplx),
                    ("blockwise", ix.scal_eq(val.at(p, q), spec_cell(Q, p, q)))]
        run_case(rep, P, U + "real_expand", "", setup, post, lib=lib(), loop_rules=rules,
                 clauses=["returns", "shape", "real_dtype", "blockwise"], replay=replay_embed("real_expand"), timeout_s=30)

        def setup_bad(I, ctx):
            m, n = dims(ctx, "m", "n")
            return [ix.input_array("R", [m, n])], {}, None
        run_case(rep, P, U + "real_expand", "guard_dtype", setup_bad,
                 lambda I, ctx, outcome, val, aux: [("raises_ValueError", outcome == "raise" and val.exc_type == "ValueError")],
                 lib=lib(), clauses=["raises_ValueError"])

        # ---------------- real_contract ------------------------------------------------------------
        RB = tabs.get("RB")

        def readback(R, a, b):
            return rb_apply(RB, lambda x, y: R.at(4 * a + x, 4 * b + y))

        def pick(q, c):
            return ix.ite(c == 0, q.c[0], ix.ite(c == 1, q.c[1], ix.ite(c == 2, q.c[2], q.c[3])))

        def c_outer(it, fr, k):
            R = fr.vars["R"]
            return lambda vi: ix.ite(vi[0] < k, pick(readback(R, vi[0], vi[1]), vi[2]), Fraction(0))

        def c_inner(it, fr, k):
            R, i = fr.vars["R"], fr.vars["i"]
            return lambda vi: ix.ite(sor(vi[0] < i, sand(vi[0] == i, vi[1] < k)), pick(readback(R, vi[0], vi[1]), vi[2]), Fraction(0))
        crules = {(U + "real_contract", 0): FunctionalInv(arrays={"Q_array": c_outer}, tag="outer."),
                  (U + "real_contract", 1): FunctionalInv(arrays={"Q_array": c_inner}, tag="inner.")}

        def setup_c(I, ctx):
            m, n = dims(ctx, "m", "n")
            R = ix.input_array("R", [4 * m, 4 * n])
            return [R, m, n], {}, (R, m, n)

        def post_c(I, ctx, outcome, val, aux):
            R, m, n = aux
            if outcome != "return" or not isinstance(val, ix.IArr):
                return [("returns", False)]
            (a, b) = ix.fresh_indices(ctx, [m, n])
            return [("returns", True), ("quat_dtype", val.quat), ("shape", sand(val.shape[0] == m, val.shape[1] == n)),
                    ("blockwise", val.at(a, b) == readback(R, a, b))]
        if RB is None:
            undecided(rep, f"{P}.real_contract.blockwise", U + "real_contract", errs.get("RB", "no read-back table"))
        else:
            run_case(rep, P, U + "real_contract", "", setup_c, post_c, lib=lib(), loop_rules=crules,
                     clauses=["returns", "quat_dtype", "shape", "blockwise"], replay=replay_embed("roundtrip"), timeout_s=30)
            # left inverse on one block, and bit-exactness: both tables are signed selections (coefficients 0/+-1,
            # one non-zero per read cell) so no rounding arithmetic happens between expand and contract
            back = rb_apply(RB, lambda x, y: E1.entries[(x, y)])
            prove_ob(rep, f"{P}.real_contract.left_inverse_on_block", U + "real_contract",
                     z3.And(*[sym_eq(back.c[c], SReal(QV[c])) for c in range(4)]), replay=replay_embed("roundtrip"))
            co, okc = E1.coefs()
            sel = okc and all(sorted(abs(x) for x in cs) == [0, 0, 0, 1] for cs in co.values())
            rbsel = True
            for c in range(4):
                e = RB.c[c]
                nz = 0
                for a in range(4):
                    for b in range(4):
                        pairs = [(RBV[x][y], z3.RealVal(1 if (x, y) == (a, b) else 0)) for x in range(4) for y in range(4)]
                        v = subst(e, pairs)
                        if not isinstance(v, Fraction) or v not in (0, 1, -1):
                            rbsel = False
                        elif v != 0:
                            nz += 1
                rbsel = rbsel and nz == 1
            rep.add(Obligation(f"{P}.real_contract.roundtrip.bitexact_signed_selection", U + "real_contract", "all-shapes",
                               smt.PROVED if (sel and rbsel) else smt.UNDECIDED, "probe", 0.0,
                               None if (sel and rbsel) else "tables are not signed selections: bit-exactness left to the bounded byte comparison"))

        # round trip: input = the contract (closed form) of real_expand
        def setup_rt(I, ctx):
            m, n = dims(ctx, "m", "n")
            Q = ix.input_array("Q", [m, n], quat=True)
            R = ix.IArr.from_fn([4 * m, 4 * n], lambda vi: spec_cell(Q, vi[0], vi[1]))
            return [R, m, n], {}, (Q, m, n)

        def post_rt(I, ctx, outcome, val, aux):
            Q, m, n = aux
            if outcome != "return" or not isinstance(val, ix.IArr):
                return [("returns", False)]
            (a, b) = ix.fresh_indices(ctx, [m, n])
            got, want = val.at(a, b), Q.at(a, b)
            return [("returns", True), ("identity", got == want)]
        if RB is not None:
            run_case(rep, P, U + "real_contract", "roundtrip", setup_rt, post_rt, lib=lib(), loop_rules=crules,
                     clauses=["returns", "identity"], replay=replay_embed("roundtrip"), timeout_s=30)

        def setup_cg(I, ctx):
            m, n, r, c = dims(ctx, "m", "n", "r", "c")
            ctx.assume(sor(r != 4 * m, c != 4 * n), base=True)
            return [ix.input_array("R", [r, c]), m, n], {}, None
        run_case(rep, P, U + "real_contract", "guard_shape", setup_cg,
                 lambda I, ctx, outcome, val, aux: [("raises_ValueError", outcome == "raise" and val.exc_type == "ValueError")],
                 lib=lib(), loop_rules=crules, clauses=["raises_ValueError"])

    # ---------------- Realp ------------------------------------------------------------------------
    if "RP" in tabs:
        RP = tabs["RP"]
        rep.add(Obligation(f"{P}.Realp.table_shape", U + "Realp", "all-shapes",
                           smt.PROVED if RP.shape == (4, 4) else smt.REFUTED, "syntactic", 0.0, {"shape": RP.shape}))
        table_lemmas(rep, "Realp.scalar", RP, U + "Realp", 4, replay=replay_embed("Realp"))
        block_lemmas_nc(rep, "Realp", RP, U + "Realp", 4, replay=replay_embed("Realp"))

        class AnyRealDtype:
            """element type of a component plane: any real numpy dtype (int, float32, float64, ...) - the four planes need not agree"""
            qv_value = True

            def __init__(self, name):
                self.name = name

            def __repr__(self):
                return f"dtype({self.name})"

        def setup_rp(I, ctx):
            m, n = dims(ctx, "m", "n")
            A = [ix.input_array(f"A{i}", [m, n]) for i in range(1, 5)]
            for i, a in enumerate(A):
                a.dtype_override = AnyRealDtype(f"A{i + 1}")
            ctx.ghost["alloc_dtypes"] = []
            return A, {}, (A, m, n)

        def lib_rp():
            l = lib()

            def hook(what, shape, dtype):
                cur().ghost.setdefault("alloc_dtypes", []).append(dtype)
                if isinstance(dtype, AnyRealDtype):
                    return l.alloc(what, shape, None)       # contents as for float64; the narrower storage is what the clause below rejects
                return None
            l.alloc_hooks.append(hook)
            return l

        def post_rp(I, ctx, outcome, val, aux):
            A, m, n = aux
            if outcome != "return" or not isinstance(val, ix.IArr):
                return [("returns", False)]
            out = [("returns", True), ("shape", sand(val.shape[0] == 4 * m, val.shape[1] == 4 * n))]
            (i, j) = ix.fresh_indices(ctx, [m, n])
            conds = []
            t = RP.apply([x.at(i, j) for x in A])
            for a in range(4):
                for b in range(4):
                    conds.append(ix.scal_eq(val.at(a * m + i, b * n + j), t[(a, b)]))
            out.append(("blockwise_tiling", sand(*conds)))
            # injective / linear for ALL entry values needs storage that holds every plane exactly: float64, not the dtype of one plane
            out.append(("result_storage_not_narrowed_to_one_plane_dtype", not any(isinstance(d, AnyRealDtype) for d in ctx.ghost.get("alloc_dtypes", []))))
            return out
        run_case(rep, P, U + "Realp", "matrix", setup_rp, post_rp, lib=lib_rp(), clauses=["returns", "shape", "blockwise_tiling", "result_storage_not_narrowed_to_one_plane_dtype"],
                 replay=replay_embed("Realp"), timeout_s=30)

    # ---------------- A2A0123 ------------------------------------------------------------------------
    def setup_a(I, ctx):
        r, n = dims(ctx, "r", "n")
        X = [ix.input_array(f"X{i}", [r, n]) for i in range(4)]   # X0, X1, X2, X3
        order = [0, 2, 1, 3]                                       # documented layout [A0 A2 A1 A3]
        A = ix.IArr.from_fn([r, 4 * n], lambda vi: ix.ite(vi[1] < n, X[order[0]].at(vi[0], vi[1]),
                                                         ix.ite(vi[1] < 2 * n, X[order[1]].at(vi[0], vi[1] - n),
                                                                ix.ite(vi[1] < 3 * n, X[order[2]].at(vi[0], vi[1] - 2 * n), X[order[3]].at(vi[0], vi[1] - 3 * n)))))
        return [A], {}, (X, r, n)

    def post_a(I, ctx, outcome, val, aux):
        X, r, n = aux
        if outcome != "return" or not (isinstance(val, tuple) and len(val) == 4):
            return [("returns4", False)]
        out = [("returns4", True)]
        (i, j) = ix.fresh_indices(ctx, [r, n])
        for c in range(4):
            ok = isinstance(val[c], ix.IArr)
            out.append((f"shape{c}", ok and sand(val[c].shape[0] == r, val[c].shape[1] == n)))
            out.append((f"lossless{c}", ok and ix.scal_eq(val[c].at(i, j), X[c].at(i, j))))
        return out
    run_case(rep, P, U + "A2A0123", "", setup_a, post_a, lib=lib(),
             clauses=["returns4"] + [f"shape{c}" for c in range(4)] + [f"lossless{c}" for c in range(4)], replay=replay_embed("A2A0123"))

    # ---------------- complex adjoint -----------------------------------------------------------------
    if "AD" in tabs:
        AD = tabs["AD"]
        rep.add(Obligation(f"{P}.adjoint.table_shape", U + "quaternion_to_complex_adjoint", "all-shapes",
                           smt.PROVED if AD.shape == (2, 2) else smt.REFUTED, "syntactic", 0.0, {"shape": AD.shape}))
        table_lemmas(rep, "adjoint.scalar", AD, U + "quaternion_to_complex_adjoint", 2, cplx=True, replay=replay_embed("adjoint"))
        block_lemmas_nc(rep, "adjoint", AD, U + "quaternion_to_complex_adjoint", 2, cplx=True, replay=replay_embed("adjoint"))

        def setup_ad(I, ctx):
            (n,) = dims(ctx, "n")
            A = ix.input_array("A", [n, n], quat=True)
            return [A], {}, (A, n)

        def post_ad(I, ctx, outcome, val, aux):
            A, n = aux
            if outcome != "return" or not isinstance(val, ix.IArr):
                return [("returns", False)]
            out = [("returns", True), ("shape", sand(val.shape[0] == 2 * n, val.shape[1] == 2 * n)), ("complex_dtype", val.cplx)]
            (i, j) = ix.fresh_indices(ctx, [n, n])
            t = AD.apply(list(A.at(i, j).c))
            conds = [ix.scal_eq(ix.CScal.lift(val.at(a * n + i, b * n + j)), ix.CScal.lift(t[(a, b)])) for a in range(2) for b in range(2)]
            out.append(("blockwise_tiling", sand(*conds)))
            return out
        run_case(rep, P, U + "quaternion_to_complex_adjoint", "", setup_ad, post_ad, lib=lib(),
                 clauses=["returns", "shape", "complex_dtype", "blockwise_tiling"], replay=replay_embed("adjoint"), timeout_s=30)

        def setup_ns(I, ctx):
            m, n = dims(ctx, "m", "n")
            ctx.assume(m != n, base=True)
            return [ix.input_array("A", [m, n], quat=True)], {}, None
        run_case(rep, P, U + "quaternion_to_complex_adjoint", "guard_square", setup_ns,
                 lambda I, ctx, outcome, val, aux: [("raises_ValueError", outcome == "raise" and val.exc_type == "ValueError")],
                 lib=lib(), clauses=["raises_ValueError"])

        def setup_ax(I, ctx):
            (n,) = dims(ctx, "n")
            return [ix.input_array("A", [n, n], quat=True)], {"axis": "y"}, None
        run_case(rep, P, U + "quaternion_to_complex_adjoint", "guard_axis", setup_ax,
                 lambda I, ctx, outcome, val, aux: [("raises_NotImplementedError", outcome == "raise" and val.exc_type == "NotImplementedError")],
                 lib=lib(), clauses=["raises_NotImplementedError"])

    # ---------------- component conversions of the Krylov solver ---------------------------------------
    def mk_solver(I):
        cls = I.module_env("quatica/solver.py")["QGMRESSolver"]
        o = Obj(cls)
        o.fields.update({"tol": Fraction(1, 10**6), "max_iter": None, "verbose": False, "preconditioner": "none"})
        return o

    def setup_q2c(kind):
        def setup(I, ctx):
            m, n = dims(ctx, "m", "n")
            A = fresh_qmat("A", m, n) if kind == "dense" else mk_sparse(I, "A", m, n)
            return [mk_solver(I), A], {}, A
        return setup

    def post_q2c(I, ctx, outcome, val, aux):
        if outcome != "return" or not (isinstance(val, tuple) and len(val) == 4):
            return [("returns4", False)]
        out = [("returns4", True)]
        for c, (got, want) in enumerate(zip(val, comps_of(aux))):
            out.append((f"A{c}", got.p, want.p))
            out.append((f"A{c}.dense", got.storage == "dense"))
        return out
    cl = ["returns4"] + [f"A{c}" for c in range(4)] + [f"A{c}.dense" for c in range(4)]
    run_case(rep, P, S + "QGMRESSolver._quat_to_components", "dense", setup_q2c("dense"), post_q2c, clauses=cl, replay=replay_embed("components"))
    run_case(rep, P, S + "QGMRESSolver._quat_to_components", "sparse", setup_q2c("sparse"), post_q2c, clauses=cl, replay=replay_embed("components"))

    def setup_c2q(I, ctx):
        m, n = dims(ctx, "m", "n")
        A = fresh_qmat("A", m, n)
        return [mk_solver(I)] + list(A.c), {}, A

    def post_c2q(I, ctx, outcome, val, aux):
        if outcome != "return" or not isinstance(val, QMat):
            return [("returns_quat", False)]
        return [("returns_quat", True)] + [(f"c{c}", val.c[c].p, aux.c[c].p) for c in range(4)]
    run_case(rep, P, S + "QGMRESSolver._components_to_quat", "", setup_c2q, post_c2q, clauses=["returns_quat"] + [f"c{c}" for c in range(4)],
             replay=replay_embed("components"))

    canaries(rep, tabs)


def canaries(rep, tabs):
    """Wrong statements that must be refuted by the same machinery."""
    if True:
        def Lspec(vi):
            tot = Fraction(0)
            for a in range(4):
                for b in range(4):
                    if b == vi[1] and spec.IDX[a][b] == vi[0]:
                        tot = tot + spec.SIGN[a][b] * SReal(QV[a])
            return tot
        E1 = LinTable(ix.IArr.from_fn([4, 4], Lspec), QV)   # the spec's left-regular representation (not the code's)
        Tq = E1.apply([SReal(x) for x in QV])
        Tp = E1.apply([SReal(x) for x in PV])
        qp = spec.hamilton([SReal(x) for x in QV], [SReal(x) for x in PV], lambda a, b: a * b)   # wrong order
        Tqp = E1.apply(qp)
        goals = []
        for a in range(4):
            for b in range(4):
                acc = Fraction(0)
                for l in range(4):
                    acc = acc + Tp[(a, l)] * Tq[(l, b)]
                goals.append(sym_eq(acc, Tqp[(a, b)]))
        v = smt.prove([], z3.And(*goals), 10)
        rep.canary("C02.canary.antihomomorphism", v.status == smt.REFUTED)
        # reading the first *row* instead of the first column is not a left inverse
        t = E1.apply([SReal(x) for x in QV])
        v = smt.prove([], z3.And(*[sym_eq(t[(0, c)], SReal(QV[c])) for c in range(4)]), 10)
        rep.canary("C02.canary.first_row_readback", v.status == smt.REFUTED)


# --------------------------------------------------------------------------------------------------
# concrete side
def _embed_indep(A4, layout):
    """Independent embeddings from the Hamilton table: left-multiplication matrix L(q)[c][b] = coefficient of e_c in q*e_b."""
    m, n = A4.shape[:2]
    L = np.zeros((m, n, 4, 4))
    for a in range(4):
        for b in range(4):
            L[:, :, spec.IDX[a][b], b] += spec.SIGN[a][b] * A4[:, :, a]
    if layout == "interleaved":
        return L.transpose(0, 2, 1, 3).reshape(4 * m, 4 * n)
    return L.transpose(2, 0, 3, 1).reshape(4 * m, 4 * n)


def _real_embed(kind, A4, layout="C"):
    from .. import runtime as rt
    r = rt.real()
    u = r.utils
    if layout != "C":
        if kind == "real_expand":
            return u.real_expand(rt.q_from4(A4, layout))
        if kind == "adjoint":
            return u.quaternion_to_complex_adjoint(rt.q_from4(A4, layout))
        if kind == "Realp":
            return u.Realp(*[np.asfortranarray(A4[..., c]) if layout == "F" else A4[..., c] for c in range(4)])
    if kind == "real_expand":
        return u.real_expand(rt.q_from4(A4))
    if kind == "Realp":
        return u.Realp(*[A4[..., c].copy() for c in range(4)])
    if kind == "adjoint":
        return u.quaternion_to_complex_adjoint(rt.q_from4(A4))
    raise ValueError(kind)


def _check_embed(kind, A4, B4=None):
    """Runtime contract of one embedding on concrete data; returns None or failure details."""
    from .. import runtime as rt
    from .. import runtime as rt
    u = rt.real().utils
    if kind in ("real_expand", "Realp"):
        got = _real_embed(kind, A4)
        want = _embed_indep(A4, "interleaved" if kind == "real_expand" else "blocked")
        if got.shape != want.shape or not np.array_equal(got, want):
            return {"got": got, "want": want, "what": "embedding differs from the left-regular representation"}
        for lay in ("F", "S"):
            g2 = _real_embed(kind, A4, lay)
            if g2.shape != want.shape or not np.array_equal(g2, want):
                return {"got": g2, "want": want, "what": f"embedding of the same matrix given as a {lay}-layout view differs"}
        if B4 is not None:
            eb = _real_embed(kind, B4)
            eab = _real_embed(kind, rt.qmm(A4, B4))
            if not np.allclose(got @ eb, eab, atol=1e-9):
                return {"what": "product not mapped to product"}
        if not np.allclose(_real_embed(kind, rt.qH(A4)), got.T):
            return {"what": "conjugate transpose not mapped to transpose"}
        if not (abs(np.linalg.norm(got) - 2 * rt.fro(A4)) <= 1e-12 * max(1, rt.fro(A4))):
            return {"what": "norm not scaled by 2"}
        return None
    if kind == "adjoint":
        got = _real_embed(kind, A4)
        want = rt.complex_adjoint(A4)
        if got.shape != want.shape or not np.array_equal(got, want):
            return {"got": got, "want": want, "what": "adjoint differs from [[C, D], [-conj D, conj C]]"}
        for lay in ("F", "S"):
            g2 = _real_embed(kind, A4, lay)
            if g2.shape != want.shape or not np.array_equal(g2, want):
                return {"got": g2, "want": want, "what": f"adjoint of the same matrix given as a {lay}-layout view differs"}
        if B4 is not None and not np.allclose(got @ _real_embed(kind, B4), _real_embed(kind, rt.qmm(A4, B4)), atol=1e-9):
            return {"what": "product not mapped to product"}
        if not np.allclose(_real_embed(kind, rt.qH(A4)), got.conj().T):
            return {"what": "conjugate transpose not mapped to conjugate transpose"}
        if not (abs(np.linalg.norm(got) - np.sqrt(2) * rt.fro(A4)) <= 1e-12 * max(1, rt.fro(A4))):
            return {"what": "norm not scaled by sqrt 2"}
        return None
    if kind == "roundtrip":
        for lay in ("C", "F", "S"):
            Q = rt.q_from4(A4, lay)
            back = u.real_contract(u.real_expand(Q), A4.shape[0], A4.shape[1])
            if back.shape != Q.shape or rt.q_to4(back).tobytes() != A4.astype(float).tobytes():
                return {"got": rt.q_to4(back), "want": A4, "what": f"real_contract(real_expand(Q)) is not bit-identical to Q (layout {lay})"}
        return None
    if kind == "A2A0123":
        comps = [A4[..., c].copy() for c in range(4)]
        big = np.hstack([comps[0], comps[2], comps[1], comps[3]])
        out = u.A2A0123(big)
        for c in range(4):
            if out[c].shape != comps[c].shape or not np.array_equal(out[c], comps[c]):
                return {"what": f"component {c} not recovered", "got": out[c], "want": comps[c]}
        return None
    if kind == "components":
        s = rt.real().solver.QGMRESSolver()
        for dense, X in ((True, rt.q_from4(A4)), (False, rt.sparse_from4(A4))):
            c = s._quat_to_components(X)
            for k in range(4):
                if not np.array_equal(np.asarray(c[k]), A4[..., k]):
                    return {"what": f"_quat_to_components component {k}", "got": np.asarray(c[k]), "want": A4[..., k]}
            back = s._components_to_quat(*[np.asarray(x) for x in c])
            # dense: bit-for-bit; sparse: value equality (the harness' own csr conversion drops the sign of -0.0)
            same = rt.q_to4(back).tobytes() == A4.astype(float).tobytes() if dense else np.array_equal(rt.q_to4(back), A4)
            if not same:
                return {"what": "_components_to_quat(_quat_to_components(A)) != A", "dense": dense}
        return None
    raise ValueError(kind)


def replay_embed(kind):
    def rp(seed):
        rng = np.random.default_rng(seed)
        shapes = [(2, 2)] if kind == "adjoint" else [(2, 3), (1, 1), (3, 1)]
        for (m, n) in shapes:
            A4 = rng.integers(-3, 4, size=(m, n, 4)).astype(float)
            B4 = rng.integers(-3, 4, size=(n, m if kind != "adjoint" else n, 4)).astype(float)
            try:
                res = _check_embed(kind, A4, B4 if kind in ("real_expand", "Realp", "adjoint") else None)
            except Exception as e:
                res = {"exception": f"{type(e).__name__}: {e}"}
            if res is not None:
                res.update({"failed": True, "A": A4, "kind": kind})
                return res
        return {"failed": False, "kind": kind}
    return rp


def bounded(rep: Report, tier, seed):
    maxdim = 2 if tier == "quick" else 3
    b = rep.add_bounded(Bounded("basis_units", f"shapes <= {maxdim} (square for the adjoint); unit e_c at every position",
                                "each embedding of a basis unit compared entrywise with the embedding built from the Hamilton table; distinct by (kind, shape, position, unit)"))
    for m in range(1, maxdim + 1):
        for n in range(1, maxdim + 1):
            for i, j, c in itertools.product(range(m), range(n), range(4)):
                A4 = np.zeros((m, n, 4))
                A4[i, j, c] = 1.0
                kinds = ["real_expand", "Realp", "roundtrip", "A2A0123", "components"] + (["adjoint"] if m == n else [])
                for kind in kinds:
                    b.case(f"{P}.bounded.basis.{kind}", (kind, m, n, i, j, c), lambda kind=kind, A4=A4: _check_embed(kind, A4),
                           f"{kind} of unit e{c} at ({i},{j}) in a {m}x{n} matrix", inputs={"A": A4})
    b.samples.append({"kind": "real_expand", "A": "e_j at (0,1) of a 2x2", "expected_block": "L(j) at rows 0..3, cols 4..7"})
    b.done()
    rng = np.random.default_rng(seed)
    b2 = rep.add_bounded(Bounded("random_pairs", "shapes <= 4, integer and Gaussian entries, special values (-0.0, 1e300, 1e-300)",
                                 "homomorphism / star / norm / bit-exact round trip on random pairs"))
    for t in range(8 if tier == "quick" else 60):
        m, k, n = (int(x) for x in rng.integers(1, 5, size=3))
        A4 = rng.standard_normal((m, k, 4)) if t % 2 else rng.integers(-4, 5, size=(m, k, 4)).astype(float)
        B4 = rng.standard_normal((k, n, 4))
        if t % 4 == 3:
            A4[0, 0] = [-0.0, 1e300, 1e-300, -1e-300]
        for kind in ("real_expand", "Realp"):
            if t % 4 != 3:
                b2.case(f"{P}.bounded.random.{kind}", (kind, m, k, n, t), lambda kind=kind: _check_embed(kind, A4, B4), f"{kind} laws on a random pair", inputs={"A": A4, "B": B4})
        for kind in ("roundtrip", "A2A0123", "components"):
            b2.case(f"{P}.bounded.random.{kind}", (kind, m, k, t), lambda kind=kind: _check_embed(kind, A4), f"{kind} on random data", inputs={"A": A4})
        S4, T4 = rng.standard_normal((k, k, 4)), rng.standard_normal((k, k, 4))
        b2.case(f"{P}.bounded.random.adjoint", ("adjoint", k, t), lambda: _check_embed("adjoint", S4, T4), "adjoint laws on a random pair", inputs={"A": S4, "B": T4})
    b2.samples.append({"kind": "roundtrip", "entry": [-0.0, 1e300, 1e-300, -1e-300], "check": "bytes equal"})
    b2.done()
    b3 = rep.add_bounded(Bounded("mixed_component_dtypes", "Realp / A2A0123 round trip with component planes of different real dtypes (int64, float32, float64 in every position)",
                                 "identical to the result for the same values held as float64"))
    from .. import runtime as rt
    u = rt.real().utils
    for t, (m, n) in enumerate(((1, 1), (2, 3), (3, 2))):
        base = rng.integers(-3, 4, size=(m, n, 4)).astype(float) + 0.5 * rng.integers(0, 2, size=(m, n, 4))     # exactly representable in float32
        for pos in range(4):
            for dt in (np.int64, np.float32):
                def g(base=base, pos=pos, dt=dt):
                    planes = [base[..., c].copy() for c in range(4)]
                    planes[pos] = np.round(planes[pos]).astype(dt) if dt is np.int64 else planes[pos].astype(dt)
                    ref = [np.asarray(p_, dtype=np.float64) for p_ in planes]
                    got, want = u.Realp(*planes), u.Realp(*ref)
                    if got.shape != want.shape or not np.array_equal(np.asarray(got, dtype=np.float64), want):
                        return {"what": f"Realp with plane {pos} of dtype {np.dtype(dt).name} differs from the float64 result", "got": np.asarray(got, dtype=float), "want": want}
                    return None
                b3.case(f"{P}.bounded.mixed_dtypes.Realp", (t, pos, np.dtype(dt).name), g, f"Realp {m}x{n}, plane {pos} as {np.dtype(dt).name}", inputs={"A": base})
    b3.done()


def run(tier, seed):
    rep = Report(P, tier, seed, "proof")
    rep.assumptions += [
        "A1: floats as mathematical reals in the deductive obligations; the bit-for-bit clause is decided by term-level identity (only un-negated cells are read back) and by the byte comparison of the bounded stand-in",
        "A3: numpy basic-indexing / slice-assignment / np.zeros / np.array / as_float_array semantics as in qv/idx.py and qv/libmodel.py",
        "A5: block-matrix multiplication lifts the per-quaternion homomorphism of the interleaved layout to matrices (the component-blocked and adjoint layouts are proved at matrix level in the free algebra)",
    ]
    rep.trusted += ["qv engine (interp.py, idx.py, nc.py)", "z3 5.1", "library model", "Hamilton table in qv/spec.py"]
    deductive(rep, tier)
    bounded(rep, tier, seed)
    return rep


def replay(path):
    import json
    with open(path) as f:
        d = json.load(f)
    print(json.dumps({k: d[k] for k in ("property", "obligation", "text")}, indent=1))
    return run("quick", d.get("seed", 0)).finish()
