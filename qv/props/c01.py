"""C01 - the quaternion matrix product is the Hamilton product in every storage format.

Deductive part: the real ASTs of quat_matmat, SparseQuaternionMatrix.{__matmul__, dense_multiply,
sparse_multiply, left_multiply, conjugate, transpose}, timesQsparse, quat_hermitian,
quat_frobenius_norm are executed over the free *-algebra (matrix atoms of symbolic shape m x k, k x n)
and compared with the Hamilton spec generated from the multiplication table (qv/spec.py): valid for all
shapes and all entries.  Callers are checked against the callee contracts (dispatch paths).
Bounded stand-in: 16 basis-unit pairs x every entry position x 5 storage paths, shapes <= 3, exact
rational oracle."""
from __future__ import annotations

import itertools
import time
from fractions import Fraction

import numpy as np

from .. import nc as ncm
from .. import smt, spec
from ..core import Bounded, Obligation, Report, run_case
from ..nc import NC, Atom
from ..sym import SInt, SReal, SBool, cur, sand, ssqrt
from ..values import F4, HMat, Obj, QMat, RMat, fresh_hmat, fresh_qmat, fresh_rmat

P = "C01"
U = "quatica/utils.py::"
SQM = U + "SparseQuaternionMatrix."


# ---------------------------------------------------------------------------------------------------
# helpers shared with other property modules
def dims(ctx, *names):
    out = []
    for n in names:
        d = SInt.var(n)
        ctx.assume(d >= 1, base=True)
        out.append(d)
    return out


def sparse_cls(I):
    return I.module_env("quatica/utils.py")["SparseQuaternionMatrix"]


def mk_sparse(I, name, m, n):
    o = Obj(sparse_cls(I))
    for f, c in zip(("real", "i", "j", "k"), "wxyz"):
        o.fields[f] = fresh_rmat(name + c, m, n, storage="csr")
    o.fields["shape"] = (m, n)
    return o


def mk_sparse_from(I, comps, shape):
    o = Obj(sparse_cls(I))
    for f, c in zip(("real", "i", "j", "k"), comps):
        o.fields[f] = RMat(c.p, "csr")
    o.fields["shape"] = tuple(shape)
    return o


def comps_of(x):
    if isinstance(x, QMat):
        return x.c
    if isinstance(x, Obj):
        return [x.fields[f] for f in ("real", "i", "j", "k")]
    if isinstance(x, F4):
        return x.c
    raise TypeError(type(x))


def is_sparse_obj(x):
    return isinstance(x, Obj) and x.cls.name == "SparseQuaternionMatrix"


# contracts of the kernel functions (used at call sites instead of the bodies) -----------------------
def k_matmul(I, args, kwargs):
    a, b = args
    c = spec.ham_sym(comps_of(a), comps_of(b))
    if is_sparse_obj(a) and is_sparse_obj(b):
        return mk_sparse_from(I, c, (a.fields["shape"][0], b.fields["shape"][1]))
    return QMat([RMat(x.p, "dense") for x in c])


def k_left_multiply(I, args, kwargs):
    self, a = args  # result = A_dense @ self  (sparse)
    c = spec.ham_sym(comps_of(a), comps_of(self))
    return mk_sparse_from(I, c, (a.shape[0], self.fields["shape"][1]))


def k_conjugate(I, args, kwargs):
    (self,) = args
    c = comps_of(self)
    return mk_sparse_from(I, spec.conj4(c), self.fields["shape"])


def k_transpose(I, args, kwargs):
    (self,) = args
    c = comps_of(self)
    return mk_sparse_from(I, [x.T for x in c], (self.fields["shape"][1], self.fields["shape"][0]))


KERNEL_CONTRACTS = {
    SQM + "__matmul__": k_matmul,
    SQM + "sparse_multiply": k_matmul,
    SQM + "dense_multiply": k_matmul,
    SQM + "left_multiply": k_left_multiply,
    SQM + "conjugate": k_conjugate,
    SQM + "transpose": k_transpose,
}


def eq_comps(res, want, prefix=""):
    out = []
    rc = comps_of(res)
    for i, c in enumerate("wxyz"):
        out.append((prefix + c, rc[i].p, want[i].p))
    return out


def storage_clause(res, sparse):
    if sparse:
        ok = is_sparse_obj(res) and all(x.storage == "csr" for x in comps_of(res))
    else:
        ok = isinstance(res, QMat) and all(x.storage == "dense" for x in res.c)
    return ("storage", ok)


def shape_clause(res, r, c):
    sh = res.fields["shape"] if is_sparse_obj(res) else res.shape
    return ("shape", sand(sh[0] == r, sh[1] == c))


# ---------------------------------------------------------------------------------------------------
def deductive(rep: Report, tier):
    t_out = 10.0

    def two(I, ctx, akind, bkind):
        m, k, n = dims(ctx, "m", "k", "n")
        A = mk_sparse(I, "A", m, k) if akind == "s" else fresh_qmat("A", m, k)
        B = mk_sparse(I, "B", k, n) if bkind == "s" else fresh_qmat("B", k, n)
        return A, B, (m, k, n)

    def post_product(sparse_result, swap=False):
        def post(I, ctx, outcome, val, aux):
            A, B, (m, k, n) = aux
            if outcome != "return":
                return [("returns", False)]
            want = spec.ham_sym(comps_of(A), comps_of(B))
            return eq_comps(val, want) + [storage_clause(val, sparse_result), shape_clause(val, m, n), ("returns", True)]
        return post

    prod_clauses = ["w", "x", "y", "z", "storage", "shape", "returns"]

    # quat_matmat: dense body and the three dispatch paths (callees by contract)
    for name, ak, bk in (("dense", "d", "d"), ("sparse_sparse", "s", "s"), ("sparse_dense", "s", "d"), ("dense_sparse", "d", "s")):
        def setup(I, ctx, ak=ak, bk=bk):
            A, B, d = two(I, ctx, ak, bk)
            return [A, B], {}, (A, B, d)
        run_case(rep, P, U + "quat_matmat", name, setup, post_product(ak == "s" and bk == "s" or (ak == "d" and bk == "s")),
                 contracts=KERNEL_CONTRACTS, clauses=prod_clauses, replay=replay_product(name))

    # __matmul__ dispatch (callees sparse_multiply / dense_multiply by contract)
    for name, bk in (("to_sparse", "s"), ("to_dense", "d")):
        def setup(I, ctx, bk=bk):
            A, B, d = two(I, ctx, "s", bk)
            return [A, B], {}, (A, B, d)
        run_case(rep, P, SQM + "__matmul__", name, setup, post_product(bk == "s"), contracts=KERNEL_CONTRACTS,
                 clauses=prod_clauses, replay=replay_product("sparse_sparse" if bk == "s" else "sparse_dense"))

    def setup_bad(I, ctx):
        A, B, d = two(I, ctx, "s", "s")
        return [A, Fraction(3)], {}, (A, B, d)
    run_case(rep, P, SQM + "__matmul__", "unsupported_type", setup_bad,
             lambda I, ctx, outcome, val, aux: [("raises_TypeError", outcome == "raise" and val.exc_type == "TypeError")],
             contracts=KERNEL_CONTRACTS, clauses=["raises_TypeError"])

    # bodies of the sparse kernels
    def setup_sd(I, ctx):
        A, B, d = two(I, ctx, "s", "d")
        return [A, B], {}, (A, B, d)
    run_case(rep, P, SQM + "dense_multiply", "", setup_sd, post_product(False), clauses=prod_clauses,
             replay=replay_product("sparse_dense"))

    def setup_ss(I, ctx):
        A, B, d = two(I, ctx, "s", "s")
        return [A, B], {}, (A, B, d)
    run_case(rep, P, SQM + "sparse_multiply", "", setup_ss, post_product(True), clauses=prod_clauses,
             replay=replay_product("sparse_sparse"))

    # left_multiply(self, A_dense) = A_dense @ self  (order!), callee __matmul__ by contract
    def setup_lm(I, ctx):
        A, B, d = two(I, ctx, "d", "s")
        return [B, A], {}, (A, B, d)
    run_case(rep, P, SQM + "left_multiply", "order", setup_lm, post_product(True), contracts=KERNEL_CONTRACTS,
             clauses=prod_clauses, replay=replay_product("dense_sparse"))

    # conjugate / transpose / quat_hermitian
    def setup_one_sparse(I, ctx):
        m, n = dims(ctx, "m", "n")
        A = mk_sparse(I, "A", m, n)
        return [A], {}, (A, m, n)

    def post_conj(I, ctx, outcome, val, aux):
        A, m, n = aux
        if outcome != "return":
            return [("returns", False)]
        return eq_comps(val, spec.conj4(comps_of(A))) + [storage_clause(val, True), shape_clause(val, m, n), ("returns", True)]
    run_case(rep, P, SQM + "conjugate", "", setup_one_sparse, post_conj, clauses=prod_clauses, replay=replay_herm("sparse"))

    def post_tr(I, ctx, outcome, val, aux):
        A, m, n = aux
        if outcome != "return":
            return [("returns", False)]
        return eq_comps(val, [x.T for x in comps_of(A)]) + [storage_clause(val, True), shape_clause(val, n, m), ("returns", True)]
    run_case(rep, P, SQM + "transpose", "", setup_one_sparse, post_tr, clauses=prod_clauses, replay=replay_herm("sparse"))

    def post_herm(sparse):
        def post(I, ctx, outcome, val, aux):
            A, m, n = aux
            if outcome != "return":
                return [("returns", False)]
            return eq_comps(val, spec.herm_sym(comps_of(A))) + [storage_clause(val, sparse), shape_clause(val, n, m), ("returns", True)]
        return post
    run_case(rep, P, U + "quat_hermitian", "sparse", setup_one_sparse, post_herm(True), contracts=KERNEL_CONTRACTS,
             clauses=prod_clauses, replay=replay_herm("sparse"))

    def setup_one_dense(I, ctx):
        m, n = dims(ctx, "m", "n")
        A = fresh_qmat("A", m, n)
        return [A], {}, (A, m, n)
    run_case(rep, P, U + "quat_hermitian", "dense", setup_one_dense, post_herm(False), clauses=prod_clauses,
             replay=replay_herm("dense"))

    # Frobenius norm: dense and sparse equal sqrt(sum_c sumsq(A_c)); format agreement follows
    def post_fro(I, ctx, outcome, val, aux):
        A, m, n = aux
        if outcome != "return":
            return [("returns", False)]
        tot = Fraction(0)
        for c in comps_of(A):
            tot = tot + ncm.fro2(c.p)
        want = ssqrt(tot)
        return [("spec", val == want), ("returns", True)]
    run_case(rep, P, U + "quat_frobenius_norm", "dense", setup_one_dense, post_fro, clauses=["spec", "returns"], replay=replay_fro)
    run_case(rep, P, U + "quat_frobenius_norm", "sparse", setup_one_sparse, post_fro, clauses=["spec", "returns"], replay=replay_fro)

    # timesQsparse: component kernel, output order (A0,A1,A2,A3); dense/csr operands and real-scalar operands
    def post_times(I, ctx, outcome, val, aux):
        Bc, Cc = aux
        if outcome != "return":
            return [("returns", False)]
        if all(isinstance(x, RMat) for x in Bc) and all(isinstance(x, RMat) for x in Cc):
            want = spec.ham_sym(Bc, Cc)
        else:
            want = spec.hamilton(Bc, Cc, lambda x, y: x * y if not (isinstance(x, RMat) and isinstance(y, RMat)) else x @ y)
        out = [("tuple4", isinstance(val, tuple) and len(val) == 4), ("returns", True)]
        for i in range(4):
            if isinstance(want[i], RMat):
                out.append((f"A{i}", val[i].p, want[i].p))
                out.append((f"A{i}.dense", val[i].storage == "dense"))
            else:
                out.append((f"A{i}", val[i] == want[i]))
        return out

    tclauses = ["tuple4", "returns"] + [f"A{i}" for i in range(4)]
    for name, bs, cs in (("mm", "dense", "dense"), ("csr_dense", "csr", "dense"), ("dense_csr", "dense", "csr"), ("csr_csr", "csr", "csr")):
        def setup(I, ctx, bs=bs, cs=cs):
            m, k, n = dims(ctx, "m", "k", "n")
            Bc = [fresh_rmat(f"B{i}", m, k, storage=bs) for i in range(4)]
            Cc = [fresh_rmat(f"C{i}", k, n, storage=cs) for i in range(4)]
            return Bc + Cc, {}, (Bc, Cc)
        run_case(rep, P, U + "timesQsparse", name, setup, post_times, clauses=tclauses, replay=replay_times(name))
    for name, which in (("scalar_left", 0), ("scalar_right", 1)):
        def setup(I, ctx, which=which):
            m, n = dims(ctx, "m", "n")
            sc = lambda nm: [SReal.var(f"{nm}{i}") for i in range(4)]
            mt = lambda nm: [fresh_rmat(f"{nm}{i}", m, n) for i in range(4)]
            Bc = sc("b") if which in (0, 2) else mt("B")
            Cc = sc("c") if which in (1, 2) else mt("C")
            return Bc + Cc, {}, (Bc, Cc)
        run_case(rep, P, U + "timesQsparse", name, setup, post_times, clauses=tclauses, replay=replay_times(name),
                 site_obligations=True)

    lemmas(rep)
    lean_anchor(rep)
    canaries(rep)


def lean_anchor(rep: Report):
    """The spec's multiplication table, conjugation and squared modulus are checked by the Lean kernel against Mathlib's
    Quaternion (generated file; independent of /repo).  Lean missing or timing out = undecided, never an alarm."""
    from .. import leanspec
    import os
    st, detail, secs, canary_ok = leanspec.check(os.path.join(os.path.dirname(os.path.dirname(os.path.dirname(os.path.abspath(__file__)))), "out", "lean"))
    status = {"proved": smt.PROVED, "refuted": smt.REFUTED, "undecided": smt.UNDECIDED}[st]
    rep.add(Obligation(f"{P}.spec.lean.table_conj_normsq_agree_with_mathlib", "qv/spec.py (IDX, SIGN, conj4)", "all-shapes", status, "lean4.33+mathlib", secs,
                       None if status == smt.PROVED else {"lean_output": detail[-800:]}, kind="lemma"))
    if canary_ok is not None:
        rep.canary("C01.canary.lean_rejects_wrong_table", canary_ok, "i*j = -k must not type-check")
    rep.assumptions.append("spec table anchored to Mathlib's Quaternion by the Lean kernel on this run" if status == smt.PROVED else
                           "spec table NOT anchored on this run (Lean unavailable): trusted, cross-checked only against numpy-quaternion on basis pairs")


def lemmas(rep: Report):
    """Lemmas over the spec functions (no code involved): they make the contracts usable by callers."""
    from ..sym import Ctx
    t0 = time.time()
    with Ctx("C01.lemmas") as ctx:
        ncm.reset_atoms()
        m, k, n, l = dims(ctx, "m", "k", "n", "l")
        A = [fresh_rmat("A" + c, m, k).p for c in "wxyz"]
        B = [fresh_rmat("B" + c, k, n).p for c in "wxyz"]
        C = [fresh_rmat("C" + c, n, l).p for c in "wxyz"]
        ham = lambda X, Y: spec.ham_sym(X, Y)
        herm = spec.herm_sym

        def eq4(id, X, Y):
            st_all, be_all, secs, det = smt.PROVED, "normal-form", 0.0, None
            for i in range(4):
                st, be, sc, d = ncm.nc_equal_obligation(X[i], Y[i], ctx.hyps())
                secs += sc
                if st != smt.PROVED:
                    st_all, det = st, d
            rep.add(Obligation(f"{P}.lemma.{id}", "spec", "all-shapes", st_all, be_all, secs, det, kind="lemma"))
        eq4("herm.involution", herm(herm(A)), A)
        eq4("herm.antihom", herm(ham(A, B)), ham(herm(B), herm(A)))
        eq4("ham.assoc", ham(ham(A, B), C), ham(A, ham(B, C)))
        eq4("ham.distrib_left", ham([a + a2 for a, a2 in zip(A, [fresh_rmat("D" + c, m, k).p for c in "wxyz"])], B),
            [x + y for x, y in zip(ham(A, B), ham([ncm.NC.atom(ncm.ATOMS["D" + c]) for c in "wxyz"], B))])
        # fro2(A) = Re tr(A^H A): w-component of ham(herm A, A) has trace sum_c fro2(A_c)
        w = ham(herm(A), A)[0]
        lhs = ncm.trace(w)
        rhs = Fraction(0)
        for c in A:
            rhs = rhs + ncm.fro2(c)
        v = smt.prove(ctx.hyps(), SReal.lift(lhs) == SReal.lift(rhs), 10)
        rep.add(Obligation(f"{P}.lemma.fro2_is_retrace", "spec", "all-shapes", v.status, v.backend, v.secs, v.model, kind="lemma"))
        # herm-invariance of the norm: sumsq(X^T) = sumsq(X), sumsq(-X) = sumsq(X)
        hA = herm(A)
        lhs = Fraction(0)
        for c in hA:
            lhs = lhs + ncm.fro2(c)
        v = smt.prove(ctx.hyps(), SReal.lift(lhs) == SReal.lift(rhs), 10)
        rep.add(Obligation(f"{P}.lemma.fro.herm_invariant", "spec", "all-shapes", v.status, v.backend, v.secs, v.model, kind="lemma"))
        # unitary invariance in the abstract algebra (uses antihom + assoc + fro2 = Re tr(X^H X), proved above)
        Q = fresh_hmat("Q", l, m, kind="orthcols").p
        X = fresh_hmat("X", m, k).p
        v = smt.prove(ctx.hyps(), SReal.lift(ncm.fro2(Q @ X)) == SReal.lift(ncm.fro2(X)), 10)
        rep.add(Obligation(f"{P}.lemma.fro.unitary_invariant.left", "spec", "all-shapes", v.status, v.backend, v.secs, v.model, kind="lemma"))
        W = fresh_hmat("W", k, k, kind="orth").p
        v = smt.prove(ctx.hyps(), SReal.lift(ncm.fro2(X @ W)) == SReal.lift(ncm.fro2(X)), 10)
        rep.add(Obligation(f"{P}.lemma.fro.unitary_invariant.right", "spec", "all-shapes", v.status, v.backend, v.secs, v.model, kind="lemma"))
    rep.solver_secs += time.time() - t0


def canaries(rep: Report):
    """Deliberately wrong specs must be refuted by the same machinery."""
    from ..sym import Ctx
    with Ctx("C01.canaries") as ctx:
        ncm.reset_atoms()
        m, k, n = dims(ctx, "m", "k", "n")
        A = [fresh_rmat("A" + c, m, k).p for c in "wxyz"]
        B = [fresh_rmat("B" + c, k, n).p for c in "wxyz"]
        good = spec.ham_sym(A, B)
        swapped = spec.ham_sym(B, A) if False else None
        # sign flip in one of the 16 terms
        bad = list(good)
        bad[2] = bad[2] - (A[1] @ B[3]).scale(-2)   # flips the sign of Ax@Bz in the j component
        st, _, _, _ = ncm.nc_equal_obligation(good[2], bad[2], ctx.hyps())
        rep.canary("C01.canary.signflip_j", st == smt.REFUTED)
        # commutativity must not be provable
        Bk = [fresh_rmat("E" + c, k, k).p for c in "wxyz"]
        Ak = [fresh_rmat("F" + c, k, k).p for c in "wxyz"]
        st, _, _, _ = ncm.nc_equal_obligation(spec.ham_sym(Ak, Bk)[1], spec.ham_sym(Bk, Ak)[1], ctx.hyps())
        rep.canary("C01.canary.commutative", st == smt.REFUTED)
        # transposition without reversal
        st, _, _, _ = ncm.nc_equal_obligation((Ak[0] @ Bk[0]).T, Ak[0].T @ Bk[0].T, ctx.hyps())
        rep.canary("C01.canary.transpose_no_reverse", st == smt.REFUTED)


# ---------------------------------------------------------------------------------------------------
# concrete side: bounded stand-in and replay on the real code
def _real_product(path, A4, B4):
    from .. import runtime as rt
    r = rt.real()
    u = r.utils
    if path == "dense":
        return rt.q_to4(u.quat_matmat(rt.q_from4(A4), rt.q_from4(B4)))
    if path == "sparse_sparse":
        return rt.any_to4(u.quat_matmat(rt.sparse_from4(A4), rt.sparse_from4(B4)))
    if path == "sparse_dense":
        return rt.any_to4(u.quat_matmat(rt.sparse_from4(A4), rt.q_from4(B4)))
    if path == "dense_sparse":
        return rt.any_to4(u.quat_matmat(rt.q_from4(A4), rt.sparse_from4(B4)))
    if path == "component":
        A = [A4[..., i].copy() for i in range(4)]
        B = [B4[..., i].copy() for i in range(4)]
        out = u.timesQsparse(*A, *B)
        return np.stack(out, axis=-1)
    if path == "component_csr":
        from scipy import sparse
        A = [sparse.csr_matrix(A4[..., i]) for i in range(4)]
        B = [sparse.csr_matrix(B4[..., i]) for i in range(4)]
        out = u.timesQsparse(*A, *B)
        return np.stack([np.asarray(o) for o in out], axis=-1)
    raise ValueError(path)


def _exact(A4, B4):
    A = [[tuple(Fraction(float(x)) for x in A4[i, j]) for j in range(A4.shape[1])] for i in range(A4.shape[0])]
    B = [[tuple(Fraction(float(x)) for x in B4[i, j]) for j in range(B4.shape[1])] for i in range(B4.shape[0])]
    C = spec.ham_exact(A, B)
    return np.array([[[float(x) for x in C[i][j]] for j in range(len(C[0]))] for i in range(len(C))]).reshape(A4.shape[0], B4.shape[1], 4)


def replay_product(path):
    def rp(seed):
        rng = np.random.default_rng(seed)
        for (m, k, n) in ((2, 3, 2), (1, 2, 3), (3, 1, 1)):
            A4 = rng.integers(-3, 4, size=(m, k, 4)).astype(float)
            B4 = rng.integers(-3, 4, size=(k, n, 4)).astype(float)
            got = _real_product(path, A4, B4)
            want = _exact(A4, B4)
            if got.shape != want.shape or not np.array_equal(got, want):
                return {"failed": True, "path": path, "A": A4, "B": B4, "got": got, "want": want}
        return {"failed": False, "path": path}
    return rp


def replay_times(name):
    def rp(seed):
        from .. import runtime as rt
        u = rt.real().utils
        rng = np.random.default_rng(seed)
        if name.startswith("scalar"):
            m, n = 2, 3
            b = rng.integers(-3, 4, size=4).astype(float)
            C4 = rng.integers(-3, 4, size=(m, n, 4)).astype(float)
            if name == "scalar_left":
                got = np.stack(u.timesQsparse(*[float(x) for x in b], *[C4[..., i] for i in range(4)]), axis=-1)
                want = _exact(np.broadcast_to(b, (m, 1, 4)) * 0 + b.reshape(1, 1, 4), C4[:1]) if False else None
                Bm = np.zeros((m, m, 4))
                for i in range(m):
                    Bm[i, i] = b
                want = _exact(Bm, C4)
            elif name == "scalar_right":
                got = np.stack(u.timesQsparse(*[C4[..., i] for i in range(4)], *[float(x) for x in b]), axis=-1)
                Bm = np.zeros((n, n, 4))
                for i in range(n):
                    Bm[i, i] = b
                want = _exact(C4, Bm)
            else:
                c = rng.integers(-3, 4, size=4).astype(float)
                got = np.array(u.timesQsparse(*[float(x) for x in b], *[float(x) for x in c]), dtype=float).reshape(1, 1, 4)
                want = _exact(b.reshape(1, 1, 4), c.reshape(1, 1, 4))
            if not np.array_equal(np.asarray(got, dtype=float), want):
                return {"failed": True, "case": name, "got": got, "want": want}
            return {"failed": False}
        path = "component" if name == "mm" else "component_csr"
        return replay_product(path)(seed)
    return rp


def replay_herm(kind):
    def rp(seed):
        from .. import runtime as rt
        u = rt.real().utils
        rng = np.random.default_rng(seed)
        A4 = rng.integers(-3, 4, size=(2, 3, 4)).astype(float)
        X = rt.sparse_from4(A4) if kind == "sparse" else rt.q_from4(A4)
        got = rt.any_to4(u.quat_hermitian(X))
        want = rt.qH(A4)
        if got.shape != want.shape or not np.array_equal(got, want):
            return {"failed": True, "A": A4, "got": got, "want": want}
        return {"failed": False}
    return rp


def replay_fro(seed):
    from .. import runtime as rt
    u = rt.real().utils
    rng = np.random.default_rng(seed)
    A4 = rng.integers(-3, 4, size=(3, 2, 4)).astype(float)
    want = float(np.sqrt(np.sum(A4 ** 2)))
    for X in (rt.q_from4(A4), rt.sparse_from4(A4)):
        got = float(u.quat_frobenius_norm(X))
        if not (abs(got - want) <= 1e-12 * max(1, want)):
            return {"failed": True, "A": A4, "got": got, "want": want}
    return {"failed": False}


def bounded(rep: Report, tier, seed):
    """All 16 basis-unit pairs at every entry position, shapes <= bound, 6 storage paths, exact oracle."""
    from .. import runtime as rt
    u = rt.real().utils
    maxdim = 2 if tier == "quick" else 3
    b = rep.add_bounded(Bounded("basis_units", f"m,k,n <= {maxdim}; 16 unit pairs; every position; 6 storage paths",
                                "basis units e_a at (i,l) times e_b at (l',j); non-trivial = product non-zero (l == l'); distinct by (shape, positions, a, b, path)"))
    paths = ["dense", "sparse_sparse", "sparse_dense", "dense_sparse", "component", "component_csr"]
    shapes = [(m, k, n) for m in range(1, maxdim + 1) for k in range(1, maxdim + 1) for n in range(1, maxdim + 1)]

    def cmp_exact(p, A4, B4, want, tol=None):
        def f():
            got = _real_product(p, A4, B4)
            if got.shape != want.shape:
                return {"got_shape": got.shape, "want_shape": want.shape}
            ok = np.array_equal(got, want) if tol is None else np.all(np.abs(got - want) <= tol)
            return None if ok else {"got": got, "want": want}
        return f

    for (m, k, n) in shapes:
        for i, l, l2, j in itertools.product(range(m), range(k), range(k), range(n)):
            if tier == "quick" and l != l2 and (i + j + l) % 2:
                continue
            for a in range(4):
                for bb in range(4):
                    A4 = np.zeros((m, k, 4))
                    B4 = np.zeros((k, n, 4))
                    A4[i, l, a] = 1.0
                    B4[l2, j, bb] = 1.0
                    want = np.zeros((m, n, 4))
                    if l == l2:
                        want[i, j, spec.IDX[a][bb]] = spec.SIGN[a][bb]
                    for p in paths:
                        b.case(f"{P}.bounded.basis.{p}", (m, k, n, i, l, l2, j, a, bb, p), cmp_exact(p, A4, B4, want),
                               f"basis product e{a}@({i},{l}) * e{bb}@({l2},{j}) wrong on storage path {p}", nontrivial=(l == l2),
                               inputs={"A": A4, "B": B4})
    b.samples.append({"shape": [2, 2, 2], "A": "e_i at (0,1)", "B": "e_j at (1,0)", "expected": "e_k at (0,0)", "paths": paths})
    b.done()
    # entry patterns incl. huge/tiny magnitudes, pure-imaginary, single-axis, vectors, against the exact oracle
    rng = np.random.default_rng(seed)
    b2 = rep.add_bounded(Bounded("entry_patterns", "shapes <= 4 incl. vectors/1x1; patterns integer, pure-imaginary, single-axis, zeros, 1e+-150, generic",
                                 "random draws per pattern compared with exact rational Hamilton oracle; tolerance 16*eps*k*|A||B| entrywise"))
    pats = ["int", "imag", "axis", "zero", "huge", "tiny", "generic"]
    nrep = 2 if tier == "quick" else 8
    for pat in pats:
        for (m, k, n) in ((1, 1, 1), (1, 3, 1), (3, 1, 2), (2, 4, 3), (4, 2, 1)):
            for _ in range(nrep):
                A4, B4 = _pattern(rng, pat, m, k), _pattern(rng, pat, k, n)
                want = _exact(A4, B4)
                bound = 16 * np.finfo(float).eps * k * (np.abs(A4).sum(axis=-1) @ np.abs(B4).sum(axis=-1))[..., None] + 1e-300
                for p in paths:
                    b2.case(f"{P}.bounded.pattern.{p}", (pat, m, k, n, p, float(A4.sum()), float(B4.sum())), cmp_exact(p, A4, B4, want, bound),
                            f"pattern {pat} {m}x{k}x{n} on storage path {p} deviates from the exact Hamilton product", inputs={"A": A4, "B": B4})
    b2.samples.append({"pattern": "huge", "shape": [2, 4, 3], "scale": 1e150})
    b2.done()
    # norm laws sampled: format agreement, herm invariance, unitary invariance, sub-multiplicativity; (AB)^H = B^H A^H
    b3 = rep.add_bounded(Bounded("norm_and_star_laws", "shapes <= 4, random entries", "||A||_F dense == sparse == definition; ||A^H||=||A||; ||QA||=||A|| for harness-built unitary Q; ||AB||<=||A||||B||; (AB)^H=B^H A^H on all storage mixes"))
    for _ in range(10 if tier == "quick" else 60):
        m, k, n = (int(x) for x in rng.integers(1, 5, size=3))
        A4, B4 = rng.standard_normal((m, k, 4)), rng.standard_normal((k, n, 4))
        A4 = A4 * [1.0, 1e-20, 1e-100, 1e+100, 1e-17][_ % 5]     # magnitudes far from 1 (squares still representable)
        fa = rt.fro(A4)

        def f():
            vals = [float(u.quat_frobenius_norm(rt.q_from4(A4))), float(u.quat_frobenius_norm(rt.sparse_from4(A4))),
                    float(u.quat_frobenius_norm(u.quat_hermitian(rt.q_from4(A4)))), float(u.quat_frobenius_norm(u.quat_hermitian(rt.sparse_from4(A4))))]
            Q = rt.gram_schmidt_unitary(rng, m)
            vals.append(float(u.quat_frobenius_norm(u.quat_matmat(rt.q_from4(Q), rt.q_from4(A4)))))
            ab = float(u.quat_frobenius_norm(u.quat_matmat(rt.q_from4(A4), rt.q_from4(B4))))
            ok = all(abs(v - fa) <= 1e-12 * fa for v in vals) and ab <= fa * rt.fro(B4) * (1 + 1e-12)
            for mk1, mk2 in ((rt.q_from4, rt.q_from4), (rt.sparse_from4, rt.sparse_from4), (rt.sparse_from4, rt.q_from4), (rt.q_from4, rt.sparse_from4)):
                lhs = rt.any_to4(u.quat_hermitian(u.quat_matmat(mk1(A4), mk2(B4))))
                rhs = rt.any_to4(u.quat_matmat(u.quat_hermitian(mk2(B4)), u.quat_hermitian(mk1(A4))))
                hh = rt.any_to4(u.quat_hermitian(u.quat_hermitian(mk1(A4))))
                ok = ok and np.allclose(lhs, rhs, rtol=0, atol=1e-12 * fa * rt.fro(B4)) and np.array_equal(hh, A4)
            return None if ok else {"vals": vals, "ab": ab, "fro": fa}
        b3.case(f"{P}.bounded.norm_and_star_laws", (m, k, n, round(fa, 9)), f, "Frobenius-norm / conjugate-transpose law violated", inputs={"A": A4, "B": B4})
    b3.samples.append({"check": "||QA||_F == ||A||_F", "Q": "Gram-Schmidt unitary built in the harness"})
    b3.done()


def _pattern(rng, pat, m, n):
    if pat == "int":
        return rng.integers(-5, 6, size=(m, n, 4)).astype(float)
    if pat == "imag":
        X = rng.integers(-5, 6, size=(m, n, 4)).astype(float)
        X[..., 0] = 0
        return X
    if pat == "axis":
        X = np.zeros((m, n, 4))
        X[..., int(rng.integers(0, 4))] = rng.integers(-5, 6, size=(m, n))
        return X
    if pat == "zero":
        X = rng.integers(-2, 3, size=(m, n, 4)).astype(float)
        X[rng.random((m, n)) < 0.6] = 0
        return X
    if pat == "huge":
        return rng.integers(-5, 6, size=(m, n, 4)).astype(float) * 1e150
    if pat == "tiny":
        return rng.integers(-5, 6, size=(m, n, 4)).astype(float) * 1e-150
    return rng.standard_normal((m, n, 4))


def run(tier, seed):
    rep = Report(P, tier, seed, "proof")
    rep.assumptions += [
        "A1: floats are modelled as mathematical reals in all deductive obligations (rounding only in the bounded stand-in)",
        "A3: numpy/scipy.sparse '@', '+', '-', '.T', np.stack, as_float_array/as_quat_array layout, csr<->dense conversions behave as axiomatised in qv/libmodel.py (conformance-tested in the bounded run)",
        "sub-multiplicativity of the Frobenius norm is a cited lemma (Cauchy-Schwarz) once the product equals the definition; sampled only",
    ]
    rep.trusted += ["qv engine (interp.py, nc.py normal forms)", "z3 5.1", "library model qv/libmodel.py", "Hamilton table in qv/spec.py (anchored by spec/Spec.lean against Mathlib)"]
    deductive(rep, tier)
    bounded(rep, tier, seed)
    return rep


def replay(path):
    import json
    with open(path) as f:
        d = json.load(f)
    print(json.dumps({k: d[k] for k in ("property", "obligation", "text")}, indent=1))
    rep = run("quick", d.get("seed", 0))
    return rep.finish()
