"""C10 - every Schur variant preserves the unitary similarity A = Q T Q^H.

Deductive part:
  rows.spec / cols.spec   the in-place kernels apply_left_rows / apply_right_cols (nested in the unified and the
                          experimental variant) equal left multiplication by the embedded 2x2 block, resp. right
                          multiplication by its conjugate transpose - index level, all n, all s;
  step.similarity         free-algebra lemmas for the three update patterns used by the variants:
                          (H, Q) -> (E H E^H, Q E^H),  explicit QR step with shift,  composition with the
                          Hessenberg reduction:  Q' T' Q'^H = Q T Q^H whenever the factor is unitary;
  flag.sound.<variant>    for every variant: whatever state the iteration leaves (loop replaced by an arbitrary
                          state of all variables it may modify), diagnostics['converged'] = True implies that every
                          entry strictly below the diagonal of the returned T has modulus <= tol; the returned Q is
                          P0^H Q_accum and T is the final iterate; guards; n = 0.
  iteration               ALL FIVE variants through their whole iteration, every n, budget, shift and exit - quaternion_schur_pure,
                          quaternion_schur_pure_implicit, quaternion_schur_unified (aed, ds; scheduled and trailing shifts),
                          quaternion_schur_experimental (aed_windowed, francis_ds) and the real-expansion variant quaternion_schur
                          (rayleigh, wilkinson, double): matrix-level loop invariants in the free algebra (Q_accum unitary;
                          Q_accum^H (P0 A P0^H) Q_accum - H = D, where D collects the rotated deflation / clean-up zeroings; inner sweeps:
                          Q_iter unitary, R_work = Q_iter (H - sigma I), resp. H = W H_s W^H, Q_accum = Q_s W^H, resp. for the real
                          4n x 4n representation HRs = real_expand(W^H X W), Qk = real_expand(W)); the in-place row / column kernels by
                          their rows.spec / cols.spec contracts, the 8 x 8 real block updates through C02's homomorphism and the layout
                          obligation P8^T Realp(M) P8 = real_expand(M) (P8.layout, index level, real code on symbolic components);
                          the shift loops of the pure variant enter through closed forms discharged at index level (entry_loops).
                          Result: Q unitary and Q^H A Q - T = D exactly on every exit; that every zeroed entry passed the variant's own
                          deflation test (so D is made of entries below the tolerance-scaled thresholds) is proved at index level for
                          all five variants (entry_loops: ghost predicates defined row by row with the code's own expressions).
Convergence (that the budget suffices, which shifts work) is not a contract-level property; the bounded stand-in runs every variant x shift x
budget (0, 1, 2, 5, default) on n <= 5 (6) matrix classes."""
from __future__ import annotations

import ast
import itertools
from fractions import Fraction

import numpy as np
import z3

from .. import idx as ix
from .. import nc as ncm
from .. import smt
from ..interp import LoopRule
from ..core import Bounded, Obligation, Report, run_case
from ..interp import Interp
from ..libmodel import Library
from ..nc import NC, Atom
from ..rules import HavocAll
from ..sym import Ctx, OutOfReach, SInt, SReal, SBool, cur, sand, smax, snot, sor, ssqrt
from ..values import FuncVal, SymList, Opaque
from .c01 import dims

P = "C10"
SC = "quatica/decomp/schur.py::"
HB = "quatica/decomp/hessenberg.py::"
U = "quatica/utils.py::"
VARIANTS = ["quaternion_schur", "quaternion_schur_pure", "quaternion_schur_pure_implicit", "quaternion_schur_unified", "quaternion_schur_experimental"]


def nested(rep, outer, name):
    m, node = rep.repo.function(SC + outer)
    for n in ast.walk(node):
        if isinstance(n, ast.FunctionDef) and n.name == name and n is not node:
            return FuncVal(m, n, f"{SC}{outer}.<{name}>")
    raise KeyError(f"{outer}.{name}")


def k_herm(I, args, kwargs):
    return args[0].conj().transpose()


def fresh_q(name, shape):
    return ix.input_array(cur().fresh_name(name), list(shape), quat=True)


def deductive(rep: Report, tier):
    # ------------------------------------------------------------------ row / column kernels
    for outer in ("quaternion_schur_unified", "quaternion_schur_experimental"):
        rep.function(SC + outer)
        for kern in ("apply_left_rows", "apply_right_cols"):
            def setup(I, ctx, outer=outer, kern=kern):
                n, c_ = dims(ctx, "n", "c")
                s = SInt.var("s")
                if kern == "apply_left_rows":
                    ctx.assume(sand(s >= 0, s + 1 < n), base=True)
                    M = ix.input_array("M", [n, c_], quat=True)
                else:
                    ctx.assume(sand(s >= 0, s + 1 < c_), base=True)
                    M = ix.input_array("M", [n, c_], quat=True)
                B = ix.input_array("B", [2, 2], quat=True)
                M0 = M.copy()
                return [M, s, B], {}, (M, M0, s, B, n, c_)

            def post(I, ctx, outcome, val, aux, kern=kern):
                M, M0, s, B, n, c_ = aux
                if outcome != "return":
                    return [("returns", False)]
                (i, j) = ix.fresh_indices(ctx, [n, c_])
                if kern == "apply_left_rows":
                    want = ix.ite(i == s, B.at(0, 0) * M0.at(s, j) + B.at(0, 1) * M0.at(s + 1, j),
                                  ix.ite(i == s + 1, B.at(1, 0) * M0.at(s, j) + B.at(1, 1) * M0.at(s + 1, j), M0.at(i, j)))
                    nm = "left_multiplication_by_embedded_block"
                else:
                    # M E^H with (E^H)[s..s+1, s..s+1] = B^H : column s gets M[:,s] conj(B00) + M[:,s+1] conj(B01)
                    want = ix.ite(j == s, M0.at(i, s) * B.at(0, 0).conj() + M0.at(i, s + 1) * B.at(0, 1).conj(),
                                  ix.ite(j == s + 1, M0.at(i, s) * B.at(1, 0).conj() + M0.at(i, s + 1) * B.at(1, 1).conj(), M0.at(i, j)))
                    nm = "right_multiplication_by_embedded_block_hermitian"
                return [("returns", True), (nm, M.at(i, j) == want)]

            def runner(kern=kern, outer=outer, setup=setup, post=post):
                fv = nested(rep, outer, kern)
                # run_case works on qualified names: wrap by a contract-free direct call
                from ..core import Case
                from ..sym import explore
                ctx = Ctx(f"{outer}.{kern}")
                res = {}
                err = None
                try:
                    with ctx:
                        def run():
                            I = Interp(rep.repo, Library("idx"), {U + "quat_hermitian": k_herm}, {})
                            args, kw, aux = setup(I, ctx)
                            run.aux = aux
                            return I.call(fv, args, kw, top=True)
                        for (n_, outcome, val, hyps, eff, gh, unc) in explore(ctx, run, 8):
                            if outcome == "abort":
                                continue
                            ctx.path_hyps = hyps
                            for item in post(None, ctx, outcome, val, run.aux):
                                cl = item[0]
                                z = item[1]
                                if isinstance(z, bool):
                                    st = smt.PROVED if z else smt.REFUTED
                                    det = None
                                else:
                                    v = smt.prove(ctx.hyps(), z.z if isinstance(z, SBool) else z, 30)
                                    st, det = v.status, v.model
                                res.setdefault(cl, []).append((st, det))
                except OutOfReach as e:
                    err = f"out of reach: {e}"
                except Exception as e:
                    err = f"engine exception: {type(e).__name__}: {e}"
                for cl in ("returns", "left_multiplication_by_embedded_block" if kern == "apply_left_rows" else "right_multiplication_by_embedded_block_hermitian"):
                    recs = res.get(cl, [])
                    if err or not recs:
                        st, det = smt.UNDECIDED, err or "no path"
                    else:
                        st = smt.PROVED
                        det = None
                        for s_, d_ in recs:
                            if s_ != smt.PROVED:
                                st, det = s_, d_
                    rep.add(Obligation(f"{P}.{outer}.{kern}.{cl}", SC + outer, "all-shapes", st, "z3-5.1(api)", 0.0, det, replay=replay_variants))
            runner()

    # ------------------------------------------------------------------ similarity lemmas (free algebra)
    with Ctx("C10.lemmas") as ctx:
        ncm.reset_atoms()
        (n,) = dims(ctx, "n")
        Q = NC.atom(Atom("Q", n, n, "orth", alg="H"))
        E = NC.atom(Atom("E", n, n, "orth", alg="H"))
        P0 = NC.atom(Atom("P0", n, n, "orth", alg="H"))
        T = NC.atom(Atom("T", n, n, "gen", alg="H"))
        A = NC.atom(Atom("A", n, n, "gen", alg="H"))
        sg = SReal.var("sigma")

        def lem(id, a, b):
            st, be, sc, det = ncm.nc_equal_obligation(a, b, ctx.hyps())
            rep.add(Obligation(f"{P}.lemma.{id}", "spec", "all-shapes", st, be, sc, det, kind="lemma"))
        # implicit sweeps: H' = E H E^H, Q' = Q E^H
        T2, Q2 = E @ T @ E.star, Q @ E.star
        lem("step.similarity.two_sided", Q2 @ T2 @ Q2.star, Q @ T @ Q.star)
        lem("step.unitary.two_sided", Q2.star @ Q2, NC.eye(n))
        # explicit QR step with shift: R = Qi (T - sigma I), T' = R Qi^H + sigma I, Q' = Q Qi^H
        R = E @ (T - NC.eye(n, sg))
        T3 = R @ E.star + NC.eye(n, sg)
        lem("step.similarity.explicit_qr_shift", Q2 @ T3 @ Q2.star, Q @ T @ Q.star)
        # composition with the Hessenberg reduction: H0 = P0 A P0^H = Q T Q^H  =>  A = (P0^H Q) T (P0^H Q)^H
        Qt = P0.star @ Q
        lem("compose.similarity", Qt @ (Q.star @ (P0 @ A @ P0.star) @ Q) @ Qt.star, A)
        lem("compose.unitary", Qt.star @ Qt, NC.eye(n))
        G = NC.atom(Atom("G", n, n, "gen", alg="H"))
        st, _, _, _ = ncm.nc_equal_obligation((Q @ G.star) @ (G @ T @ G.star) @ (Q @ G.star).star, Q @ T @ Q.star, ctx.hyps())
        rep.canary("C10.canary.similarity_with_non_unitary_factor", st == smt.REFUTED)

    # ------------------------------------------------------------------ epilogue / flag soundness for every variant
    def k_hessenbergize(I, args, kwargs):
        (A,) = args
        n = A.shape[0]
        Pm, Hm = fresh_q("P0", (n, n)), fresh_q("H0", (n, n))
        cur().ghost["hess"] = (A, Pm, Hm)
        return Pm, Hm

    def k_check(I, args, kwargs):
        return args[0]

    def k_matmat(I, args, kwargs):
        A, B = args
        from ..nc import dims_equal
        dims_equal(A.shape[1], B.shape[0], "conformable.matmul")
        out = fresh_q("prod", (A.shape[0], B.shape[1]))
        cur().ghost.setdefault("products", []).append((A, B, out))
        return out

    def k_expand(I, args, kwargs):
        (Q,) = args
        return ix.input_array(cur().fresh_name("Real"), [4 * Q.shape[0], 4 * Q.shape[1]])

    def k_contract(I, args, kwargs):
        R, m, n = args
        out = fresh_q("Contr", (m, n))
        cur().ghost.setdefault("contracts", []).append((R, out))
        return out

    def k_lower_max(I, args, kwargs):
        (Tm,) = args
        M = SReal.var(cur().fresh_name("lowmax"))
        cur().assume(M >= 0)
        cur().ghost["lowmax"] = (Tm, M)
        return M

    def k_shifts(I, args, kwargs):
        return Opaque("shift schedule")
    contracts = {HB + "hessenbergize": k_hessenbergize, HB + "check_hessenberg": k_check, U + "quat_matmat": k_matmat, U + "quat_hermitian": k_herm,
                 U + "real_expand": k_expand, U + "real_contract": k_contract, SC + "_strictly_lower_max": k_lower_max,
                 SC + "_estimate_shifts_power_deflate": k_shifts}

    def arb_diag(it, fr):
        c = cur()
        return {"iterations": SymList(SInt.var(c.fresh_name("nit")), "iterations"), "converged": SBool(z3.Bool(c.fresh_name("conv"))),
                "iterations_run": SInt.var(c.fresh_name("run"))}

    def arb_q(it, fr):
        n = fr.vars["n"]
        return fresh_q("state", (n, n))

    def arb_real(it, fr):
        n = fr.vars["n"]
        return ix.input_array(cur().fresh_name("stateR"), [4 * n, 4 * n])

    def arb_int(it, fr):
        return SInt.var(cur().fresh_name("cnt"))

    def arb_realnum(it, fr):
        return SReal.var(cur().fresh_name("val"))
    loop_of = {"quaternion_schur": 1, "quaternion_schur_pure": 0, "quaternion_schur_pure_implicit": 0, "quaternion_schur_unified": 0, "quaternion_schur_experimental": 0}
    fac = {"quaternion_schur": {"HR": arb_real, "Q_real": arb_real, "H": arb_q, "diag": arb_diag, "k": arb_int, "m_active": arb_int, "stagnation_count": arb_int, "prev_max_sub": arb_realnum},
           "quaternion_schur_pure": {"H": arb_q, "Q_accum": arb_q, "diag": arb_diag},
           "quaternion_schur_pure_implicit": {"H": arb_q, "Q_accum": arb_q, "diag": arb_diag},
           "quaternion_schur_unified": {"H": arb_q, "Q_accum": arb_q, "diag": arb_diag, "shift_idx": arb_int},
           "quaternion_schur_experimental": {"H": arb_q, "Q_accum": arb_q, "diag": arb_diag}}
    for v in VARIANTS:
        # which loop ordinal is the main iteration: the first loop that is not the concrete P8 setup loop
        m_, node = rep.repo.function(SC + v)
        loops = sorted([n for n in ast.walk(node) if isinstance(n, (ast.For, ast.While))], key=lambda n: (n.lineno, n.col_offset))
        main = None
        for k_, lp in enumerate(loops):
            src = ast.unparse(lp.iter) if isinstance(lp, ast.For) else ast.unparse(lp.test)
            if "max_iter" in src:
                main = k_
                break
        if main is None:
            rep.add(Obligation(f"{P}.{v}.flag.sound", SC + v, "all-shapes", smt.UNDECIDED, "", 0.0, "main iteration loop not found"))
            continue
        extra = {}
        if v == "quaternion_schur_unified":
            extra = {"variant": "aed"}

        def setup(I, ctx, v=v, extra=extra):
            (n,) = dims(ctx, "n")
            A = ix.input_array("A", [n, n], quat=True)
            tol = SReal.var("tol")
            mi = SInt.var("max_iter")
            ctx.assume(sand(tol > 0, mi >= 0), base=True)
            kw = dict(max_iter=mi, tol=tol, return_diagnostics=True, **extra)
            return [A], kw, (A, n, tol)

        def post(I, ctx, outcome, val, aux, v=v):
            A, n, tol = aux
            if outcome != "return" or not (isinstance(val, tuple) and len(val) == 3):
                return [("returns_triple", False)]
            Qt, Tm, dg = val
            out = [("returns_triple", True)]
            hs = ctx.ghost.get("hess")
            prods = ctx.ghost.get("products", [])
            out.append(("reduces_the_argument_to_hessenberg_first", hs is not None and hs[0] is A))
            # Q_total = P0^H @ Q_accum : last product has left factor herm(P0)
            okq = bool(prods) and Qt is prods[-1][2]
            out.append(("Q_is_P0h_times_accumulated", okq))
            if okq and hs is not None:
                (i, j) = ix.fresh_indices(ctx, [n, n])
                out.append(("Q_left_factor_is_P0_hermitian", prods[-1][0].at(i, j) == hs[1].at(j, i).conj()))
            lm = ctx.ghost.get("lowmax")
            conv = dg.get("converged") if isinstance(dg, dict) else None
            if conv is False:
                # the flag is False on this path: nothing is claimed about T
                out += [("flag_checked_against_returned_T", True), ("converged_implies_strictly_lower_le_tol", True)]
                return out
            ok = lm is not None and conv is not None
            out.append(("flag_checked_against_returned_T", ok and lm[0] is Tm))
            if ok:
                cz = conv if isinstance(conv, (bool, SBool)) else None
                out.append(("converged_implies_strictly_lower_le_tol", cz is not None and sor(snot(cz), lm[1] <= tol)))
            return out
        cl = ["returns_triple", "reduces_the_argument_to_hessenberg_first", "Q_is_P0h_times_accumulated", "Q_left_factor_is_P0_hermitian",
              "flag_checked_against_returned_T", "converged_implies_strictly_lower_le_tol"]
        lrules = {(SC + v, main): HavocAll(fac[v])}
        if v == "quaternion_schur":
            # final clean-up: entries below the diagonal with modulus <= tol are set to zero (closed-form invariants)
            from ..rules import FunctionalInv
            tail = [k_ for k_, lp in enumerate(loops) if k_ > main and lp.lineno > loops[main].end_lineno]

            def k_abs(I, args, kwargs):
                return ssqrt(ix.QScal.lift(args[0]).norm2())
            contracts[SC + "_quat_scalar_abs"] = k_abs

            def cleaned(H0, tol, vi):
                q = H0.at(*vi)
                return ix.ite(sand(vi[0] > vi[1], ssqrt(q.norm2()) <= tol), ix.QScal(Fraction(0)), q)

            def fo(it, fr, k):
                H0, tol = fr.vars["__H_before"], fr.vars["tol"]
                return lambda vi: ix.ite(vi[0] < k, cleaned(H0, tol, vi), H0.at(*vi))

            def fi(it, fr, k):
                H0, tol, i = fr.vars["__H_before"], fr.vars["tol"], fr.vars["i"]
                return lambda vi: ix.ite(sor(vi[0] < i, sand(vi[0] == i, vi[1] < k)), cleaned(H0, tol, vi), H0.at(*vi))

            class Snap(FunctionalInv):
                def establish(self, it, fr, start):
                    if "__H_before" not in fr.vars:
                        fr.vars["__H_before"] = fr.vars["H_final"].copy()
                    super().establish(it, fr, start)
            if len(tail) >= 2:
                lrules[(SC + v, tail[0])] = Snap(arrays={"H_final": fo}, tag="cleanup.outer.")
                lrules[(SC + v, tail[1])] = FunctionalInv(arrays={"H_final": fi}, tag="cleanup.inner.")
        # the sites of the clean-up invariants are obligations of this case (without them the closed form of the clean-up would be assumed)
        run_case(rep, P, SC + v, "epilogue", setup, post, lib=Library("idx"), contracts=contracts, loop_rules=lrules,
                 clauses=cl, replay=replay_variants, timeout_s=20, site_obligations=(lambda key: "cleanup." in key))

        def setup_g(I, ctx):
            m, n = dims(ctx, "m", "n")
            ctx.assume(m != n, base=True)
            return [ix.input_array("A", [m, n], quat=True)], {}, None
        run_case(rep, P, SC + v, "guard_square", setup_g, lambda I, ctx, outcome, val, aux: [("raises_ValueError", outcome == "raise" and val.exc_type == "ValueError")],
                 lib=Library("idx"), contracts=contracts, clauses=["raises_ValueError"], site_obligations=False)

    # _strictly_lower_max: the returned value bounds the modulus of EVERY entry strictly below the diagonal (witness-index
    # invariant: for an arbitrary fixed (i0, j0), once the loops have passed it, |T[i0, j0]| <= m) and is >= 0
    class LowMaxRule(LoopRule):
        modifies = ("m",)

        def __init__(self, level):
            self.level = level

        def visited(self, fr, k):
            g = cur().ghost
            i0, j0 = g["wit"]
            if self.level == "outer":
                return i0 < k
            return sor(i0 < fr.vars["i"], sand(i0 == fr.vars["i"], j0 < k))

        def inv(self, fr, k, m):
            g = cur().ghost
            return sand(m >= 0, sor(snot(self.visited(fr, k)), g["wit_abs"] <= m))

        def establish(self, it, fr, start):
            cur().require("inv.establish", self.inv(fr, start, fr.vars["m"]), "running maximum bounds the visited witness entry", key=f"lowmax.{self.level}.inv.establish")

        def havoc(self, it, fr, k):
            m = SReal.var(cur().fresh_name("m"))
            cur().assume(self.inv(fr, k, m))
            fr.vars["m"] = m

        def preserve(self, it, fr, k):
            cur().require("inv.preserve", self.inv(fr, k + 1, fr.vars["m"]), "running maximum bounds the visited witness entry", key=f"lowmax.{self.level}.inv.preserve")

    for shape in ("square", "tall", "wide"):
        def setup_lm(I, ctx, shape=shape):
            m, n = dims(ctx, "m", "n")
            ctx.assume({"square": m == n, "tall": m > n, "wide": m < n}[shape], base=True)
            Tm = ix.input_array("T", [m, n], quat=True)
            i0, j0 = SInt.var("i0"), SInt.var("j0")
            ctx.assume(sand(i0 >= 0, i0 < m, j0 >= 0, j0 < n, i0 > j0), base=True)
            ctx.ghost["wit"] = (i0, j0)
            ctx.ghost["wit_abs"] = abs(Tm.at(i0, j0))
            return [Tm], {}, None

        def post_lm(I, ctx, outcome, val, aux):
            if outcome != "return":
                return [("bounds_every_strictly_lower_entry", False), ("nonnegative", False)]
            return [("bounds_every_strictly_lower_entry", ctx.ghost["wit_abs"] <= val), ("nonnegative", val >= 0)]
        run_case(rep, P, SC + "_strictly_lower_max", shape, setup_lm, post_lm, lib=Library("idx"),
                 loop_rules={(SC + "_strictly_lower_max", 0): LowMaxRule("outer"), (SC + "_strictly_lower_max", 1): LowMaxRule("inner")},
                 clauses=["bounds_every_strictly_lower_entry", "nonnegative"], replay=replay_variants, timeout_s=30)


# ---------------------------------------------------------------------------------------------------
def variant_calls(rt):
    sc = rt.real().schur
    calls = []
    for sh in ("wilkinson", "rayleigh", "double"):
        calls.append((f"schur[{sh}]", lambda A, b, sh=sh: sc.quaternion_schur(A, shift=sh, return_diagnostics=True, **({"max_iter": b} if b is not None else {})), 1e-12))
    for sm in ("none", "rayleigh"):
        calls.append((f"pure[{sm}]", lambda A, b, sm=sm: sc.quaternion_schur_pure(A, shift_mode=sm, return_diagnostics=True, **({"max_iter": b} if b is not None else {})), 1e-10))
    calls.append(("implicit[rayleigh]", lambda A, b: sc.quaternion_schur_pure_implicit(A, return_diagnostics=True, **({"max_iter": b} if b is not None else {})), 1e-10))
    for var in ("none", "rayleigh", "implicit", "aed", "ds"):
        calls.append((f"unified[{var}]", lambda A, b, var=var: sc.quaternion_schur_unified(A, variant=var, return_diagnostics=True, **({"max_iter": b} if b is not None else {})), 1e-10))
    calls.append(("unified[aed,window=2]", lambda A, b: sc.quaternion_schur_unified(A, variant="aed", aed_window=2, return_diagnostics=True, **({"max_iter": b} if b is not None else {})), 1e-10))
    for var in ("aed_windowed", "francis_ds"):
        calls.append((f"experimental[{var}]", lambda A, b, var=var: sc.quaternion_schur_experimental(A, variant=var, return_diagnostics=True, **({"max_iter": b} if b is not None else {})), 1e-10))
        for w in (2, 3):
            calls.append((f"experimental[{var},window={w}]", lambda A, b, var=var, w=w: sc.quaternion_schur_experimental(A, variant=var, window=w, return_diagnostics=True, **({"max_iter": b} if b is not None else {})), 1e-10))
    return calls


# ---------------------------------------------------------------------------------------------------
# the iteration of the pure (Householder) QR variant, every n, every budget, every exit
def pure_iteration(rep: Report):
    """quaternion_schur_pure at matrix level (free quaternion *-algebra; hessenbergize, check_hessenberg, householder_matrix, quat_matmat,
    quat_hermitian, _strictly_lower_max by contract).  With B = P0 A P0^H the state of the main loop is (Q_accum, H, D) with
          Q_accum unitary   and   Q_accum^H B Q_accum - H = D        (D: everything that was set to zero so far, rotated along)
    and one pass of the body turns it into   (Q_accum Qi^H,  Qi H Qi^H - E,  Qi D Qi^H + E)   where Qi is the product of the embedded
    Householder reflectors of the QR sweep (inner invariant:  Q_iter unitary,  R_work = Q_iter (H - sigma I))  and E is what the deflation
    loop zeroed in this pass.  Hence on EVERY exit (budget exhausted, convergence break - where the last step must already be in
    Q_accum) the returned pair satisfies   Q unitary  and  Q^H A Q - T = D  exactly, D being the sum of the rotated zeroings: the
    similarity is exact up to the deflation decisions, for every shift mode.  The three entry-level loops (shift subtraction / addition on
    the diagonal, deflation) enter here through their closed forms  R - sigma I,  H + sigma I,  H - E;  those closed forms are discharged
    separately at index level (pure_entry_loops)."""
    from ..values import HMat, fresh_hmat
    from ..kernels import ALGEBRA
    from ..sym import PathAbort
    TDm = "quatica/decomp/tridiagonalize.py::"
    HBm = "quatica/decomp/hessenberg.py::"
    QN = SC + "quaternion_schur_pure"

    class EntryQ:
        """one quaternion entry of an abstract matrix: four reals about which nothing is known"""
        qv_value = True

        def __init__(self, tag):
            self.w, self.x, self.y, self.z = (SReal.var(f"{tag}.{c}") for c in "wxyz")

        def has_attr(self, name):
            return name in "wxyz"

        def __sub__(self, o):
            return EntryQ(cur().fresh_name("entry"))          # entry minus a scalar: another unknown quaternion

        __add__ = __sub__

    class SCol:
        qv_value = True

        def __init__(self, tag, length):
            self.tag, self.shape, self.ndim = tag, (length,), 1

        def has_attr(self, name):
            return name in ("shape", "copy", "ndim")

        def copy(self):
            return self

        def getitem(self, i):
            return EntryQ(f"{self.tag}[{SInt.lift(i) if not isinstance(i, int) else i}]")

    class SMat(HMat):
        """abstract quaternion matrix whose entries can be read (as unknown quaternions)"""

        def getitem(self, idx):
            t = idx if isinstance(idx, tuple) else (idx,)
            tag = cur().fresh_name("entry")
            if len(t) == 2 and not isinstance(t[0], slice) and not isinstance(t[1], slice):
                return EntryQ(tag)
            if len(t) == 2 and isinstance(t[0], slice) and not isinstance(t[1], slice) and t[0].stop is None and t[0].step is None:
                return SCol(tag, self.p.rows - (0 if t[0].start is None else t[0].start))
            return HMat.getitem(self, idx)

    class EyeMat(HMat):
        """np.eye(n, dtype=quaternion) into which one trailing diagonal block is written: diag(I_j, S) is unitary when S is
        (obligation C09.lemma.blockdiag_unitary); afterwards the value is a unitary matrix about which nothing else is known"""

        def setitem(self, idx, val):
            c = cur()
            ok = isinstance(idx, tuple) and len(idx) == 2 and all(isinstance(s_, slice) and s_.step is None and s_.start is not None for s_ in idx) \
                and isinstance(val, HMat) and ncm.nc_syntactically_equal(self.p, NC.eye(self.p.rows))
            if not ok:
                raise OutOfReach("write into an identity matrix other than one diagonal block")
            n_ = self.p.rows
            j0, j1 = idx[0].start, idx[1].start
            e0, e1_ = (n_ if idx[0].stop is None else idx[0].stop), (n_ if idx[1].stop is None else idx[1].stop)
            if c.valid(sand(SBool.mk(SInt.lift(j0) == SInt.lift(j1)), SBool.mk(SInt.lift(e0) == SInt.lift(e1_)))) is not True:
                raise OutOfReach("off-diagonal block written into an identity matrix")
            c.require("index.range", sand(SBool.mk(SInt.lift(j0) >= 0), SBool.mk(SInt.lift(e0) <= SInt.lift(n_)), SBool.mk(SInt.lift(j0) <= SInt.lift(e0))), "diagonal block inside the matrix")
            ncm.dims_equal(val.shape[0], e0 - j0, "block.rows")
            ncm.dims_equal(val.shape[1], e0 - j0, "block.cols")
            st, _, _, _ = ncm.nc_equal_obligation(val.p.star @ val.p, NC.eye(val.p.rows), c.hyps())
            if st != smt.PROVED:
                raise OutOfReach("diagonal block that is not known to be unitary")
            a = Atom(c.fresh_name("Hj"), self.p.rows, self.p.rows, "orth", alg="H")
            self.p = NC.atom(a)

    class Scratch:
        qv_value = True

        def __init__(self, shape):
            self.shape = tuple(shape)

        def has_attr(self, name):
            return name == "shape"

        def setitem(self, idx, val):
            pass

    def alloc(what, shape, dtype):
        from ..values import QUAT
        shp = shape if isinstance(shape, tuple) else (shape,)
        if what == "eye" and dtype == QUAT:
            return EyeMat(NC.eye(shp[0]))
        if what in ("zeros", "empty") and len(shp) == 1:
            return Scratch(shp)
        return None

    def np_array(x, dtype=None):
        if isinstance(x, list) and x and all(isinstance(e, EntryQ) for e in x):
            return SCol(cur().fresh_name("vec"), len(x))
        if isinstance(x, list) and x and all(isinstance(r_, list) and all(isinstance(e, (SReal, Fraction, int, float)) for e in r_) for r_ in x):
            return Scratch((len(x), len(x[0])))                 # a small real array that only feeds np.linalg.eigvals
        raise OutOfReach("np.array form")

    def k_hessenbergize(I, args, kwargs):
        (A,) = args
        n = A.shape[0]
        P0 = HMat(NC.atom(Atom("P0", n, n, "orth", alg="H")))
        B = HMat(P0.p @ A.p @ P0.p.star)                       # contract C09: H = P A P^H with P unitary
        cur().ghost["hess"] = dict(A=A, P0=P0, B=B)
        return P0, B

    def k_check(I, args, kwargs):
        (Hm,) = args                                           # contract C09: entries below the sub-diagonal of modulus <= atol are set to 0
        E0 = fresh_hmat("E0", Hm.shape[0], Hm.shape[1])
        cur().ghost["E0"] = E0
        return SMat(Hm.p - E0.p)

    def k_house(I, args, kwargs):
        col = args[0]
        L = col.shape[0]
        return HMat(NC.atom(Atom(cur().fresh_name("Hsub"), L, L, "orth", alg="H")))      # contract C09: unitary (and maps col to a multiple of e1)

    def k_lowmax(I, args, kwargs):
        v = SReal.var(cur().fresh_name("lowmax"))
        cur().assume(v >= 0)
        return v

    def sigmaI(fr):
        s_ = fr.vars["sigma"]
        n = fr.vars["n"]
        return NC.eye(n, s_ if isinstance(s_, (SReal, Fraction)) else Fraction(repr(float(s_))) if isinstance(s_, float) else s_)

    class ShiftSub(LoopRule):
        """closed form of  for i in range(n): R_work[i, i] -= sigma   (index level: pure_entry_loops)"""
        skip_body = True
        modifies = ("R_work",)

        def havoc(self, it, fr, k):
            fr.vars["R_work"] = SMat(fr.vars["R_work"].p - sigmaI(fr))

    class ShiftAdd(LoopRule):
        skip_body = True
        modifies = ("H",)

        def havoc(self, it, fr, k):
            fr.vars["H"] = SMat(fr.vars["H"].p + sigmaI(fr))

    class Deflate(LoopRule):
        """closed form of the deflation loop: some sub-diagonal entries are set to zero:  H - E  (index level: pure_entry_loops)"""
        skip_body = True
        modifies = ("H", "max_sub")

        def havoc(self, it, fr, k):
            c = cur()
            Hm = fr.vars["H"]
            E = fresh_hmat(c.fresh_name("E"), Hm.shape[0], Hm.shape[1])
            fr.vars["H"] = SMat(Hm.p - E.p)
            ms = SReal.var(c.fresh_name("max_sub"))
            c.assume(ms >= 0)
            fr.vars["max_sub"] = ms
            c.ghost["E_step"] = E

    class QRSweep(LoopRule):
        """for j in range(n - 1):  Q_iter is unitary and R_work = Q_iter (H - sigma I)"""
        modifies = ("R_work", "Q_iter")

        def target(self, fr):
            Hm = fr.vars["H"].p
            sg = fr.vars["sigma"]
            if (isinstance(sg, (int, float, Fraction)) and sg == 0):
                return Hm
            return Hm - sigmaI(fr)

        def check(self, fr, phase):
            c = cur()
            Qi, Rw = fr.vars.get("Q_iter"), fr.vars.get("R_work")
            ok = isinstance(Qi, HMat) and isinstance(Rw, HMat)
            st1 = ncm.nc_equal_obligation(Qi.p.star @ Qi.p, NC.eye(Qi.p.rows), c.hyps())[0] if ok else smt.REFUTED
            st2 = ncm.nc_equal_obligation(Rw.p, Qi.p @ self.target(fr), c.hyps())[0] if ok else smt.REFUTED
            rec = c.ghost.setdefault("emit", [])
            rec.append((f"sweep.{phase}.Q_iter_unitary", st1, "normal-form", 0.0, None))
            rec.append((f"sweep.{phase}.R_work_is_Q_iter_times_shifted_H", st2, "normal-form", 0.0, None))

        def establish(self, it, fr, start):
            self.check(fr, "establish")

        def havoc(self, it, fr, k):
            c = cur()
            n = fr.vars["n"]
            Qi = HMat(NC.atom(Atom(c.fresh_name("Qi"), n, n, "orth", alg="H")))
            if c.ghost.get("_havoc_kind") == "exhausted":
                c.ghost["Qi_exit"] = Qi          # the sweep of this pass, as the code after the loop sees it
            fr.vars["Q_iter"] = Qi
            fr.vars["R_work"] = SMat(Qi.p @ self.target(fr))

        def preserve(self, it, fr, k):
            self.check(fr, "preserve")

    class ImplicitSweep(LoopRule):
        """quaternion_schur_pure_implicit, for s in range(0, n - 1): with (H_s, Q_s) the state at the head of the sweep there is a unitary W with
        H = W H_s W^H and Q_accum = Q_s W^H   (each step conjugates H by an embedded 2 x 2 reflector and appends its inverse to Q_accum)"""
        modifies = ("H", "Q_accum")

        def check(self, fr, phase):
            c = cur()
            H0, Q0 = c.ghost["sweep_head"]
            Hn, Qn = fr.vars.get("H"), fr.vars.get("Q_accum")
            rec = c.ghost.setdefault("emit", [])
            if not (isinstance(Hn, HMat) and isinstance(Qn, HMat)):
                rec.append((f"sweep.{phase}.state_is_matrix_valued", smt.REFUTED, "syntactic", 0.0, None))
                return
            W = Qn.p.star @ Q0.p                       # the only candidate: Q_accum = Q_s W^H
            st1 = ncm.nc_equal_obligation(W.star @ W, NC.eye(W.cols), c.hyps())[0]
            st2 = ncm.nc_equal_obligation(Hn.p, W @ H0.p @ W.star, c.hyps())[0]
            rec.append((f"sweep.{phase}.W_unitary", st1, "normal-form", 0.0, None))
            rec.append((f"sweep.{phase}.H_is_W_H0_WH", st2, "normal-form", 0.0, None))

        def establish(self, it, fr, start):
            cur().ghost["sweep_head"] = (HMat(fr.vars["H"].p), HMat(fr.vars["Q_accum"].p))      # copies: the windowed variants update H and Q_accum in place
            self.check(fr, "establish")

        def havoc(self, it, fr, k):
            c = cur()
            H0, Q0 = c.ghost["sweep_head"]
            n = fr.vars["n"]
            W = HMat(NC.atom(Atom(c.fresh_name("W"), n, n, "orth", alg="H")))
            if c.ghost.get("_havoc_kind") == "exhausted":
                prev = c.ghost.get("Qi_exit")
                c.ghost["Qi_exit"] = W if prev is None else HMat(W.p @ prev.p)       # several sweeps in one pass (double shift): their product
            fr.vars["H"] = SMat(W.p @ H0.p @ W.p.star)
            fr.vars["Q_accum"] = HMat(Q0.p @ W.p.star)

        def preserve(self, it, fr, k):
            self.check(fr, "preserve")

    class Main(LoopRule):
        modifies = ("H", "Q_accum", "diag")

        def establish(self, it, fr, start):
            c = cur()
            g = c.ghost
            B = g["hess"]["B"]
            Qa, Hm = fr.vars["Q_accum"], fr.vars["H"]
            st = ncm.nc_equal_obligation(Qa.p.star @ Qa.p, NC.eye(Qa.p.rows), c.hyps())[0]
            g.setdefault("emit", []).append(("main.establish.Q_accum_unitary", st, "normal-form", 0.0, None))
            g["D_entry"] = HMat(Qa.p.star @ B.p @ Qa.p - Hm.p)      # = E0: what check_hessenberg removed
            g["n"] = fr.vars["n"]
            if "hi" in self.modifies:
                hi = fr.vars.get("hi")
                v = smt.prove(c.hyps(), sand(SBool.mk(SInt.lift(hi) >= 0), SBool.mk(SInt.lift(hi) <= SInt.lift(g["n"]) - 1)).z, 10)
                g.setdefault("emit", []).append(("main.establish.window_end_inside_the_matrix", v.status, v.backend, v.secs, None))

        def havoc(self, it, fr, k):
            c = cur()
            g = c.ghost
            n = g["n"]
            B = g["hess"]["B"]
            if c.decide(SBool.mk(SInt.lift(k) == 0)):
                Qa, D = HMat(NC.eye(n)), g["D_entry"]
            else:
                Qa = HMat(NC.atom(Atom(c.fresh_name("Qa"), n, n, "orth", alg="H")))
                D = fresh_hmat(c.fresh_name("D"), n, n)
            g["Qa"], g["D"] = Qa, D
            fr.vars["Q_accum"] = Qa
            fr.vars["H"] = SMat(Qa.p.star @ B.p @ Qa.p - D.p)
            L = SInt.var(c.fresh_name("n_it"))
            c.assume(L >= 0)
            fr.vars["diag"] = {"iterations": SymList(L, "iterations"), "converged": False, "iterations_run": 0}
            g.pop("E_step", None)
            g["main_kind"] = g.get("_havoc_kind")
            g["Qi_exit"] = None
            if "hi" in self.modifies:
                hi = SInt.var(c.fresh_name("hi"))
                c.assume(sand(hi >= 0, hi <= n - 1))
                fr.vars["hi"] = hi
                g["deflate_first"] = True
            if "shift_idx" in self.modifies:
                si = SInt.var(c.fresh_name("shift_idx"))
                c.assume(si >= 0)
                fr.vars["shift_idx"] = si

        def preserve(self, it, fr, k):
            c = cur()
            g = c.ghost
            rec = g.setdefault("emit", [])
            for nm, s_ in after_body(fr):
                rec.append((f"main.preserve.{nm}", s_, "normal-form", 0.0, None))
            if "hi" in self.modifies:
                hi = fr.vars.get("hi")
                v = smt.prove(c.hyps(), sand(SBool.mk(SInt.lift(hi) >= 0), SBool.mk(SInt.lift(hi) <= SInt.lift(g["n"]) - 1)).z, 10)
                rec.append(("main.preserve.window_end_stays_inside_the_matrix", v.status, v.backend, v.secs, None))
            dg = fr.vars.get("diag")
            ok = isinstance(dg, dict) and dg.get("converged") is False
            rec.append(("main.preserve.a_pass_that_does_not_stop_leaves_converged_False", smt.PROVED if ok else smt.REFUTED, "syntactic", 0.0, None))

    def combine(D, E, Qi):
        """discrepancy after a pass: the pure / implicit / unified variants rotate first and deflate afterwards, the experimental one deflates first"""
        if cur().ghost.get("deflate_first"):
            return Qi.p @ (D.p + E.p) @ Qi.p.star
        return Qi.p @ D.p @ Qi.p.star + E.p

    def after_body(fr):
        """(Q_accum, H) after one complete pass against the head state (Qa, Qa^H B Qa - D): unitary, and the discrepancy is Qi D Qi^H + E"""
        c = cur()
        g = c.ghost
        B, Qa, D = g["hess"]["B"], g["Qa"], g["D"]
        Qn, Hn, Qi, E = fr.vars.get("Q_accum"), fr.vars.get("H"), g.get("Qi_exit"), g.get("E_step")
        if Qi is None:
            Qi = HMat(NC.eye(g["n"]))             # no sweep in this pass (empty shift list)
        if E is None:
            E = HMat(NC.zero(g["n"], g["n"]))       # no deflation loop on this path
        if not all(isinstance(x, HMat) for x in (Qn, Hn, Qi)):
            return [("state_after_a_pass_is_matrix_valued", smt.REFUTED)]
        s1 = ncm.nc_equal_obligation(Qn.p.star @ Qn.p, NC.eye(Qn.p.rows), c.hyps())[0]
        Dn = combine(D, E, Qi)
        s2 = ncm.nc_equal_obligation(Qn.p.star @ B.p @ Qn.p - Hn.p, Dn, c.hyps())[0]
        g["D_after"] = HMat(Dn)
        return [("Q_accum_stays_unitary", s1), ("discrepancy_is_rotated_old_discrepancy_plus_this_pass_zeroings", s2)]

    def embedded(B, s_idx, n):
        """the n x n matrix diag(I, B, I) with the 2 x 2 block B at rows / columns s, s+1: unitary when B is (C09.lemma.blockdiag_unitary); the in-place
        kernels apply_left_rows / apply_right_cols multiply by it / by its conjugate transpose (C10 obligations rows.spec / cols.spec)"""
        c = cur()
        memo = c.ghost.setdefault("embedded", {})
        key = (id(B), str(SInt.lift(s_idx)) if not isinstance(s_idx, int) else s_idx)
        if key not in memo:
            if not isinstance(B, HMat) or ncm.nc_equal_obligation(B.p.star @ B.p, NC.eye(B.p.rows), c.hyps())[0] != smt.PROVED:
                raise OutOfReach("2 x 2 block that is not known to be unitary")
            ncm.dims_equal(B.p.rows, 2, "block.rows")
            c.require("index.range", sand(SBool.mk(SInt.lift(s_idx) >= 0), SBool.mk(SInt.lift(s_idx) + 1 < SInt.lift(n))), "rows s, s+1 inside the matrix")
            memo[key] = NC.atom(Atom(c.fresh_name("Emb"), n, n, "orth", alg="H"))
        return memo[key]

    def k_left(I, args, kwargs):
        if len(args) != 3 or kwargs:
            raise OutOfReach("row kernel called with another signature than (M, s, B): its contract does not apply")
        M, s_idx, B = args
        M.p = embedded(B, s_idx, M.p.rows) @ M.p
        return None

    def k_right(I, args, kwargs):
        if len(args) != 3 or kwargs:
            raise OutOfReach("column kernel called with another signature than (M, s, B): its contract does not apply")
        M, s_idx, B = args
        M.p = M.p @ embedded(B, s_idx, M.p.cols).star
        return None

    SHF = z3.Function("SHIFTS", z3.IntSort(), z3.RealSort())

    def k_shifts(I, args, kwargs):
        L = SInt.var(cur().fresh_name("n_shifts"))
        cur().assume(L >= 0)
        return SymList(L, "shift_schedule", entry=lambda j: SReal.mk(SHF(SInt.lift(j))))

    def eigvals(Bm):
        from ..idx import CScal
        c = cur()
        return [CScal(SReal.var(c.fresh_name("ev_re")), SReal.var(c.fresh_name("ev_im"))) for _ in range(2)]

    class MainU(Main):
        modifies = ("H", "Q_accum", "diag", "shift_idx")

    class MainE(Main):
        modifies = ("H", "Q_accum", "diag", "hi")

    class ScanDeflate(LoopRule):
        """experimental variant, while i > lo: scans upwards from hi, zeroes at most one sub-diagonal entry and moves hi below it:  H - E,  lo <= hi' <= hi"""
        skip_body = True
        modifies = ("H", "hi", "i")

        def havoc(self, it, fr, k):
            c = cur()
            Hm = fr.vars["H"]
            E = fresh_hmat(c.fresh_name("E"), Hm.shape[0], Hm.shape[1])
            fr.vars["H"] = SMat(Hm.p - E.p)
            h2 = SInt.var(c.fresh_name("hi"))
            c.assume(sand(h2 >= fr.vars["lo"], h2 <= fr.vars["hi"]))
            fr.vars["hi"] = h2
            fr.vars["i"] = SInt.var(c.fresh_name("i"))
            c.ghost["E_step"] = E

    class MaxOnly(LoopRule):
        """for j in range(lo + 1, hi + 1): reads H, folds max_sub"""
        skip_body = True
        modifies = ("max_sub",)

        def havoc(self, it, fr, k):
            ms = SReal.var(cur().fresh_name("max_sub"))
            cur().assume(ms >= 0)
            fr.vars["max_sub"] = ms

    lib = Library("nc")
    lib.qmode = "H"
    lib.np.table["linalg"].table["eigvals"] = eigvals
    lib.alloc_hooks.append(alloc)
    lib.np.table["array"] = np_array
    contracts = dict(ALGEBRA)
    QUn = SC + "quaternion_schur_unified"
    QEn = SC + "quaternion_schur_experimental"
    contracts.update({QUn + ".<apply_left_rows>": k_left, QUn + ".<apply_right_cols>": k_right, SC + "_estimate_shifts_power_deflate": k_shifts,
                      QEn + ".<apply_left_rows>": k_left, QEn + ".<apply_right_cols>": k_right})
    contracts.update({HBm + "hessenbergize": k_hessenbergize, HBm + "check_hessenberg": k_check, TDm + "householder_matrix": k_house, SC + "_strictly_lower_max": k_lowmax})
    QI = SC + "quaternion_schur_pure_implicit"
    def at(rule, target, it_src, assigns=None):
        """the loop a rule instance was written for (see interp: a restructured function makes the rule inapplicable, i.e. undecided)"""
        rule.expects = {"target": target, "iter": it_src}
        if assigns is not None:
            rule.expects["assigns"] = set(assigns)
        return rule
    W_CL = ["sweep.establish.W_unitary", "sweep.establish.H_is_W_H0_WH", "sweep.preserve.W_unitary", "sweep.preserve.H_is_W_H0_WH"]
    variants = {QN: ({(QN, 0): at(Main(), "k", "range(max_iter)"), (QN, 1): at(ShiftSub(), "i", "range(n)", {"R_work"}), (QN, 2): at(QRSweep(), "j", "range(n-1)"),
                      (QN, 3): at(ShiftAdd(), "i", "range(n)", {"H"}), (QN, 4): at(Deflate(), "i", "range(1,n)")},
                     ["sweep.establish.Q_iter_unitary", "sweep.establish.R_work_is_Q_iter_times_shifted_H", "sweep.preserve.Q_iter_unitary", "sweep.preserve.R_work_is_Q_iter_times_shifted_H"]),
                QI: ({(QI, 0): at(Main(), "k", "range(max_iter)"), (QI, 1): at(ImplicitSweep(), "s", "range(0,n-1)"), (QI, 2): at(Deflate(), "i", "range(1,n)")}, W_CL),
                QUn: ({(QUn, 0): at(MainU(), "k", "range(max_iter)"), (QUn, 2): at(ImplicitSweep(), "s", "range(0,n-1)"), (QUn, 3): at(Deflate(), "i", "range(i_start,n)")}, W_CL),
                QEn: ({(QEn, 0): at(MainE(), "k", "range(max_iter)"), (QEn, 1): at(ScanDeflate(), None, "i>lo"), (QEn, 3): at(ImplicitSweep(), "s", "range(start,hi)"),
                       (QEn, 4): at(MaxOnly(), "j", "range(lo+1,hi+1)")},
                      W_CL + ["main.preserve.window_end_stays_inside_the_matrix", "main.establish.window_end_inside_the_matrix"])}
    todo = [(q_, m_, dict(shift_mode=m_)) for q_ in (QN, QI) for m_ in ("none", "rayleigh")]
    todo += [(QUn, f"{v_}.{'scheduled' if pre else 'trailing'}_shifts", dict(variant=v_, precompute_shifts=pre, aed_factor="sym")) for v_ in ("aed", "ds") for pre in (True, False)]
    todo += [(QEn, v_, dict(variant=v_, window="sym")) for v_ in ("aed_windowed", "francis_ds")]
    for qn, mode, extra in todo:
        rules, sweep_clauses = variants[qn]

        def setup(I, ctx, mode=mode, extra=extra):
            (n,) = dims(ctx, "n")
            ctx.assume(n >= 1, base=True)
            A = fresh_hmat("A", n, n)
            K, tol = SInt.var("max_iter"), SReal.var("tol")
            ctx.assume(sand(K >= 0, tol >= 0), base=True)
            kw = dict(extra)
            if kw.get("window") == "sym":
                kw["window"] = SInt.var("window")
                ctx.assume(kw["window"] >= 1, base=True)
            if kw.get("aed_factor") == "sym":
                kw["aed_factor"] = SReal.var("aed_factor")
                ctx.assume(kw["aed_factor"] > 0, base=True)
            return [A], dict(max_iter=K, tol=tol, return_diagnostics=True, **kw), (A, n)

        def post(I, ctx, outcome, val, aux, mode=mode):
            A, n = aux
            g = ctx.ghost
            if outcome == "loop_end":
                return list(g.get("emit", []))          # end of a generic iteration of the sweep / of the main loop: the invariant obligations recorded on this path
            if outcome != "return" or not (isinstance(val, tuple) and len(val) == 3 and isinstance(val[0], HMat) and isinstance(val[1], HMat)):
                return [("returns_Q_T_diagnostics", False)] if outcome == "return" else []
            Q, T = val[0], val[1]
            out = list(g.get("emit", [])) + [("returns_Q_T_diagnostics", True)]
            c = ctx
            s1 = ncm.nc_equal_obligation(Q.p.star @ Q.p, NC.eye(n), c.hyps())[0]
            out.append(("Q_is_unitary", s1, "normal-form", 0.0, None))
            # which discrepancy belongs to this exit: loop ran to completion -> D of the head state; break inside a pass -> D after that pass
            if g.get("main_kind") == "generic":
                Qi, E, D0 = g.get("Qi_exit") or HMat(NC.eye(n)), g.get("E_step") or HMat(NC.zero(n, n)), g.get("D")
                D = HMat(combine(D0, E, Qi)) if D0 is not None else None
            elif g.get("main_kind") == "exhausted":
                D = g.get("D")
            else:
                D = g.get("D_entry")        # n such that the loop is never entered cannot happen (max_iter >= 0 symbolic): kept for completeness
            if D is None:
                out.append(("QH_A_Q_minus_T_is_the_accumulated_zeroings", smt.UNDECIDED, "", 0.0, "state at the break not recorded"))
            else:
                st, be, secs, wit = ncm.nc_equal_obligation(Q.p.star @ A.p @ Q.p - T.p, D.p, c.hyps())
                out.append(("QH_A_Q_minus_T_is_the_accumulated_zeroings", st, be, secs, wit or None))
            return out
        run_case(rep, P, qn, f"iteration.{'shift_' if qn in (QN, QI) else ''}{mode}", setup, post, lib=lib, contracts=contracts, loop_rules=rules,
                 clauses=["returns_Q_T_diagnostics", "Q_is_unitary", "QH_A_Q_minus_T_is_the_accumulated_zeroings", "main.establish.Q_accum_unitary"] + sweep_clauses +
                         ["main.preserve.Q_accum_stays_unitary", "main.preserve.discrepancy_is_rotated_old_discrepancy_plus_this_pass_zeroings",
                          "main.preserve.a_pass_that_does_not_stop_leaves_converged_False"], replay=replay_variants, timeout_s=30, loop_end=True, max_paths=600)


def pure_entry_loops(rep: Report):
    """The three entry-level loops of quaternion_schur_pure at index level (all n; matrix products, reflectors, the QR sweep replaced by
    arbitrary arrays), i.e. the closed forms the matrix-level proof (pure_iteration) uses:
        shift subtraction   R_work = H - sigma I          shift addition   H = (R_work Q_k) + sigma I
        deflation           H_after(r, c) = 0  if c = r - 1 and |H(r, r-1)| <= tol max(1, |H(r-1,r-1)| + |H(r,r)| + 1e-30),  H(r, c) otherwise
    (so H - H_after = E is supported on the sub-diagonal and every removed entry is below the deflation threshold), and
    max_sub is the maximum of the sub-diagonal moduli seen (witness form: max_sub >= |H(r, r-1)| for every r)."""
    from ..rules import FunctionalInv
    from ..sym import PathAbort
    TDm = "quatica/decomp/tridiagonalize.py::"
    QN = SC + "quaternion_schur_pure"
    zi = SInt.lift

    def k_hessenbergize(I, args, kwargs):
        (A,) = args
        n = A.shape[0]
        return fresh_q("P0", (n, n)), fresh_q("H0", (n, n))

    def k_matmat(I, args, kwargs):
        A, B = args
        ncm.dims_equal(A.shape[1], B.shape[0], "conformable.matmul")
        return fresh_q("prod", (A.shape[0], B.shape[1]))

    def k_house(I, args, kwargs):
        L = args[0].shape[0]
        return fresh_q("Hsub", (L, L))

    def k_lowmax(I, args, kwargs):
        v = SReal.var(cur().fresh_name("lowmax"))
        cur().assume(v >= 0)
        return v
    contracts = {HB + "hessenbergize": k_hessenbergize, HB + "check_hessenberg": lambda I, a, k: a[0], U + "quat_matmat": k_matmat, U + "quat_hermitian": k_herm,
                 TDm + "householder_matrix": k_house, SC + "_strictly_lower_max": k_lowmax}

    def qmod(q):
        return ssqrt(ix.QScal.lift(q).norm2())

    def snapshot(arr):
        """the contents of an array at this moment, as a function of the index"""
        cp = arr.copy()
        return lambda r, c: cp.at(r, c)

    class MainA(LoopRule):
        """invariant 'True': a pass starts from an arbitrary H and Q_accum"""
        modifies = ("H", "Q_accum", "diag")

        def havoc(self, it, fr, k):
            c = cur()
            n = fr.vars["n"]
            fr.vars["H"], fr.vars["Q_accum"] = fresh_q("Hin", (n, n)), fresh_q("Qacc", (n, n))
            L = SInt.var(c.fresh_name("n_it"))
            c.assume(L >= 0)
            fr.vars["diag"] = {"iterations": SymList(L, "iterations"), "converged": False, "iterations_run": 0}

    def sub_closed(it, fr, k):
        g = cur().ghost
        if "sub_in" not in g:
            g["sub_in"] = snapshot(fr.vars["R_work"])
        s_ = fr.vars["sigma"]
        return lambda vi: ix.ite(sand(SBool.mk(zi(vi[0]) == zi(vi[1])), vi[0] < k), g["sub_in"](vi[0], vi[1]) - ix.QScal(s_), g["sub_in"](vi[0], vi[1]))

    def add_closed(it, fr, k):
        g = cur().ghost
        if "add_in" not in g:
            g["add_in"] = snapshot(fr.vars["H"])
        s_ = fr.vars["sigma"]
        return lambda vi: ix.ite(sand(SBool.mk(zi(vi[0]) == zi(vi[1])), vi[0] < k), g["add_in"](vi[0], vi[1]) + ix.QScal(s_), g["add_in"](vi[0], vi[1]))

    MS = z3.Function("MSsub", z3.IntSort(), z3.RealSort())
    SMALL = z3.Function("SMALLsub", z3.IntSort(), z3.BoolSort())      # ghost predicate: row r passes the deflation test (defined below, for every r)
    SVF = z3.Function("SVsub", z3.IntSort(), z3.RealSort())            # ghost function: modulus of the sub-diagonal entry of row r
    half = Fraction(1, 2)

    def defl_in(fr):
        g = cur().ghost
        if "defl_in" not in g:
            g["defl_in"] = snapshot(fr.vars["H"])
        return g["defl_in"]

    def comps(q):
        return [x if isinstance(x, SReal) else SReal.mk(SReal.lift(x)) for x in ix.QScal.lift(q).c]

    def formula_pure(fr, Hin, r):
        tol = fr.vars["tol"]
        w, x, y, z = comps(Hin(r, r - 1))
        sv = (w * w + x * x + y * y + z * z) ** half
        a, b = comps(Hin(r - 1, r - 1)), comps(Hin(r, r))
        ds = (a[0] ** 2 + a[1] ** 2 + a[2] ** 2 + a[3] ** 2) ** half + (b[0] ** 2 + b[1] ** 2 + b[2] ** 2 + b[3] ** 2) ** half + Fraction(1, 10 ** 30)
        return sv, sv <= tol * smax(Fraction(1), ds)

    def formula_unified(fr, Hin, r):
        tol, af = fr.vars["tol"], fr.vars["aed_factor"]
        w, x, y, z = comps(Hin(r, r - 1))
        sv_sq = w * w + x * x + y * y + z * z
        a, b = comps(Hin(r - 1, r - 1)), comps(Hin(r, r))
        ds_sq = a[0] * a[0] + a[1] * a[1] + a[2] * a[2] + a[3] * a[3] + b[0] * b[0] + b[1] * b[1] + b[2] * b[2] + b[3] * b[3]
        bound_sq = (af * tol) * (af * tol) * smax(Fraction(1), ds_sq)
        return sv_sq ** half, sv_sq <= bound_sq
    FORMULA = {}

    def definition_at(fr, r):
        """SVF(r) and SMALL(r) are DEFINED, for every r, as the modulus of Hin(r, r-1) and as the code's deflation test on the loop's input:
        the instance at row r, written with the code's own operations so that the square-root terms are the very ones the code produces"""
        sv, test = FORMULA[fr.fn.qualname](fr, defl_in(fr), r)
        return sand(SBool.mk(SVF(zi(r)) == SReal.lift(sv)), SBool.mk(SMALL(zi(r)) == test.z))

    def defl_closed(it, fr, k):
        Hin = defl_in(fr)
        start = fr.vars["i_start"] if "i_start" in fr.vars else 1
        return lambda vi: ix.ite(sand(SBool.mk(zi(vi[1]) == zi(vi[0]) - 1), vi[0] >= start, vi[0] < k, SBool.mk(SMALL(zi(vi[0])))), ix.QScal(Fraction(0)), Hin(vi[0], vi[1]))

    def defl_max(it, fr, k):
        return SReal.mk(MS(zi(k)))

    def defl_assume(it, fr, k):
        c = cur()
        start = fr.vars["i_start"] if "i_start" in fr.vars else 1
        c.ghost["defl_start"] = start
        c.assume(SBool.mk(MS(zi(start)) == 0))                                               # max_sub = 0.0 before the loop (checked by establish)
        c.assume(definition_at(fr, k))                                                       # the definitions, instantiated at the row of this step
        c.assume(SBool.mk(MS(zi(k) + 1) == z3.If(MS(zi(k)) >= SVF(zi(k)), MS(zi(k)), SVF(zi(k)))))   # unfolding of the running maximum at this step
        w = c.ghost.get("defl_witness")
        if w is None:
            w = c.ghost["defl_witness"] = SInt.var("r_witness")
        # witness form of 'maximum': for the fixed row r_witness, once it has been visited max_sub >= its sub-diagonal modulus
        c.assume(sor(snot(sand(w >= start, w < k)), SBool.mk(MS(zi(k)) >= SVF(zi(w)))))

    class DeflRule(FunctionalInv):
        def preserve(self, it, fr, k):
            FunctionalInv.preserve(self, it, fr, k)
            c = cur()
            w = c.ghost["defl_witness"]
            c.require("inv.preserve", sor(snot(sand(w >= c.ghost["defl_start"], w < k + 1)), SBool.mk(MS(zi(k) + 1) >= SVF(zi(w)))), "running maximum bounds the witness row after this step",
                      key="pure.defl.inv.preserve.max_witness")

    QI = SC + "quaternion_schur_pure_implicit"
    QU = SC + "quaternion_schur_unified"

    class MainAU(MainA):
        modifies = ("H", "Q_accum", "diag", "shift_idx")

        def havoc(self, it, fr, k):
            MainA.havoc(self, it, fr, k)
            si = SInt.var(cur().fresh_name("shift_idx"))
            cur().assume(si >= 0)
            fr.vars["shift_idx"] = si
    arb = lambda nm: (lambda it, fr: fresh_q(nm, (fr.vars["n"], fr.vars["n"])))
    def at(rule, target, it_src, assigns=None):
        rule.expects = {"target": target, "iter": it_src}
        if assigns is not None:
            rule.expects["assigns"] = set(assigns)
        return rule
    defl = lambda: DeflRule(arrays={"H": defl_closed}, scalars={"max_sub": defl_max}, assume=defl_assume, tag="pure.defl.")
    cases = {QN: {(QN, 0): at(MainA(), "k", "range(max_iter)"), (QN, 1): at(FunctionalInv(arrays={"R_work": sub_closed}, tag="pure.sub."), "i", "range(n)", {"R_work"}),
                  (QN, 2): at(HavocAll({"R_work": arb("Rw"), "Q_iter": arb("Qit")}), "j", "range(n-1)"),
                  (QN, 3): at(FunctionalInv(arrays={"H": add_closed}, tag="pure.add."), "i", "range(n)", {"H"}),
                  (QN, 4): at(defl(), "i", "range(1,n)")},
             QI: {(QI, 0): at(MainA(), "k", "range(max_iter)"), (QI, 1): at(HavocAll({"H": arb("Hsw"), "Q_accum": arb("Qsw")}), "s", "range(0,n-1)"),
                  (QI, 2): at(defl(), "i", "range(1,n)")},
             QU: {(QU, 0): at(MainAU(), "k", "range(max_iter)"), (QU, 2): at(HavocAll({"H": arb("Hsw"), "Q_accum": arb("Qsw")}), "s", "range(0,n-1)"),
                  (QU, 3): at(defl(), "i", "range(i_start,n)")}}
    # ---- experimental variant: the scan  while i > lo  zeroes at most one sub-diagonal entry, the one that passed the test, and moves hi below it
    QE = SC + "quaternion_schur_experimental"
    SMALLE = z3.Function("SMALLscan", z3.IntSort(), z3.BoolSort())

    def formula_scan(fr, Hin, r):
        tol = fr.vars["tol"]
        w, x, y, z = comps(Hin(r, r - 1))
        sv_sq = w * w + x * x + y * y + z * z
        a_, b_ = comps(Hin(r - 1, r - 1)), comps(Hin(r, r))
        ds_sq = a_[0] * a_[0] + a_[1] * a_[1] + a_[2] * a_[2] + a_[3] * a_[3] + b_[0] * b_[0] + b_[1] * b_[1] + b_[2] * b_[2] + b_[3] * b_[3]
        return sv_sq <= (tol * tol) * smax(Fraction(1), ds_sq)

    class MainAE(MainA):
        modifies = ("H", "Q_accum", "diag", "hi")

        def havoc(self, it, fr, k):
            MainA.havoc(self, it, fr, k)
            hi = SInt.var(cur().fresh_name("hi"))
            cur().assume(sand(hi >= 0, hi <= fr.vars["n"] - 1))
            fr.vars["hi"] = hi

    class Scan(LoopRule):
        """while i > lo: until the break nothing is written: H and hi are those at the head of the pass, lo < i <= hi"""
        modifies = ("H", "hi", "i")

        def establish(self, it, fr, start):
            g = cur().ghost
            g["scan_in"] = (snapshot(fr.vars["H"]), fr.vars["hi"])

        def havoc(self, it, fr, k):
            c = cur()
            g = c.ghost
            g["scan_kind"] = g.get("_havoc_kind")
            i = SInt.var(c.fresh_name("i_scan"))
            c.assume(sand(i >= fr.vars["lo"], i <= g["scan_in"][1]))
            fr.vars["i"] = i
            if g["scan_kind"] == "generic":
                # the definition of the ghost predicate, instantiated at the row this step looks at
                c.assume(SBool.mk(SMALLE(zi(i)) == formula_scan(fr, g["scan_in"][0], i).z))
                g["scan_row"] = i

        def preserve(self, it, fr, k):
            c = cur()
            Hin, hi_in = c.ghost["scan_in"]
            r_, c_ = ix.fresh_indices(c, [fr.vars["n"], fr.vars["n"]], "sc")
            c.require("inv.preserve", ix.scal_eq(fr.vars["H"].at(r_, c_), Hin(r_, c_)), "a step that does not deflate writes nothing", key="scan.inv.preserve.H_unchanged")

    class AfterScan(LoopRule):
        """reached after the scan (here used only to state what the scan did when it left through its break)"""
        skip_body = True
        modifies = ("max_sub",)

        def establish(self, it, fr, start):
            c = cur()
            g = c.ghost
            if g.get("scan_kind") == "generic":
                Hin, hi_in = g["scan_in"]
                row = g["scan_row"]
                r_, c_ = ix.fresh_indices(c, [fr.vars["n"], fr.vars["n"]], "af")
                same = ix.scal_eq(fr.vars["H"].at(r_, c_), Hin(r_, c_))
                zeroed = sand(SBool.mk(zi(r_) == zi(row)), SBool.mk(zi(c_) == zi(row) - 1), ix.scal_eq(fr.vars["H"].at(r_, c_), ix.QScal(Fraction(0))), SBool.mk(SMALLE(zi(row))))
                c.require("step", sor(same, zeroed), "the scan changed at most the sub-diagonal entry of the row that passed the deflation test, and set it to zero", key="scan.break.only_the_tested_entry_is_zeroed")
            # what the matrix-level case assumes about the window end after the scan (whichever way the scan was left)
            c.require("step", sand(SBool.mk(zi(fr.vars["hi"]) >= zi(fr.vars["lo"])), SBool.mk(zi(fr.vars["hi"]) <= zi(g["scan_in"][1]))),
                      "after the scan lo <= hi <= (hi before the scan)", key="scan.window_end_between_lo_and_old_hi")
            raise PathAbort("the rest of the pass is the business of the matrix-level case")

        def havoc(self, it, fr, k):
            pass
    # ---- real-expansion variant: the two deflation loops of the main loop (the final clean-up is covered by the epilogue case)
    QS = SC + "quaternion_schur"
    NEST = QS + ".<_apply_single_shift>"

    def qabs(q):
        # _quat_scalar_abs written with the code's own operations:  float(np.sqrt(q.w*q.w + q.x*q.x + q.y*q.y + q.z*q.z))
        w, x, y, z = comps(q)
        return ssqrt(w * w + x * x + y * y + z * z)

    def formula_first(fr, Hin, r):
        tol = fr.vars["tol"]
        denom = qabs(Hin(r - 1, r - 1)) + qabs(Hin(r, r)) + qabs(Hin(r, r - 1))
        return qabs(Hin(r, r - 1)), qabs(Hin(r, r - 1)) <= tol * smax(Fraction(1), denom)

    def formula_second(fr, Hin, r):
        tol = fr.vars["tol"]
        denom = qabs(Hin(r - 1, r - 1)) + qabs(Hin(r, r)) + Fraction(1, 10 ** 30)
        return qabs(Hin(r, r - 1)), qabs(Hin(r, r - 1)) <= Fraction(1, 100) * tol * smax(Fraction(1), denom)

    def zero_rule(var, formula, tag):
        """for i in range(1, m_active): entry (i, i-1) of `var` is set to zero exactly when the row passes `formula` on the loop's input; nothing else is written"""
        SM = z3.Function("SMALL" + tag, z3.IntSort(), z3.BoolSort())

        def snap_in(fr):
            g = cur().ghost
            if tag not in g:
                g[tag] = snapshot(fr.vars[var])
            return g[tag]

        def closed(it, fr, k):
            Hin = snap_in(fr)
            return lambda vi: ix.ite(sand(SBool.mk(zi(vi[1]) == zi(vi[0]) - 1), vi[0] >= 1, vi[0] < k, SBool.mk(SM(zi(vi[0])))), ix.QScal(Fraction(0)), Hin(vi[0], vi[1]))

        def assume(it, fr, k):
            _, test = formula(fr, snap_in(fr), k)
            cur().assume(SBool.mk(SM(zi(k)) == test.z))

        class R(FunctionalInv):
            def havoc(self, it, fr, k):
                FunctionalInv.havoc(self, it, fr, k)
                if "deflated_idx" in self.modifies:
                    L = SInt.var(cur().fresh_name("n_defl"))
                    cur().assume(L >= 0)
                    fr.vars["deflated_idx"] = SymList(L, "deflated_idx")
        r = R(arrays={var: closed}, assume=assume, tag=f"schur.{tag}.")
        return r

    class MainAS(LoopRule):
        modifies = ("HR", "Q_real", "H", "m_active", "k", "prev_max_sub", "stagnation_count", "diag", "sigma")

        def havoc(self, it, fr, k):
            c = cur()
            n = fr.vars["n"]
            fr.vars["HR"] = ix.input_array(c.fresh_name("HRin"), [4 * n, 4 * n])
            fr.vars["Q_real"] = AnyReal((4 * n, 4 * n))
            fr.vars["H"] = fresh_q("Hhead", (n, n))
            ma, kk, sc = SInt.var(c.fresh_name("m_active")), SInt.var(c.fresh_name("k")), SInt.var(c.fresh_name("stagn"))
            c.assume(sand(ma >= 2, ma <= n, kk >= 0, sc >= 0))
            fr.vars["m_active"], fr.vars["k"], fr.vars["stagnation_count"] = ma, kk, sc
            pm = SReal.var(c.fresh_name("prev_max_sub"))
            c.assume(pm >= 0)
            fr.vars["prev_max_sub"] = pm
            fr.vars["sigma"] = SReal.var(c.fresh_name("sigma_prev"))
            L = SInt.var(c.fresh_name("n_it"))
            c.assume(L >= 0)
            fr.vars["diag"] = {"iterations": SymList(L, "iterations"), "converged": False, "iterations_run": 0}

    def shrunk(it, fr):
        m2 = SInt.var(cur().fresh_name("m_active"))
        cur().assume(sand(m2 >= 1, m2 <= fr.vars["m_active"]))       # (bound discharged by the separate 'shrink' case)
        return m2

    class ShrinkA(LoopRule):
        """while m_active > 1 and ...: m_active -= 1   keeps  1 <= m_active <= (its value before the loop)  - what the matrix-level case assumes"""
        modifies = ("m_active",)

        def establish(self, it, fr, start):
            cur().ghost["m_before_shrink"] = fr.vars["m_active"]

        def havoc(self, it, fr, k):
            c = cur()
            m2 = SInt.var(c.fresh_name("m_active"))
            c.assume(sand(m2 >= 1, m2 <= c.ghost["m_before_shrink"]))
            fr.vars["m_active"] = m2

        def preserve(self, it, fr, k):
            c = cur()
            c.require("inv.preserve", sand(SBool.mk(zi(fr.vars["m_active"]) >= 1), SBool.mk(zi(fr.vars["m_active"]) <= zi(c.ghost["m_before_shrink"]))),
                      "the active size stays between 1 and its value before the loop", key="schur.shrink.inv.preserve")

    def k_contract_q(I, args, kwargs):
        R_, m_, n_ = args
        return fresh_q("Contr", (m_, n_))            # (argument: an index-level array or an AnyReal)

    def k_expand_q(I, args, kwargs):
        (Qm,) = args
        return ix.input_array(cur().fresh_name("Real"), [4 * Qm.shape[0], 4 * Qm.shape[1]])

    class AnyReal:
        """a real 4n x 4n matrix about which nothing is known, closed under the products the main loop forms with it"""
        qv_value = True

        def __init__(self, shape):
            self.shape = tuple(shape)

        def has_attr(self, name):
            return name == "shape"

        def __matmul__(self, o):
            return AnyReal(self.shape)

        def __rmatmul__(self, o):
            return AnyReal(self.shape)

    def k_shift_sweep(I, args, kwargs):
        HRin = args[0]
        return AnyReal(HRin.shape), AnyReal(HRin.shape)
    contracts.update({U + "real_expand": k_expand_q, U + "real_contract": k_contract_q, NEST: k_shift_sweep})
    first = zero_rule("H", formula_first, "first")
    first.modifies = tuple(first.modifies) + ("deflated_idx",)
    cases[QS] = {(QS, 2): at(MainAS(), None, "k<max_iterandm_active>1"), (QS, 3): at(first, "i", "range(1,m_active)"),
                 (QS, 4): at(HavocAll({"m_active": shrunk}), None, "m_active>1and_quat_scalar_abs(H[m_active-1,m_active-2])<=tol"),
                 (QS, 5): at(HavocAll({"subdiag_norm": lambda it, fr: SReal.var(cur().fresh_name("sdn"))}), "i", "range(1,m_active)"),
                 (QS, 7): at(zero_rule("H_tmp", formula_second, "second"), "i", "range(1,m_active)"),
                 (QS, 9): at(HavocAll({"H_final": arb("Hfin")}), "i", "range(n)")}
    FORMULA.update({QN: formula_pure, QI: formula_pure, QU: formula_unified})
    cases[QE] = {(QE, 0): at(MainAE(), "k", "range(max_iter)"), (QE, 1): at(Scan(), None, "i>lo"),
                 (QE, 3): at(HavocAll({"H": arb("Hsw"), "Q_accum": arb("Qsw")}), "s", "range(start,hi)"), (QE, 4): at(AfterScan(), "j", "range(lo+1,hi+1)")}
    EXTRA = {QN: dict(shift_mode="rayleigh"), QI: dict(shift_mode="rayleigh"), QU: dict(variant="aed", precompute_shifts=False, aed_factor="sym"),
             QE: dict(variant="aed_windowed", window="sym"), QS: dict(shift="rayleigh")}

    def post(I, ctx, outcome, val, aux):
        return []
    class StopHere(LoopRule):
        skip_body = True
        modifies = ()

        def establish(self, it, fr, start):
            raise PathAbort("this case is about the loop before")

        def havoc(self, it, fr, k):
            pass
    # the shrink loop of the real-expansion variant on its own (kept apart from the deflation loops: their paths would multiply)
    cases[(QS, "shrink")] = {(QS, 2): at(MainAS(), None, "k<max_iterandm_active>1"),
                             (QS, 3): at(HavocAll({"H": arb("Hdefl"), "deflated_idx": lambda it, fr: SymList(SInt.var(cur().fresh_name("nd")), "deflated_idx")}), "i", "range(1,m_active)"),
                             (QS, 4): at(ShrinkA(), None, "m_active>1and_quat_scalar_abs(H[m_active-1,m_active-2])<=tol"),
                             (QS, 5): at(StopHere(), "i", "range(1,m_active)"), (QS, 9): at(StopHere(), "i", "range(n)")}
    for key_, rules in cases.items():
        qn, cname = (key_, "entry_loops") if isinstance(key_, str) else (key_[0], "entry_loops." + key_[1])

        def setup(I, ctx, qn=qn):
            (n,) = dims(ctx, "n")
            ctx.assume(n >= 1, base=True)
            A = ix.input_array("A", [n, n], quat=True)
            K, tol = SInt.var("max_iter"), SReal.var("tol")
            ctx.assume(sand(K >= 0, tol >= 0), base=True)
            kw = dict(EXTRA[qn])
            if kw.get("aed_factor") == "sym":
                kw["aed_factor"] = SReal.var("aed_factor")
                ctx.assume(kw["aed_factor"] > 0, base=True)
            if kw.get("window") == "sym":
                kw["window"] = SInt.var("window")
                ctx.assume(kw["window"] >= 1, base=True)
            return [A], dict(max_iter=K, tol=tol, return_diagnostics=True, **kw), (A, n, tol)
        lib_ = Library("idx")

        def eigvals(Bm):
            c = cur()
            re, im = [SReal.var(c.fresh_name("ev_re")) for _ in range(2)], [SReal.var(c.fresh_name("ev_im")) for _ in range(2)]
            return ix.IArr.from_fn([2], lambda vi: ix.CScal(ix.ite(SBool.mk(zi(vi[0]) == 0), re[0], re[1]), ix.ite(SBool.mk(zi(vi[0]) == 0), im[0], im[1])), cplx=True)
        lib_.np.table["linalg"].table["eigvals"] = eigvals
        run_case(rep, P, qn, cname, setup, post, lib=lib_, contracts=contracts, loop_rules=rules, clauses=[], replay=replay_variants, timeout_s=60,
                 loop_end=True, max_paths=600)


# ---------------------------------------------------------------------------------------------------
# the real-expansion variant quaternion_schur: the whole iteration at matrix level
def real_expansion_iteration(rep: Report):
    """quaternion_schur works on the 4n x 4n real representation HR = real_expand(H) and rotates it by 8 x 8 blocks  P8^T G^(T) P8  built from
    ggivens.  Facts used, each discharged elsewhere:  real_expand is a *-homomorphism with real_contract its inverse on its image (C02);
    ggivens returns the component-blocked embedding G = Realp(M) of a unitary 2 x 2 quaternion matrix M, G^T = Realp(M^H) (C16, C02);
    P8^T Realp(M) P8 = real_expand(M) for the permutation the code builds (obligation C10.P8.layout below, index level).  With them a real
    structured matrix is handled as RealOf(X), X its quaternion matrix, and the statements
        HRs[rows, :] = Gc_left @ HRs[rows, :]       HRs[:, cols] = HRs[:, cols] @ Gc_right       Qk[:, cols] = Qk[:, cols] @ Gc_right
    (rows = cols = the eight real indices of quaternion rows s, s+1) are  X <- E^H X,  X <- X E,  Qk <- Qk E  with E = diag(I_s, M, I).
    Invariants:  _apply_single_shift:  HRs = RealOf(W^H (X_in - sigma I) W),  Qk = RealOf(W),  W unitary;   main loop: as for the other variants,
    Q_real = RealOf(Qa), Qa unitary,  Qa^H (P0 A P0^H) Qa - H = D  with D the rotated sum of everything the deflation / clean-up steps zeroed.
    Result on every exit:  Q unitary and  Q^H A Q - T = D  exactly.  (That the zeroed entries are small is sampled for this variant.)"""
    from ..values import HMat, fresh_hmat
    from ..kernels import ALGEBRA
    from ..interp import SymRange
    HBm = "quatica/decomp/hessenberg.py::"
    QS = SC + "quaternion_schur"
    NEST = QS + ".<_apply_single_shift>"
    PERM = [(0, 0), (4, 1), (1, 2), (5, 3), (2, 4), (6, 5), (3, 6), (7, 7)]

    class EntryQ:
        qv_value = True

        def __init__(self, tag):
            self.w, self.x, self.y, self.z = (SReal.var(f"{tag}.{c}") for c in "wxyz")

        def has_attr(self, name):
            return name in "wxyz"

    class SMat(HMat):
        def getitem(self, idx):
            t = idx if isinstance(idx, tuple) else (idx,)
            if len(t) == 2 and not isinstance(t[0], slice) and not isinstance(t[1], slice):
                return EntryQ(cur().fresh_name("entry"))
            return HMat.getitem(self, idx)

    class Runs:
        """list(range(a, a + 4)) + list(range(b, b + 4)): index runs"""
        qv_value = True

        def __init__(self, runs):
            self.runs = list(runs)

        def __add__(self, o):
            if isinstance(o, Runs):
                return Runs(self.runs + o.runs)
            return NotImplemented

    def quat_rows(runs):
        """the quaternion row index s when the runs are the eight real indices 4s .. 4s+3, 4s+4 .. 4s+7"""
        c = cur()
        if not (isinstance(runs, Runs) and len(runs.runs) == 2 and all(L == 4 for _, L in runs.runs)):
            raise OutOfReach("index list other than two runs of four")
        r0, r1 = runs.runs[0][0], runs.runs[1][0]
        sq = SInt.var(c.fresh_name("s_q"))
        if c.valid(SBool.mk(z3.And(SInt.lift(r0) % 4 == 0, SInt.lift(r1) == SInt.lift(r0) + 4))) is not True:
            raise OutOfReach("index runs that are not two consecutive quaternion rows")
        c.assume(SBool.mk(4 * SInt.lift(sq) == SInt.lift(r0)))
        return sq

    class RealOf:
        """a 4r x 4c real matrix that is real_expand(X)"""
        qv_value = True

        def __init__(self, X):
            self.X = X

        @property
        def shape(self):
            return (4 * self.X.shape[0], 4 * self.X.shape[1])

        def has_attr(self, name):
            return name in ("shape", "copy")

        def copy(self):
            return RealOf(HMat(self.X.p))

        def __sub__(self, o):
            return RealOf(HMat(self.X.p - o.X.p)) if isinstance(o, RealOf) else NotImplemented

        def __add__(self, o):
            return RealOf(HMat(self.X.p + o.X.p)) if isinstance(o, RealOf) else NotImplemented

        def __rmul__(self, s_):
            return RealOf(HMat(self.X.p.scale(s_))) if isinstance(s_, (SReal, Fraction, int)) else NotImplemented

        __mul__ = __rmul__

        def __matmul__(self, o):
            return RealOf(HMat(self.X.p @ o.X.p)) if isinstance(o, RealOf) else NotImplemented

        def getitem(self, idx):
            if isinstance(idx, tuple) and len(idx) == 2 and isinstance(idx[0], Runs) and idx[1] == slice(None):
                return View(self, idx[0], "rows")
            if isinstance(idx, tuple) and len(idx) == 2 and idx[0] == slice(None) and isinstance(idx[1], Runs):
                return View(self, idx[1], "cols")
            raise OutOfReach("index pattern on a structured real matrix")

        def setitem(self, idx, val):
            ok = isinstance(val, Pending) and val.parent is self and isinstance(idx, tuple) and len(idx) == 2
            if ok and val.side == "rows" and isinstance(idx[0], Runs) and idx[1] == slice(None) and idx[0] is val.runs:
                self.X = HMat(embedded(val.block, quat_rows(val.runs), self.X.shape[0]) @ self.X.p)
                return
            if ok and val.side == "cols" and idx[0] == slice(None) and isinstance(idx[1], Runs) and idx[1] is val.runs:
                self.X = HMat(self.X.p @ embedded(val.block, quat_rows(val.runs), self.X.shape[1]))
                return
            raise OutOfReach("write pattern on a structured real matrix")

    class View:
        qv_value = True

        def __init__(self, parent, runs, side):
            self.parent, self.runs, self.side = parent, runs, side

        def __matmul__(self, o):
            if self.side == "cols" and isinstance(o, Block8):
                return Pending(self.parent, self.runs, "cols", o.M)
            return NotImplemented

        def __rmatmul__(self, o):
            if self.side == "rows" and isinstance(o, Block8):
                return Pending(self.parent, self.runs, "rows", o.M)
            return NotImplemented

    class Pending:
        qv_value = True

        def __init__(self, parent, runs, side, block):
            self.parent, self.runs, self.side, self.block = parent, runs, side, block

    class Block8:
        """real_expand(M) for a 2 x 2 quaternion matrix M (interleaved layout)"""
        qv_value = True

        def __init__(self, M):
            self.M = M

        def __matmul__(self, o):
            if isinstance(o, View):
                return o.__rmatmul__(self)
            return NotImplemented

    class Giv:
        """result of ggivens: Realp(M), component-blocked"""
        qv_value = True

        def __init__(self, M):
            self.M = M

        def has_attr(self, name):
            return name == "T"

        @property
        def T(self):
            return Giv(HMat(self.M.p.star))          # Realp(M)^T = Realp(M^H)  (C02)

    class Perm8:
        qv_value = True

        def __init__(self, entries=None, transposed=False):
            self.entries, self.transposed = entries if entries is not None else {}, transposed
            self.shape = (8, 8)

        def has_attr(self, name):
            return name in ("T", "shape")

        def setitem(self, idx, val):
            if not (isinstance(idx, tuple) and all(isinstance(i, int) for i in idx) and val in (1, 1.0, Fraction(1))):
                raise OutOfReach("write into the 8 x 8 permutation other than a constant 1 at a constant position")
            self.entries[idx] = 1

        @property
        def T(self):
            return Perm8(self.entries, not self.transposed)

        def standard(self):
            return self.entries == {(d, s_): 1 for s_, d in PERM}

        def __matmul__(self, o):
            if isinstance(o, Giv) and self.transposed and self.standard():
                return ("P8T.G", o)
            return NotImplemented

    class Half:
        pass

    def matmul_hook(l, r):
        return None

    def embedded(M, s_idx, n):
        """diag(I_s, M, I) for the unitary 2 x 2 block M; the block for M^H is the conjugate transpose of the block for M"""
        c = cur()
        memo = c.ghost.setdefault("embedded", {})
        w = M.p.t
        if len(w) != 1:
            raise OutOfReach("rotation block that is not an atom or its conjugate transpose")
        (word, coef), = w.items()
        if len(word) != 1 or not (isinstance(coef, Fraction) and coef == 1):
            raise OutOfReach("rotation block that is not an atom or its conjugate transpose")
        name, star = word[0]
        key = (name, str(z3.simplify(SInt.lift(s_idx))))
        # the same quaternion row index may be named by different (equal) terms: unify through the solver
        for (nm, _k), (sv, at) in list(memo.items()):
            if nm == name and c.valid(SBool.mk(SInt.lift(sv) == SInt.lift(s_idx))) is True:
                return at.star if star else at
        c.require("index.range", sand(SBool.mk(SInt.lift(s_idx) >= 0), SBool.mk(SInt.lift(s_idx) + 1 < SInt.lift(n))), "quaternion rows s, s+1 inside the matrix")
        at = NC.atom(Atom(c.fresh_name("Emb"), n, n, "orth", alg="H"))
        memo[key] = (s_idx, at)
        return at.star if star else at

    # ---- contracts and library pieces
    def k_hessenbergize(I, args, kwargs):
        (A,) = args
        n = A.shape[0]
        P0 = HMat(NC.atom(Atom("P0", n, n, "orth", alg="H")))
        B = HMat(P0.p @ A.p @ P0.p.star)
        cur().ghost["hess"] = dict(A=A, P0=P0, B=B, n=n)
        return P0, B

    def k_check(I, args, kwargs):
        (Hm,) = args
        E0 = fresh_hmat(cur().fresh_name("Echk"), Hm.shape[0], Hm.shape[1])
        cur().ghost.setdefault("zeroed", []).append(E0)
        cur().ghost["E_last_check"] = E0
        return SMat(Hm.p - E0.p)

    def k_expand(I, args, kwargs):
        (X,) = args
        if not isinstance(X, HMat):
            raise OutOfReach("real_expand of a non-matrix")
        return RealOf(HMat(X.p))

    def k_contract(I, args, kwargs):
        R, m_, n_ = args
        if not isinstance(R, RealOf):
            raise OutOfReach("real_contract of a matrix that is not known to be structured")
        ncm.dims_equal(R.X.shape[0], m_, "real_contract.rows")
        ncm.dims_equal(R.X.shape[1], n_, "real_contract.cols")
        return SMat(R.X.p)

    def k_ggivens(I, args, kwargs):
        return Giv(HMat(NC.atom(Atom(cur().fresh_name("Mg"), 2, 2, "orth", alg="H"))))

    def k_abs(I, args, kwargs):
        v = SReal.var(cur().fresh_name("abs"))
        cur().assume(v >= 0)
        return v

    def k_lowmax(I, args, kwargs):
        v = SReal.var(cur().fresh_name("lowmax"))
        cur().assume(v >= 0)
        return v

    class EvalVec:
        qv_value = True

        def __init__(self, vals):
            self.vals = vals
            self.shape = (len(vals),)

        def has_attr(self, name):
            return name == "shape"

        def getitem(self, i):
            return self.vals[i]

    def eigvals(Bm):
        from ..idx import CScal
        c = cur()
        return EvalVec([CScal(SReal.var(c.fresh_name("ev_re")), SReal.var(c.fresh_name("ev_im"))) for _ in range(2)])

    def np_real(x):
        if isinstance(x, EvalVec):
            return EvalVec([v.re for v in x.vals])
        from ..idx import CScal
        if isinstance(x, CScal):
            return x.re
        return x

    class Scratch:
        qv_value = True

        def __init__(self, shape):
            self.shape = tuple(shape)

        def has_attr(self, name):
            return name == "shape"

    def np_array(x, dtype=None):
        return Scratch((len(x),) if isinstance(x, list) else ())

    def alloc(what, shape, dtype):
        c = cur()
        shp = shape if isinstance(shape, tuple) else (shape,)
        n = c.ghost.get("hess", {}).get("n")
        if what == "eye" and n is not None and c.valid(SBool.mk(SInt.lift(shp[0]) == 4 * SInt.lift(n))) is True:
            return RealOf(HMat(NC.eye(n)))
        if what in ("zeros", "empty") and len(shp) == 2 and shp == (8, 8):
            return Perm8()
        return None

    lib = Library("nc")
    lib.qmode = "H"
    lib.alloc_hooks.append(alloc)
    lib.np.table["linalg"].table["eigvals"] = eigvals
    lib.np.table["real"] = np_real
    lib.np.table["array"] = np_array
    orig_builtins = lib._builtins

    def patched(interp):
        t = dict(orig_builtins(interp))
        old_list = t["list"]

        def b_list(x=()):
            if isinstance(x, SymRange):
                L = z3.simplify(SInt.lift(x.stop) - SInt.lift(x.start)) if not (isinstance(x.start, int) and isinstance(x.stop, int)) else None
                if L is not None and z3.is_int_value(L) and x.step == 1:
                    return Runs([(x.start, L.as_long())])
                raise OutOfReach("list(range(...)) of symbolic length")
            return old_list(x)
        t["list"] = b_list
        return t
    lib._builtins = patched

    # the interpreter evaluates  P8.T @ G.T @ P8  left to right:  (P8.T @ G.T) @ P8
    class PG:
        qv_value = True

        def __init__(self, giv):
            self.giv = giv

        def __matmul__(self, o):
            if isinstance(o, Perm8) and not o.transposed and o.standard():
                return Block8(self.giv.M)                   # P8^T Realp(M) P8 = real_expand(M): obligation C10.P8.layout
            return NotImplemented
    Perm8.__matmul__ = lambda self, o: PG(o) if (isinstance(o, Giv) and self.transposed and self.standard()) else NotImplemented

    class Sweep(LoopRule):
        """_apply_single_shift, for s in range(0, m_sz - 1):  HRs = RealOf(W^H Xs W),  Qk = RealOf(W),  W unitary  (Xs = the shifted input)"""
        modifies = ("HRs", "Qk")

        def check(self, fr, phase):
            c = cur()
            X0 = c.ghost["shift_head"]
            Hs, Qk = fr.vars.get("HRs"), fr.vars.get("Qk")
            rec = c.ghost.setdefault("emit", [])
            if not (isinstance(Hs, RealOf) and isinstance(Qk, RealOf)):
                rec.append((f"shift_sweep.{phase}.state_is_structured", smt.REFUTED, "syntactic", 0.0, None))
                return
            W = Qk.X.p
            st1 = ncm.nc_equal_obligation(W.star @ W, NC.eye(W.cols), c.hyps())[0]
            st2 = ncm.nc_equal_obligation(Hs.X.p, W.star @ X0.p @ W, c.hyps())[0]
            rec.append((f"shift_sweep.{phase}.Qk_unitary", st1, "normal-form", 0.0, None))
            rec.append((f"shift_sweep.{phase}.HRs_is_QkH_X_Qk", st2, "normal-form", 0.0, None))

        def establish(self, it, fr, start):
            cur().ghost["shift_head"] = HMat(fr.vars["HRs"].X.p)
            self.check(fr, "establish")

        def havoc(self, it, fr, k):
            c = cur()
            X0 = c.ghost["shift_head"]
            n = X0.shape[0]
            W = NC.atom(Atom(c.fresh_name("Wk"), n, n, "orth", alg="H"))
            fr.vars["HRs"] = RealOf(HMat(W.star @ X0.p @ W))
            fr.vars["Qk"] = RealOf(HMat(W))

        def preserve(self, it, fr, k):
            self.check(fr, "preserve")

    class Zeroing(LoopRule):
        """a loop that only sets entries of one quaternion matrix to zero (and keeps bookkeeping scalars / lists):  X - E"""
        skip_body = True

        def __init__(self, target, extra=()):
            self.target = target
            self.modifies = (target,) + tuple(extra)
            self.extra = extra

        def havoc(self, it, fr, k):
            c = cur()
            Xm = fr.vars[self.target]
            E = fresh_hmat(c.fresh_name("Ez"), Xm.shape[0], Xm.shape[1])
            fr.vars[self.target] = SMat(Xm.p - E.p)
            c.ghost.setdefault("zeroed_now", []).append(E)
            for nm in self.extra:
                if nm == "deflated_idx":
                    L = SInt.var(c.fresh_name("n_defl"))
                    c.assume(L >= 0)
                    fr.vars[nm] = SymList(L, "deflated_idx", entry=lambda j: SInt.var(f"defl[{SInt.lift(j)}]"))

    class Shrink(LoopRule):
        skip_body = True
        modifies = ("m_active",)

        def havoc(self, it, fr, k):
            c = cur()
            m2 = SInt.var(c.fresh_name("m_active"))
            c.assume(sand(m2 >= 1, m2 <= fr.vars["m_active"]))
            fr.vars["m_active"] = m2

    class MaxLoop(LoopRule):
        skip_body = True
        modifies = ("subdiag_norm",)

        def havoc(self, it, fr, k):
            v = SReal.var(cur().fresh_name("subdiag_norm"))
            cur().assume(v >= 0)
            fr.vars["subdiag_norm"] = v

    class MainR(LoopRule):
        modifies = ("HR", "Q_real", "H", "m_active", "k", "prev_max_sub", "stagnation_count", "diag", "sigma")

        def establish(self, it, fr, start):
            c = cur()
            g = c.ghost
            B = g["hess"]["B"]
            HR, Qr = fr.vars["HR"], fr.vars["Q_real"]
            ok = isinstance(HR, RealOf) and isinstance(Qr, RealOf)
            st = ncm.nc_equal_obligation(Qr.X.p.star @ Qr.X.p, NC.eye(g["hess"]["n"]), c.hyps())[0] if ok else smt.REFUTED
            g.setdefault("emit", []).append(("main.establish.Q_real_is_a_structured_unitary", st, "normal-form", 0.0, None))
            g["D_entry"] = HMat(Qr.X.p.star @ B.p @ Qr.X.p - HR.X.p) if ok else None

        def havoc(self, it, fr, k):
            c = cur()
            g = c.ghost
            n, B = g["hess"]["n"], g["hess"]["B"]
            Qa = HMat(NC.atom(Atom(c.fresh_name("Qa"), n, n, "orth", alg="H")))
            D = fresh_hmat(c.fresh_name("D"), n, n)
            g["Qa"], g["D"] = Qa, D
            fr.vars["Q_real"] = RealOf(Qa)
            fr.vars["HR"] = RealOf(HMat(Qa.p.star @ B.p @ Qa.p - D.p))
            fr.vars["H"] = SMat(Qa.p.star @ B.p @ Qa.p - D.p)
            ma, kk, sc = SInt.var(c.fresh_name("m_active")), SInt.var(c.fresh_name("k")), SInt.var(c.fresh_name("stagn"))
            c.assume(sand(ma >= 1, ma <= n, kk >= 0, sc >= 0))
            fr.vars["m_active"], fr.vars["k"], fr.vars["stagnation_count"] = ma, kk, sc
            pm = SReal.var(c.fresh_name("prev_max_sub"))
            c.assume(pm >= 0)
            fr.vars["prev_max_sub"] = pm
            fr.vars["sigma"] = SReal.var(c.fresh_name("sigma_prev"))
            L = SInt.var(c.fresh_name("n_it"))
            c.assume(L >= 0)
            fr.vars["diag"] = {"iterations": SymList(L, "iterations"), "converged": False, "iterations_run": 0}
            g["zeroed_now"] = []
            g["head_state"] = (Qa, D)
            g["main_kind"] = g.get("_havoc_kind")

        def preserve(self, it, fr, k):
            c = cur()
            g = c.ghost
            rec = g.setdefault("emit", [])
            B, (Qa, D) = g["hess"]["B"], g["head_state"]
            HR, Qr = fr.vars.get("HR"), fr.vars.get("Q_real")
            if not (isinstance(HR, RealOf) and isinstance(Qr, RealOf)):
                rec.append(("main.preserve.state_is_structured", smt.REFUTED, "syntactic", 0.0, None))
                return
            st1 = ncm.nc_equal_obligation(Qr.X.p.star @ Qr.X.p, NC.eye(g["hess"]["n"]), c.hyps())[0]
            rec.append(("main.preserve.Q_real_stays_a_structured_unitary", st1, "normal-form", 0.0, None))
            # the new discrepancy is determined by the old one, the rotation of this pass and what this pass zeroed: Qn = Qa V
            V = Qa.p.star @ Qr.X.p
            zs = g.get("zeroed_now", [])
            # zeroings before the rotation (first deflation loop) are rotated along, those after it (check_hessenberg, second deflation loop) are not
            pre = zs[0].p if zs else NC.zero(D.shape[0], D.shape[1])
            post_ = NC.zero(D.shape[0], D.shape[1])
            for E in zs[1:]:
                post_ = post_ + E.p
            if g.get("E_last_check") is not None and g.get("E_last_check_pass") is g.get("E_last_check"):
                pass
            chk = g.get("check_in_pass")
            if chk is not None:
                post_ = post_ + chk.p
            Dn = V.star @ (D.p + pre) @ V + post_
            st2 = ncm.nc_equal_obligation(Qr.X.p.star @ B.p @ Qr.X.p - HR.X.p, Dn, c.hyps())[0]
            rec.append(("main.preserve.discrepancy_is_rotated_old_discrepancy_plus_this_pass_zeroings", st2, "normal-form", 0.0, None))
            dg = fr.vars.get("diag")
            ok = isinstance(dg, dict) and dg.get("converged") is False
            rec.append(("main.preserve.a_pass_that_does_not_stop_leaves_converged_False", smt.PROVED if ok else smt.REFUTED, "syntactic", 0.0, None))

    def k_check_in_pass(I, args, kwargs):
        (Hm,) = args
        E0 = fresh_hmat(cur().fresh_name("Echk"), Hm.shape[0], Hm.shape[1])
        g = cur().ghost
        if "head_state" in g:
            g["check_in_pass"] = E0
        return SMat(Hm.p - E0.p)

    contracts = dict(ALGEBRA)
    contracts.update({HBm + "hessenbergize": k_hessenbergize, HBm + "check_hessenberg": k_check_in_pass, U + "real_expand": k_expand, U + "real_contract": k_contract,
                      U + "ggivens": k_ggivens, SC + "_quat_scalar_abs": k_abs, SC + "_strictly_lower_max": k_lowmax})

    def at(rule, target, it_src):
        rule.expects = {"target": target, "iter": it_src}
        return rule
    rules = {(QS, 2): at(MainR(), None, "k<max_iterandm_active>1"),
             (QS, 3): at(Zeroing("H", ("deflated_idx",)), "i", "range(1,m_active)"),
             (QS, 4): at(Shrink(), None, "m_active>1and_quat_scalar_abs(H[m_active-1,m_active-2])<=tol"),
             (QS, 5): at(MaxLoop(), "i", "range(1,m_active)"),
             (QS, 7): at(Zeroing("H_tmp"), "i", "range(1,m_active)"),
             (QS, 9): at(Zeroing("H_final"), "i", "range(n)"),
             (NEST, 0): at(Sweep(), "s", "range(0,m_sz-1)")}
    for shift in ("rayleigh", "wilkinson", "double"):
        def setup(I, ctx, shift=shift):
            (n,) = dims(ctx, "n")
            ctx.assume(n >= 1, base=True)
            A = fresh_hmat("A", n, n)
            K, tol = SInt.var("max_iter"), SReal.var("tol")
            ctx.assume(sand(K >= 0, tol >= 0), base=True)
            return [A], dict(max_iter=K, tol=tol, shift=shift, return_diagnostics=True), (A, n)

        def post(I, ctx, outcome, val, aux):
            A, n = aux
            g = ctx.ghost
            if outcome == "loop_end":
                return list(g.get("emit", []))
            if outcome != "return" or not (isinstance(val, tuple) and len(val) == 3 and isinstance(val[0], HMat) and isinstance(val[1], HMat)):
                return [("returns_Q_T_diagnostics", False)] if outcome == "return" else []
            Q, T = val[0], val[1]
            out = list(g.get("emit", [])) + [("returns_Q_T_diagnostics", True)]
            out.append(("Q_is_unitary", ncm.nc_equal_obligation(Q.p.star @ Q.p, NC.eye(n), ctx.hyps())[0], "normal-form", 0.0, None))
            # D at the exit: the head state's D (exit through the loop test) or this pass's (exit through the convergence break, which comes after
            # the first deflation loop and before any rotation), plus the final clean-up
            zs = g.get("zeroed_now", [])
            final = zs[-1].p if zs else NC.zero(n, n)
            if g.get("main_kind") == "generic":
                D0 = g["head_state"][1].p
                first = zs[0].p if len(zs) >= 2 else NC.zero(n, n)
                Dx = D0 + first + final
            elif g.get("main_kind") == "exhausted":
                Dx = g["D"].p + final
            else:
                Dx = (g["D_entry"].p if g.get("D_entry") is not None else NC.zero(n, n)) + final
            st, be, secs, wit = ncm.nc_equal_obligation(Q.p.star @ A.p @ Q.p - T.p, Dx, ctx.hyps())
            out.append(("QH_A_Q_minus_T_is_the_accumulated_zeroings", st, be, secs, ({"words": wit, "phase": g.get("main_kind"), "zeroed": [str(z_.p) for z_ in zs]} if wit else None)))
            return out
        cl = ["returns_Q_T_diagnostics", "Q_is_unitary", "QH_A_Q_minus_T_is_the_accumulated_zeroings", "main.establish.Q_real_is_a_structured_unitary",
              "shift_sweep.establish.Qk_unitary", "shift_sweep.establish.HRs_is_QkH_X_Qk", "shift_sweep.preserve.Qk_unitary", "shift_sweep.preserve.HRs_is_QkH_X_Qk",
              "main.preserve.Q_real_stays_a_structured_unitary", "main.preserve.discrepancy_is_rotated_old_discrepancy_plus_this_pass_zeroings",
              "main.preserve.a_pass_that_does_not_stop_leaves_converged_False"]
        run_case(rep, P, QS, f"iteration.shift_{shift}", setup, post, lib=lib, contracts=contracts, loop_rules=rules, clauses=cl, replay=replay_variants, timeout_s=30,
                 loop_end=True, max_paths=1500)


def p8_layout(rep: Report):
    """P8^T Realp(M) P8 = real_expand(M) for every 2 x 2 quaternion matrix M and the permutation quaternion_schur builds
    (P8[dst, src] = 1 for the pairs below): both real functions are executed on symbolic components and compared entry by entry."""
    PERM = [(0, 0), (4, 1), (1, 2), (5, 3), (2, 4), (6, 5), (3, 6), (7, 7)]
    dst = {s_: d for s_, d in PERM}

    def setup(I, ctx):
        comps = [ix.input_array(f"M{c}", [2, 2]) for c in range(4)]
        return comps, {}, comps

    def post(I, ctx, outcome, val, comps):
        if outcome != "return" or not isinstance(val, ix.IArr) or tuple(val.vshape) != (8, 8):
            return [("Realp_of_2x2_components_is_8x8", False)]
        Mq = ix.IArr.from_fn([2, 2], lambda vi: ix.QScal(*[comps[c].at(vi[0], vi[1]) for c in range(4)]), quat=True)
        RE = I.call_qual(U + "real_expand", Mq)
        ok = isinstance(RE, ix.IArr) and tuple(RE.vshape) == (8, 8)
        out = [("Realp_of_2x2_components_is_8x8", True), ("real_expand_of_2x2_is_8x8", ok)]
        if ok:
            conds = [ix.scal_eq(RE.at(a, b), val.at(dst[a], dst[b])) for a in range(8) for b in range(8)]
            out.append(("P8T_Realp_P8_equals_real_expand", sand(*conds)))
            v = smt.prove(ctx.hyps(), sand(*[ix.scal_eq(RE.at(a, b), val.at(a, b)) for a in range(8) for b in range(8)]).z, 10)
            rep.canary("C10.canary.P8_layout_without_the_permutation", v.status == smt.REFUTED)
        return out
    run_case(rep, P, U + "Realp", "P8.layout", setup, post, lib=Library("idx"), clauses=["Realp_of_2x2_components_is_8x8", "real_expand_of_2x2_is_8x8", "P8T_Realp_P8_equals_real_expand"],
             scope="all-shapes", replay=replay_variants, timeout_s=30, site_obligations=False)
    # the permutation in the code is the one above (read from the source on this run)
    m_, node = rep.repo.function(SC + "quaternion_schur")
    found = None
    for n_ in ast.walk(node):
        if isinstance(n_, ast.For) and isinstance(n_.iter, ast.List) and all(isinstance(e, ast.Tuple) for e in n_.iter.elts):
            try:
                found = [tuple(ast.literal_eval(e)) for e in n_.iter.elts]
            except Exception:
                found = None
            break
    rep.add(Obligation(f"{P}.P8.layout.permutation_in_the_code_is_the_proved_one", SC + "quaternion_schur", "all-shapes", smt.PROVED if found == PERM else smt.UNDECIDED,
                       "syntactic", 0.0, None if found == PERM else {"found": found}))


def check_schur(fn, A4, budget, tol, hermitian_spectrum=None):
    from .. import runtime as rt
    n = A4.shape[0]
    out = fn(rt.q_from4(A4), budget)
    Qm, Tm, dg = out
    Q4, T4 = rt.q_to4(Qm), rt.q_to4(Tm)
    sc = max(1.0, rt.fro(A4))
    if not (np.all(np.isfinite(Q4)) and np.all(np.isfinite(T4))):
        return {"what": "non-finite output"}
    e = rt.fro(rt.qmm(rt.qH(Q4), Q4) - rt.eye4(n))
    if not e <= 1e-9:
        return {"what": "Q is not unitary", "err": e}
    e = rt.fro(rt.qmm(rt.qmm(Q4, T4), rt.qH(Q4)) - A4)
    if not e <= 1e-7 * n * sc:
        return {"what": "Q T Q^H != A beyond the deflation tolerance", "err": e}
    if dg.get("converged"):
        low = max([np.linalg.norm(T4[i, j]) for i in range(n) for j in range(i)] or [0.0])
        if not low <= 10 * tol * sc:
            return {"what": "converged=True but T is not upper triangular to the tolerance", "max_strictly_lower": low, "tol": tol}
        if hermitian_spectrum is not None:
            d = np.array([T4[i, i] for i in range(n)])
            if not (np.abs(d[:, 1:]).max() <= 1e-7 * sc) or not np.allclose(np.sort(d[:, 0]), np.sort(hermitian_spectrum), atol=1e-6 * sc):
                return {"what": "converged on Hermitian input but diag(T) is not the real spectrum", "diag": d}
    return None


def matrix_classes(rng, n):
    from .. import runtime as rt
    from .c08 import hermitian_from_spectrum
    lam = list(np.linspace(1.0, 2.0 * n, n) * np.array([(-1) ** i for i in range(n)]))
    G = rng.standard_normal((n, n, 4))
    tri = G.copy()
    for i in range(n):
        for j in range(i):
            tri[i, j] = 0
    Qn = rt.gram_schmidt_unitary(rng, n)
    D = np.zeros((n, n, 4))
    for i in range(n):
        D[i, i] = [float(i + 1), 0.5 * i, 0, 0]
    normal = rt.qmm(rt.qmm(Qn, D), rt.qH(Qn))
    lowr = rt.qmm(rng.standard_normal((n, 1, 4)), rng.standard_normal((1, n, 4)))
    zc = G.copy()
    zc[1:, 0] = 0
    zp = G.copy()
    if n >= 2:
        zp[1, 0] = 0          # exactly zero pivot of the first reflector, non-zero tail below it (n >= 3)
    zd = G.copy()
    for i in range(n):
        zd[i, i] = 0          # zero diagonal: the first column of every 2 x 2 QR step starts with an exact zero
    return {"zero_pivot_nonzero_tail": (zp, None), "zero_diagonal": (zd, None), "generic": (G, None), "hermitian": (hermitian_from_spectrum(rng, lam), lam), "triangular": (tri, None), "normal": (normal, None),
            "low_rank": (lowr, None), "integer": (rng.integers(-3, 4, size=(n, n, 4)).astype(float), None), "zero_first_subcolumn": (zc, None)}


def replay_variants(seed):
    from .. import runtime as rt
    rng = np.random.default_rng(seed)
    for n in (1, 3, 4):
        for cname, (A4, spec) in matrix_classes(rng, n).items():
            for vname, fn, tol in variant_calls(rt):
                for budget in (0, 3, None):
                    try:
                        res = check_schur(fn, A4, budget, tol, spec)
                    except Exception as e:
                        res = {"exception": f"{type(e).__name__}: {e}"}
                    if res:
                        res.update({"failed": True, "A": A4, "variant": vname, "class": cname, "budget": budget})
                        return res
    return {"failed": False}


def bounded(rep: Report, tier, seed):
    from .. import runtime as rt
    rng = np.random.default_rng(seed)
    nmax = 4 if tier == "quick" else 6
    budgets = (0, 1, 3, None) if tier == "quick" else (0, 1, 2, 5, 40, None)
    b = rep.add_bounded(Bounded("variants_x_classes_x_budgets", f"n = 1..{nmax} x 9 matrix classes x 18 variant/shift/window settings x iteration budgets {budgets}",
                                "Q unitary; ||Q T Q^H - A|| <= 1e-7 n ||A||; converged flag => strictly lower part <= 10 tol ||A||; Hermitian & converged => real diagonal = spectrum"))
    calls = variant_calls(rt)
    for n in range(1, nmax + 1):
        for cname, (A4, spec) in matrix_classes(rng, n).items():
            for vname, fn, tol in calls:
                for budget in budgets:
                    if tier == "quick" and budget is None and n == 4 and cname in ("integer", "low_rank") and vname.startswith("schur["):
                        continue
                    b.case(f"{P}.bounded.{vname}", (n, cname, vname, budget), lambda fn=fn, A4=A4, budget=budget, tol=tol, spec=spec: check_schur(fn, A4, budget, tol, spec),
                           f"{vname} on a {n}x{n} {cname} matrix with budget {budget}", facts={"n": n, "class": cname, "variant": vname, "budget": budget}, inputs={"A": A4, "budget": budget})
    b.samples.append({"variant": "experimental[aed_windowed]", "class": "zero_first_subcolumn", "n": 3, "budget": 1})
    b.done()


def run(tier, seed):
    rep = Report(P, tier, seed, "exploration")
    rep.assumptions += [
        "all five variants are proved through their whole iteration at matrix level (householder_matrix / ggivens unitary by their C09 / C16 contracts, real_expand a *-homomorphism with real_contract its inverse by C02, numpy fancy-index block updates X[idx, :] = B @ X[idx, :] read as multiplication by the embedded block); the accumulated zeroings D are bounded entrywise by the variants' own deflation tests (index-level contracts of every deflation loop / scan) and their norm is not summed up",
        "hessenbergize, check_hessenberg, quat_matmat, quat_hermitian, real_expand / real_contract are used through contracts (C09, C01, C02)",
        "floats as reals; 'accuracy governed by the deflation tolerance' is checked with the explicit bound 1e-7 n ||A||",
    ]
    rep.trusted += ["qv engine", "z3 5.1", "library model"]
    deductive(rep, tier)
    pure_iteration(rep)
    pure_entry_loops(rep)
    real_expansion_iteration(rep)
    p8_layout(rep)
    from ..frame import no_module_state
    no_module_state(rep, P, [SC + n_ for n_ in ("quaternion_schur", "quaternion_schur_pure", "quaternion_schur_pure_implicit", "quaternion_schur_unified", "quaternion_schur_experimental", "_strictly_lower_max")])
    bounded(rep, tier, seed)
    return rep


def replay(path):
    import json
    with open(path) as f:
        d = json.load(f)
    print(json.dumps({k: d[k] for k in ("property", "obligation", "text")}, indent=1))
    return run("quick", d.get("seed", 0)).finish()
