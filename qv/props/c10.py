"""C10 - every Schur variant preserves the unitary similarity A = Q T Q^H.

Deductive part:
  rows.spec / cols.spec   the in-place kernels apply_left_rows / apply_right_cols (nested in the unified and the
                          experimental variant) equal left multiplication by the embedded 2x2 block, resp. right
                          multiplication by its conjugate transpose - index level, all n, all s;
  step.similarity         free-algebra lemmas for the three update patterns used by the variants:
                          (H, Q) -> (E H E^H, Q E^H),  explicit QR step with shift,  composition with the
                          Hessenberg reduction:  Q' T' Q'^H = Q T Q^H whenever the factor is unitary;
  flag.sound.<variant>    for every variant: whatever state the iteration leaves (loop replaced by an arbitrary
                          state of all variables it may modify), diagnostics['converged'] = True implies that every
                          entry strictly below the diagonal of the returned T has modulus <= tol; the returned Q is
                          P0^H Q_accum and T is the final iterate; guards; n = 0.
The loop bodies (entry-level sweeps, deflation) are outside the engine's reach: that the iterate stays
unitarily similar to A through every shift schedule, deflation decision and early exit is decided by the
bounded stand-in: every variant x shift x budget (0, 1, 2, 5, default) on n <= 5 (6) matrix classes."""
from __future__ import annotations

import ast
import itertools
from fractions import Fraction

import numpy as np
import z3

from .. import idx as ix
from .. import nc as ncm
from .. import smt
from ..interp import LoopRule
from ..core import Bounded, Obligation, Report, run_case
from ..interp import Interp
from ..libmodel import Library
from ..nc import NC, Atom
from ..rules import HavocAll
from ..sym import Ctx, OutOfReach, SInt, SReal, SBool, cur, sand, snot, sor, ssqrt
from ..values import FuncVal, SymList, Opaque
from .c01 import dims

P = "C10"
SC = "quatica/decomp/schur.py::"
HB = "quatica/decomp/hessenberg.py::"
U = "quatica/utils.py::"
VARIANTS = ["quaternion_schur", "quaternion_schur_pure", "quaternion_schur_pure_implicit", "quaternion_schur_unified", "quaternion_schur_experimental"]


def nested(rep, outer, name):
    m, node = rep.repo.function(SC + outer)
    for n in ast.walk(node):
        if isinstance(n, ast.FunctionDef) and n.name == name and n is not node:
            return FuncVal(m, n, f"{SC}{outer}.<{name}>")
    raise KeyError(f"{outer}.{name}")


def k_herm(I, args, kwargs):
    return args[0].conj().transpose()


def fresh_q(name, shape):
    return ix.input_array(cur().fresh_name(name), list(shape), quat=True)


def deductive(rep: Report, tier):
    # ------------------------------------------------------------------ row / column kernels
    for outer in ("quaternion_schur_unified", "quaternion_schur_experimental"):
        rep.function(SC + outer)
        for kern in ("apply_left_rows", "apply_right_cols"):
            def setup(I, ctx, outer=outer, kern=kern):
                n, c_ = dims(ctx, "n", "c")
                s = SInt.var("s")
                if kern == "apply_left_rows":
                    ctx.assume(sand(s >= 0, s + 1 < n), base=True)
                    M = ix.input_array("M", [n, c_], quat=True)
                else:
                    ctx.assume(sand(s >= 0, s + 1 < c_), base=True)
                    M = ix.input_array("M", [n, c_], quat=True)
                B = ix.input_array("B", [2, 2], quat=True)
                M0 = M.copy()
                return [M, s, B], {}, (M, M0, s, B, n, c_)

            def post(I, ctx, outcome, val, aux, kern=kern):
                M, M0, s, B, n, c_ = aux
                if outcome != "return":
                    return [("returns", False)]
                (i, j) = ix.fresh_indices(ctx, [n, c_])
                if kern == "apply_left_rows":
                    want = ix.ite(i == s, B.at(0, 0) * M0.at(s, j) + B.at(0, 1) * M0.at(s + 1, j),
                                  ix.ite(i == s + 1, B.at(1, 0) * M0.at(s, j) + B.at(1, 1) * M0.at(s + 1, j), M0.at(i, j)))
                    nm = "left_multiplication_by_embedded_block"
                else:
                    # M E^H with (E^H)[s..s+1, s..s+1] = B^H : column s gets M[:,s] conj(B00) + M[:,s+1] conj(B01)
                    want = ix.ite(j == s, M0.at(i, s) * B.at(0, 0).conj() + M0.at(i, s + 1) * B.at(0, 1).conj(),
                                  ix.ite(j == s + 1, M0.at(i, s) * B.at(1, 0).conj() + M0.at(i, s + 1) * B.at(1, 1).conj(), M0.at(i, j)))
                    nm = "right_multiplication_by_embedded_block_hermitian"
                return [("returns", True), (nm, M.at(i, j) == want)]

            def runner(kern=kern, outer=outer, setup=setup, post=post):
                fv = nested(rep, outer, kern)
                # run_case works on qualified names: wrap by a contract-free direct call
                from ..core import Case
                from ..sym import explore
                ctx = Ctx(f"{outer}.{kern}")
                res = {}
                err = None
                try:
                    with ctx:
                        def run():
                            I = Interp(rep.repo, Library("idx"), {U + "quat_hermitian": k_herm}, {})
                            args, kw, aux = setup(I, ctx)
                            run.aux = aux
                            return I.call(fv, args, kw, top=True)
                        for (n_, outcome, val, hyps, eff, gh, unc) in explore(ctx, run, 8):
                            if outcome == "abort":
                                continue
                            ctx.path_hyps = hyps
                            for item in post(None, ctx, outcome, val, run.aux):
                                cl = item[0]
                                z = item[1]
                                if isinstance(z, bool):
                                    st = smt.PROVED if z else smt.REFUTED
                                    det = None
                                else:
                                    v = smt.prove(ctx.hyps(), z.z if isinstance(z, SBool) else z, 30)
                                    st, det = v.status, v.model
                                res.setdefault(cl, []).append((st, det))
                except OutOfReach as e:
                    err = f"out of reach: {e}"
                except Exception as e:
                    err = f"engine exception: {type(e).__name__}: {e}"
                for cl in ("returns", "left_multiplication_by_embedded_block" if kern == "apply_left_rows" else "right_multiplication_by_embedded_block_hermitian"):
                    recs = res.get(cl, [])
                    if err or not recs:
                        st, det = smt.UNDECIDED, err or "no path"
                    else:
                        st = smt.PROVED
                        det = None
                        for s_, d_ in recs:
                            if s_ != smt.PROVED:
                                st, det = s_, d_
                    rep.add(Obligation(f"{P}.{outer}.{kern}.{cl}", SC + outer, "all-shapes", st, "z3-5.1(api)", 0.0, det, replay=replay_variants))
            runner()

    # ------------------------------------------------------------------ similarity lemmas (free algebra)
    with Ctx("C10.lemmas") as ctx:
        ncm.reset_atoms()
        (n,) = dims(ctx, "n")
        Q = NC.atom(Atom("Q", n, n, "orth", alg="H"))
        E = NC.atom(Atom("E", n, n, "orth", alg="H"))
        P0 = NC.atom(Atom("P0", n, n, "orth", alg="H"))
        T = NC.atom(Atom("T", n, n, "gen", alg="H"))
        A = NC.atom(Atom("A", n, n, "gen", alg="H"))
        sg = SReal.var("sigma")

        def lem(id, a, b):
            st, be, sc, det = ncm.nc_equal_obligation(a, b, ctx.hyps())
            rep.add(Obligation(f"{P}.lemma.{id}", "spec", "all-shapes", st, be, sc, det, kind="lemma"))
        # implicit sweeps: H' = E H E^H, Q' = Q E^H
        T2, Q2 = E @ T @ E.star, Q @ E.star
        lem("step.similarity.two_sided", Q2 @ T2 @ Q2.star, Q @ T @ Q.star)
        lem("step.unitary.two_sided", Q2.star @ Q2, NC.eye(n))
        # explicit QR step with shift: R = Qi (T - sigma I), T' = R Qi^H + sigma I, Q' = Q Qi^H
        R = E @ (T - NC.eye(n, sg))
        T3 = R @ E.star + NC.eye(n, sg)
        lem("step.similarity.explicit_qr_shift", Q2 @ T3 @ Q2.star, Q @ T @ Q.star)
        # composition with the Hessenberg reduction: H0 = P0 A P0^H = Q T Q^H  =>  A = (P0^H Q) T (P0^H Q)^H
        Qt = P0.star @ Q
        lem("compose.similarity", Qt @ (Q.star @ (P0 @ A @ P0.star) @ Q) @ Qt.star, A)
        lem("compose.unitary", Qt.star @ Qt, NC.eye(n))
        G = NC.atom(Atom("G", n, n, "gen", alg="H"))
        st, _, _, _ = ncm.nc_equal_obligation((Q @ G.star) @ (G @ T @ G.star) @ (Q @ G.star).star, Q @ T @ Q.star, ctx.hyps())
        rep.canary("C10.canary.similarity_with_non_unitary_factor", st == smt.REFUTED)

    # ------------------------------------------------------------------ epilogue / flag soundness for every variant
    def k_hessenbergize(I, args, kwargs):
        (A,) = args
        n = A.shape[0]
        Pm, Hm = fresh_q("P0", (n, n)), fresh_q("H0", (n, n))
        cur().ghost["hess"] = (A, Pm, Hm)
        return Pm, Hm

    def k_check(I, args, kwargs):
        return args[0]

    def k_matmat(I, args, kwargs):
        A, B = args
        from ..nc import dims_equal
        dims_equal(A.shape[1], B.shape[0], "conformable.matmul")
        out = fresh_q("prod", (A.shape[0], B.shape[1]))
        cur().ghost.setdefault("products", []).append((A, B, out))
        return out

    def k_expand(I, args, kwargs):
        (Q,) = args
        return ix.input_array(cur().fresh_name("Real"), [4 * Q.shape[0], 4 * Q.shape[1]])

    def k_contract(I, args, kwargs):
        R, m, n = args
        out = fresh_q("Contr", (m, n))
        cur().ghost.setdefault("contracts", []).append((R, out))
        return out

    def k_lower_max(I, args, kwargs):
        (Tm,) = args
        M = SReal.var(cur().fresh_name("lowmax"))
        cur().assume(M >= 0)
        cur().ghost["lowmax"] = (Tm, M)
        return M

    def k_shifts(I, args, kwargs):
        return Opaque("shift schedule")
    contracts = {HB + "hessenbergize": k_hessenbergize, HB + "check_hessenberg": k_check, U + "quat_matmat": k_matmat, U + "quat_hermitian": k_herm,
                 U + "real_expand": k_expand, U + "real_contract": k_contract, SC + "_strictly_lower_max": k_lower_max,
                 SC + "_estimate_shifts_power_deflate": k_shifts}

    def arb_diag(it, fr):
        c = cur()
        return {"iterations": SymList(SInt.var(c.fresh_name("nit")), "iterations"), "converged": SBool(z3.Bool(c.fresh_name("conv"))),
                "iterations_run": SInt.var(c.fresh_name("run"))}

    def arb_q(it, fr):
        n = fr.vars["n"]
        return fresh_q("state", (n, n))

    def arb_real(it, fr):
        n = fr.vars["n"]
        return ix.input_array(cur().fresh_name("stateR"), [4 * n, 4 * n])

    def arb_int(it, fr):
        return SInt.var(cur().fresh_name("cnt"))

    def arb_realnum(it, fr):
        return SReal.var(cur().fresh_name("val"))
    loop_of = {"quaternion_schur": 1, "quaternion_schur_pure": 0, "quaternion_schur_pure_implicit": 0, "quaternion_schur_unified": 0, "quaternion_schur_experimental": 0}
    fac = {"quaternion_schur": {"HR": arb_real, "Q_real": arb_real, "H": arb_q, "diag": arb_diag, "k": arb_int, "m_active": arb_int, "stagnation_count": arb_int, "prev_max_sub": arb_realnum},
           "quaternion_schur_pure": {"H": arb_q, "Q_accum": arb_q, "diag": arb_diag},
           "quaternion_schur_pure_implicit": {"H": arb_q, "Q_accum": arb_q, "diag": arb_diag},
           "quaternion_schur_unified": {"H": arb_q, "Q_accum": arb_q, "diag": arb_diag, "shift_idx": arb_int},
           "quaternion_schur_experimental": {"H": arb_q, "Q_accum": arb_q, "diag": arb_diag}}
    for v in VARIANTS:
        # which loop ordinal is the main iteration: the first loop that is not the concrete P8 setup loop
        m_, node = rep.repo.function(SC + v)
        loops = sorted([n for n in ast.walk(node) if isinstance(n, (ast.For, ast.While))], key=lambda n: (n.lineno, n.col_offset))
        main = None
        for k_, lp in enumerate(loops):
            src = ast.unparse(lp.iter) if isinstance(lp, ast.For) else ast.unparse(lp.test)
            if "max_iter" in src:
                main = k_
                break
        if main is None:
            rep.add(Obligation(f"{P}.{v}.flag.sound", SC + v, "all-shapes", smt.UNDECIDED, "", 0.0, "main iteration loop not found"))
            continue
        extra = {}
        if v == "quaternion_schur_unified":
            extra = {"variant": "aed"}

        def setup(I, ctx, v=v, extra=extra):
            (n,) = dims(ctx, "n")
            A = ix.input_array("A", [n, n], quat=True)
            tol = SReal.var("tol")
            mi = SInt.var("max_iter")
            ctx.assume(sand(tol > 0, mi >= 0), base=True)
            kw = dict(max_iter=mi, tol=tol, return_diagnostics=True, **extra)
            return [A], kw, (A, n, tol)

        def post(I, ctx, outcome, val, aux, v=v):
            A, n, tol = aux
            if outcome != "return" or not (isinstance(val, tuple) and len(val) == 3):
                return [("returns_triple", False)]
            Qt, Tm, dg = val
            out = [("returns_triple", True)]
            hs = ctx.ghost.get("hess")
            prods = ctx.ghost.get("products", [])
            out.append(("reduces_the_argument_to_hessenberg_first", hs is not None and hs[0] is A))
            # Q_total = P0^H @ Q_accum : last product has left factor herm(P0)
            okq = bool(prods) and Qt is prods[-1][2]
            out.append(("Q_is_P0h_times_accumulated", okq))
            if okq and hs is not None:
                (i, j) = ix.fresh_indices(ctx, [n, n])
                out.append(("Q_left_factor_is_P0_hermitian", prods[-1][0].at(i, j) == hs[1].at(j, i).conj()))
            lm = ctx.ghost.get("lowmax")
            conv = dg.get("converged") if isinstance(dg, dict) else None
            if conv is False:
                # the flag is False on this path: nothing is claimed about T
                out += [("flag_checked_against_returned_T", True), ("converged_implies_strictly_lower_le_tol", True)]
                return out
            ok = lm is not None and conv is not None
            out.append(("flag_checked_against_returned_T", ok and lm[0] is Tm))
            if ok:
                cz = conv if isinstance(conv, (bool, SBool)) else None
                out.append(("converged_implies_strictly_lower_le_tol", cz is not None and sor(snot(cz), lm[1] <= tol)))
            return out
        cl = ["returns_triple", "reduces_the_argument_to_hessenberg_first", "Q_is_P0h_times_accumulated", "Q_left_factor_is_P0_hermitian",
              "flag_checked_against_returned_T", "converged_implies_strictly_lower_le_tol"]
        lrules = {(SC + v, main): HavocAll(fac[v])}
        if v == "quaternion_schur":
            # final clean-up: entries below the diagonal with modulus <= tol are set to zero (closed-form invariants)
            from ..rules import FunctionalInv
            tail = [k_ for k_, lp in enumerate(loops) if k_ > main and lp.lineno > loops[main].end_lineno]

            def k_abs(I, args, kwargs):
                return ssqrt(ix.QScal.lift(args[0]).norm2())
            contracts[SC + "_quat_scalar_abs"] = k_abs

            def cleaned(H0, tol, vi):
                q = H0.at(*vi)
                return ix.ite(sand(vi[0] > vi[1], ssqrt(q.norm2()) <= tol), ix.QScal(Fraction(0)), q)

            def fo(it, fr, k):
                H0, tol = fr.vars["__H_before"], fr.vars["tol"]
                return lambda vi: ix.ite(vi[0] < k, cleaned(H0, tol, vi), H0.at(*vi))

            def fi(it, fr, k):
                H0, tol, i = fr.vars["__H_before"], fr.vars["tol"], fr.vars["i"]
                return lambda vi: ix.ite(sor(vi[0] < i, sand(vi[0] == i, vi[1] < k)), cleaned(H0, tol, vi), H0.at(*vi))

            class Snap(FunctionalInv):
                def establish(self, it, fr, start):
                    if "__H_before" not in fr.vars:
                        fr.vars["__H_before"] = fr.vars["H_final"].copy()
                    super().establish(it, fr, start)
            if len(tail) >= 2:
                lrules[(SC + v, tail[0])] = Snap(arrays={"H_final": fo}, tag="cleanup.outer.")
                lrules[(SC + v, tail[1])] = FunctionalInv(arrays={"H_final": fi}, tag="cleanup.inner.")
        run_case(rep, P, SC + v, "epilogue", setup, post, lib=Library("idx"), contracts=contracts, loop_rules=lrules,
                 clauses=cl, replay=replay_variants, timeout_s=20, site_obligations=False)

        def setup_g(I, ctx):
            m, n = dims(ctx, "m", "n")
            ctx.assume(m != n, base=True)
            return [ix.input_array("A", [m, n], quat=True)], {}, None
        run_case(rep, P, SC + v, "guard_square", setup_g, lambda I, ctx, outcome, val, aux: [("raises_ValueError", outcome == "raise" and val.exc_type == "ValueError")],
                 lib=Library("idx"), contracts=contracts, clauses=["raises_ValueError"], site_obligations=False)

    # _strictly_lower_max: the returned value bounds the modulus of EVERY entry strictly below the diagonal (witness-index
    # invariant: for an arbitrary fixed (i0, j0), once the loops have passed it, |T[i0, j0]| <= m) and is >= 0
    class LowMaxRule(LoopRule):
        modifies = ("m",)

        def __init__(self, level):
            self.level = level

        def visited(self, fr, k):
            g = cur().ghost
            i0, j0 = g["wit"]
            if self.level == "outer":
                return i0 < k
            return sor(i0 < fr.vars["i"], sand(i0 == fr.vars["i"], j0 < k))

        def inv(self, fr, k, m):
            g = cur().ghost
            return sand(m >= 0, sor(snot(self.visited(fr, k)), g["wit_abs"] <= m))

        def establish(self, it, fr, start):
            cur().require("inv.establish", self.inv(fr, start, fr.vars["m"]), "running maximum bounds the visited witness entry", key=f"lowmax.{self.level}.inv.establish")

        def havoc(self, it, fr, k):
            m = SReal.var(cur().fresh_name("m"))
            cur().assume(self.inv(fr, k, m))
            fr.vars["m"] = m

        def preserve(self, it, fr, k):
            cur().require("inv.preserve", self.inv(fr, k + 1, fr.vars["m"]), "running maximum bounds the visited witness entry", key=f"lowmax.{self.level}.inv.preserve")

    for shape in ("square", "tall", "wide"):
        def setup_lm(I, ctx, shape=shape):
            m, n = dims(ctx, "m", "n")
            ctx.assume({"square": m == n, "tall": m > n, "wide": m < n}[shape], base=True)
            Tm = ix.input_array("T", [m, n], quat=True)
            i0, j0 = SInt.var("i0"), SInt.var("j0")
            ctx.assume(sand(i0 >= 0, i0 < m, j0 >= 0, j0 < n, i0 > j0), base=True)
            ctx.ghost["wit"] = (i0, j0)
            ctx.ghost["wit_abs"] = abs(Tm.at(i0, j0))
            return [Tm], {}, None

        def post_lm(I, ctx, outcome, val, aux):
            if outcome != "return":
                return [("bounds_every_strictly_lower_entry", False), ("nonnegative", False)]
            return [("bounds_every_strictly_lower_entry", ctx.ghost["wit_abs"] <= val), ("nonnegative", val >= 0)]
        run_case(rep, P, SC + "_strictly_lower_max", shape, setup_lm, post_lm, lib=Library("idx"),
                 loop_rules={(SC + "_strictly_lower_max", 0): LowMaxRule("outer"), (SC + "_strictly_lower_max", 1): LowMaxRule("inner")},
                 clauses=["bounds_every_strictly_lower_entry", "nonnegative"], replay=replay_variants, timeout_s=30)


# ---------------------------------------------------------------------------------------------------
def variant_calls(rt):
    sc = rt.real().schur
    calls = []
    for sh in ("wilkinson", "rayleigh", "double"):
        calls.append((f"schur[{sh}]", lambda A, b, sh=sh: sc.quaternion_schur(A, shift=sh, return_diagnostics=True, **({"max_iter": b} if b is not None else {})), 1e-12))
    for sm in ("none", "rayleigh"):
        calls.append((f"pure[{sm}]", lambda A, b, sm=sm: sc.quaternion_schur_pure(A, shift_mode=sm, return_diagnostics=True, **({"max_iter": b} if b is not None else {})), 1e-10))
    calls.append(("implicit[rayleigh]", lambda A, b: sc.quaternion_schur_pure_implicit(A, return_diagnostics=True, **({"max_iter": b} if b is not None else {})), 1e-10))
    for var in ("none", "rayleigh", "implicit", "aed", "ds"):
        calls.append((f"unified[{var}]", lambda A, b, var=var: sc.quaternion_schur_unified(A, variant=var, return_diagnostics=True, **({"max_iter": b} if b is not None else {})), 1e-10))
    calls.append(("unified[aed,window=2]", lambda A, b: sc.quaternion_schur_unified(A, variant="aed", aed_window=2, return_diagnostics=True, **({"max_iter": b} if b is not None else {})), 1e-10))
    for var in ("aed_windowed", "francis_ds"):
        calls.append((f"experimental[{var}]", lambda A, b, var=var: sc.quaternion_schur_experimental(A, variant=var, return_diagnostics=True, **({"max_iter": b} if b is not None else {})), 1e-10))
        for w in (2, 3):
            calls.append((f"experimental[{var},window={w}]", lambda A, b, var=var, w=w: sc.quaternion_schur_experimental(A, variant=var, window=w, return_diagnostics=True, **({"max_iter": b} if b is not None else {})), 1e-10))
    return calls


def check_schur(fn, A4, budget, tol, hermitian_spectrum=None):
    from .. import runtime as rt
    n = A4.shape[0]
    out = fn(rt.q_from4(A4), budget)
    Qm, Tm, dg = out
    Q4, T4 = rt.q_to4(Qm), rt.q_to4(Tm)
    sc = max(1.0, rt.fro(A4))
    if not (np.all(np.isfinite(Q4)) and np.all(np.isfinite(T4))):
        return {"what": "non-finite output"}
    e = rt.fro(rt.qmm(rt.qH(Q4), Q4) - rt.eye4(n))
    if not e <= 1e-9:
        return {"what": "Q is not unitary", "err": e}
    e = rt.fro(rt.qmm(rt.qmm(Q4, T4), rt.qH(Q4)) - A4)
    if not e <= 1e-7 * n * sc:
        return {"what": "Q T Q^H != A beyond the deflation tolerance", "err": e}
    if dg.get("converged"):
        low = max([np.linalg.norm(T4[i, j]) for i in range(n) for j in range(i)] or [0.0])
        if not low <= 10 * tol * sc:
            return {"what": "converged=True but T is not upper triangular to the tolerance", "max_strictly_lower": low, "tol": tol}
        if hermitian_spectrum is not None:
            d = np.array([T4[i, i] for i in range(n)])
            if not (np.abs(d[:, 1:]).max() <= 1e-7 * sc) or not np.allclose(np.sort(d[:, 0]), np.sort(hermitian_spectrum), atol=1e-6 * sc):
                return {"what": "converged on Hermitian input but diag(T) is not the real spectrum", "diag": d}
    return None


def matrix_classes(rng, n):
    from .. import runtime as rt
    from .c08 import hermitian_from_spectrum
    lam = list(np.linspace(1.0, 2.0 * n, n) * np.array([(-1) ** i for i in range(n)]))
    G = rng.standard_normal((n, n, 4))
    tri = G.copy()
    for i in range(n):
        for j in range(i):
            tri[i, j] = 0
    Qn = rt.gram_schmidt_unitary(rng, n)
    D = np.zeros((n, n, 4))
    for i in range(n):
        D[i, i] = [float(i + 1), 0.5 * i, 0, 0]
    normal = rt.qmm(rt.qmm(Qn, D), rt.qH(Qn))
    lowr = rt.qmm(rng.standard_normal((n, 1, 4)), rng.standard_normal((1, n, 4)))
    zc = G.copy()
    zc[1:, 0] = 0
    zp = G.copy()
    if n >= 2:
        zp[1, 0] = 0          # exactly zero pivot of the first reflector, non-zero tail below it (n >= 3)
    zd = G.copy()
    for i in range(n):
        zd[i, i] = 0          # zero diagonal: the first column of every 2 x 2 QR step starts with an exact zero
    return {"zero_pivot_nonzero_tail": (zp, None), "zero_diagonal": (zd, None), "generic": (G, None), "hermitian": (hermitian_from_spectrum(rng, lam), lam), "triangular": (tri, None), "normal": (normal, None),
            "low_rank": (lowr, None), "integer": (rng.integers(-3, 4, size=(n, n, 4)).astype(float), None), "zero_first_subcolumn": (zc, None)}


def replay_variants(seed):
    from .. import runtime as rt
    rng = np.random.default_rng(seed)
    for n in (1, 3, 4):
        for cname, (A4, spec) in matrix_classes(rng, n).items():
            for vname, fn, tol in variant_calls(rt):
                for budget in (0, 3, None):
                    try:
                        res = check_schur(fn, A4, budget, tol, spec)
                    except Exception as e:
                        res = {"exception": f"{type(e).__name__}: {e}"}
                    if res:
                        res.update({"failed": True, "A": A4, "variant": vname, "class": cname, "budget": budget})
                        return res
    return {"failed": False}


def bounded(rep: Report, tier, seed):
    from .. import runtime as rt
    rng = np.random.default_rng(seed)
    nmax = 4 if tier == "quick" else 6
    budgets = (0, 1, 3, None) if tier == "quick" else (0, 1, 2, 5, 40, None)
    b = rep.add_bounded(Bounded("variants_x_classes_x_budgets", f"n = 1..{nmax} x 9 matrix classes x 18 variant/shift/window settings x iteration budgets {budgets}",
                                "Q unitary; ||Q T Q^H - A|| <= 1e-7 n ||A||; converged flag => strictly lower part <= 10 tol ||A||; Hermitian & converged => real diagonal = spectrum"))
    calls = variant_calls(rt)
    for n in range(1, nmax + 1):
        for cname, (A4, spec) in matrix_classes(rng, n).items():
            for vname, fn, tol in calls:
                for budget in budgets:
                    if tier == "quick" and budget is None and n == 4 and cname in ("integer", "low_rank") and vname.startswith("schur["):
                        continue
                    b.case(f"{P}.bounded.{vname}", (n, cname, vname, budget), lambda fn=fn, A4=A4, budget=budget, tol=tol, spec=spec: check_schur(fn, A4, budget, tol, spec),
                           f"{vname} on a {n}x{n} {cname} matrix with budget {budget}", facts={"n": n, "class": cname, "variant": vname, "budget": budget}, inputs={"A": A4, "budget": budget})
    b.samples.append({"variant": "experimental[aed_windowed]", "class": "zero_first_subcolumn", "n": 3, "budget": 1})
    b.done()


def run(tier, seed):
    rep = Report(P, tier, seed, "exploration")
    rep.assumptions += [
        "the iteration bodies of the five variants (entry-level Householder / Givens sweeps, deflation) are not executed by the engine: the flag and composition obligations hold for an arbitrary state left by the loop, the similarity of the iterate is decided by the bounded stand-in",
        "hessenbergize, check_hessenberg, quat_matmat, quat_hermitian, real_expand / real_contract are used through contracts (C09, C01, C02)",
        "floats as reals; 'accuracy governed by the deflation tolerance' is checked with the explicit bound 1e-7 n ||A||",
    ]
    rep.trusted += ["qv engine", "z3 5.1", "library model"]
    deductive(rep, tier)
    from ..frame import no_module_state
    no_module_state(rep, P, [SC + n_ for n_ in ("quaternion_schur", "quaternion_schur_pure", "quaternion_schur_pure_implicit", "quaternion_schur_unified", "quaternion_schur_experimental", "_strictly_lower_max")])
    bounded(rep, tier, seed)
    return rep


def replay(path):
    import json
    with open(path) as f:
        d = json.load(f)
    print(json.dumps({k: d[k] for k in ("property", "obligation", "text")}, indent=1))
    return run("quick", d.get("seed", 0)).finish()
