"""C06 - quaternion QR reproduces A with orthonormal Q and triangular R for every shape.

Deductive part (index-level, symbolic m, n; scipy.linalg.qr by its textbook contract: Q orthogonal,
R upper triangular, A = Q R; real_expand / real_contract by their C02 contracts):
  shapes        Q is m x min(m,n), R is min(m,n) x n on both branches;
  R.triangular  from R_real upper triangular alone: R_quat[i,j] = 0 for i > j and the diagonal is real
                (the cells read back from block (i,j) all lie strictly below the real diagonal);
  slices        the thin / wide extraction keeps the leading columns / rows;
  real factors  (m >= n, square included) what is handed to real_contract is LAPACK's thin pair with column k of Q and row k of R flipped together,
                the sign chosen so that the real R has a non-negative diagonal (a zero pivot keeps its column up to sign), and the dropped rows of
                R are zero: every term of Q^T Q and of Q R is unchanged, and the premise of the uniqueness lemma (A5) holds on every shape.
Orthonormality of Q and A = Q R additionally need the quaternion block structure of the real
Householder factors, which LAPACK's contract does not give (assumption A5, valid for full column rank):
those clauses are decided by the bounded stand-in, and where the code relies on more than the contract
gives (rank-deficient input) the failure is a known finding.
Bounded stand-in: all shapes <= 5 incl. m < n and m = 1, all ranks, zero columns, integer / imaginary entries."""
from __future__ import annotations

import itertools
from fractions import Fraction

import numpy as np
import z3

from .. import idx as ix
from .. import smt
from ..core import Bounded, Obligation, Report, run_case
from ..libmodel import Library
from ..sym import SInt, SReal, SBool, cur, sand, snot, sor, smin
from .c01 import dims
from . import c02

P = "C06"
QS = "quatica/decomp/qsvd.py::"
U = "quatica/utils.py::"


def contracts_with_rb(rep):
    """Contracts of real_expand / real_contract (from C02: blockwise embedding, read-back table of the code)."""
    tabs, errs = c02.extract_tables(rep)
    RB, E1 = tabs.get("RB"), tabs.get("E1")

    def k_real_expand(I, args, kwargs):
        (Q,) = args
        m, n = Q.shape
        if E1 is None:
            raise ix.OutOfReach("no embedding table")
        return ix.IArr.from_fn([4 * m, 4 * n], lambda vi: E1.at(list(Q.at(vi[0] // 4, vi[1] // 4).c), (vi[0] % 4, vi[1] % 4)))

    def k_real_contract(I, args, kwargs):
        R, m, n = args
        from ..nc import dims_equal
        ok = cur().valid(sand(R.shape[0] == 4 * m, R.shape[1] == 4 * n))
        if ok is not True:
            cur().require("real_contract.shape", sand(R.shape[0] == 4 * m, R.shape[1] == 4 * n), "argument shape is (4m, 4n)")
        if RB is None:
            raise ix.OutOfReach("no read-back table")
        snap = R._snapshot()
        cur().ghost.setdefault("real_contract_args", []).append((R, snap, m, n))
        return ix.IArr.from_fn([m, n], lambda vi: c02.rb_apply(RB, lambda x, y: snap((4 * vi[0] + x, 4 * vi[1] + y))), quat=True)
    def k_matmat(I, args, kwargs):
        """quat_matmat by contract at index level: an abstract product of the right shape (entries uninterpreted)."""
        A, B = args
        from ..nc import dims_equal
        dims_equal(A.shape[1], B.shape[0], "conformable.matmul")
        k = cur().fresh_name("prod")
        f = z3.Function(k, z3.IntSort(), z3.IntSort(), z3.IntSort(), z3.RealSort())
        return ix.IArr.from_fn([A.shape[0], B.shape[1]], lambda vi: ix.QScal(*[SReal.mk(f(SInt.lift(vi[0]), SInt.lift(vi[1]), c)) for c in range(4)]), quat=True)

    def k_herm(I, args, kwargs):
        (A,) = args
        return A.conj().transpose()
    return {U + "real_expand": k_real_expand, U + "real_contract": k_real_contract, U + "quat_matmat": k_matmat, U + "quat_hermitian": k_herm}, RB


def k_qr_square(I, args, kwargs):
    """Contract of qr_qua used by its own wide branch (recursive call on the leading square block): shapes only."""
    (X,) = args
    m, n = X.shape
    r = smin(m, n)
    mk = lambda nm, rows, cols: ix.input_array(cur().fresh_name(nm), [rows, cols], quat=True)
    return mk("Qsub", m, r), mk("Rsub", r, n)


def lapack_qr(I_unused=None):
    def qr(A, *a, **k):
        M, N = A.shape
        Qf = z3.Function("Qr", z3.IntSort(), z3.IntSort(), z3.RealSort())
        Rf = z3.Function("Rr", z3.IntSort(), z3.IntSort(), z3.RealSort())
        Q = ix.IArr.from_fn([M, M], lambda vi: SReal.mk(Qf(SInt.lift(vi[0]), SInt.lift(vi[1]))))
        R = ix.IArr.from_fn([M, N], lambda vi: ix.ite(vi[0] > vi[1], Fraction(0), SReal.mk(Rf(SInt.lift(vi[0]), SInt.lift(vi[1])))))
        cur().ghost["lapack_qr"] = (Q, R)
        return Q, R
    return qr


def deductive(rep: Report, tier):
    contracts, RB = contracts_with_rb(rep)
    for case, rel in (("tall_or_square", lambda m, n: m >= n), ("wide", lambda m, n: m < n)):
        def setup(I, ctx, rel=rel):
            m, n = dims(ctx, "m", "n")
            ctx.assume(rel(m, n), base=True)
            X = ix.input_array("X", [m, n], quat=True)
            return [X], {}, (X, m, n)

        def post(I, ctx, outcome, val, aux):
            X, m, n = aux
            if outcome != "return" or not (isinstance(val, tuple) and len(val) == 2 and all(isinstance(v, ix.IArr) for v in val)):
                return [("returns_pair", False)]
            Q, R = val
            r = smin(m, n)
            out = [("returns_pair", True), ("quat_dtype", Q.quat and R.quat),
                   ("shape_Q", sand(Q.shape[0] == m, Q.shape[1] == r)), ("shape_R", sand(R.shape[0] == r, R.shape[1] == n))]
            if ctx.valid(m >= n) is True:
                (i, j) = ix.fresh_indices(ctx, [r, n])
                e = R.at(i, j)
                out.append(("R_upper_triangular", sor(snot(i > j), e == ix.QScal(Fraction(0)))))
                out.append(("R_real_diagonal", sor(snot(i == j), sand(e.c[1] == 0, e.c[2] == 0, e.c[3] == 0))))
                # the real factors handed to real_contract: LAPACK's thin factors with column k of Q and row k of R flipped TOGETHER, the sign chosen so
                # that the real R has a non-negative diagonal.  Hence Qf^T Qf = Q1^T Q1 = I and Qf Rf = Q1 R1 = real_expand(X) (every term of the
                # products is unchanged; the dropped rows of R are zero), and the premise of the uniqueness lemma (A5: QR with positive diagonal is
                # unique, so it is the embedding of the quaternion QR) holds on every shape m >= n - the square case included.
                rc, lq = ctx.ghost.get("real_contract_args", []), ctx.ghost.get("lapack_qr")
                okc = len(rc) == 2 and lq is not None and ctx.valid(sand(rc[0][2] == m, rc[0][3] == n, rc[1][2] == n, rc[1][3] == n)) is True
                out.append(("contracts_the_thin_real_factors", okc))
                if okc:
                    Qf, Rf, (Q0, R0) = rc[0][1], rc[1][1], lq
                    (ii,) = ix.fresh_indices(ctx, [4 * m], "qi")
                    (kk, jj) = ix.fresh_indices(ctx, [4 * n, 4 * n], "rk")
                    dkk = R0.at(kk, kk)
                    sgn = ix.ite(dkk < 0, Fraction(-1), Fraction(1))
                    out.append(("real_R_has_a_nonnegative_diagonal", Rf((kk, kk)) >= 0))
                    out.append(("column_k_of_Q_and_row_k_of_R_are_flipped_together", sor(sand(dkk != 0, Qf((ii, kk)) == sgn * Q0.at(ii, kk), Rf((kk, jj)) == sgn * R0.at(kk, jj)),
                                    # a zero pivot leaves the sign free, but the column / row itself is kept
                                    sand(dkk == 0, sor(Qf((ii, kk)) == Q0.at(ii, kk), Qf((ii, kk)) == -Q0.at(ii, kk)), sor(Rf((kk, jj)) == R0.at(kk, jj), Rf((kk, jj)) == -R0.at(kk, jj))))))
                    (k2, j2) = ix.fresh_indices(ctx, [4 * m, 4 * n], "dr")
                    out.append(("rows_of_R_that_are_dropped_are_zero", sor(k2 < 4 * n, R0.at(k2, j2) == 0)))
            return out
        lib = Library("idx")
        lib.scipy.table["linalg"].table["qr"] = lapack_qr()
        lib.mods["scipy.linalg"].table["qr"] = lib.scipy.table["linalg"].table["qr"]
        cl = ["returns_pair", "quat_dtype", "shape_Q", "shape_R"] + (["R_upper_triangular", "R_real_diagonal", "contracts_the_thin_real_factors", "real_R_has_a_nonnegative_diagonal",
                                                                     "column_k_of_Q_and_row_k_of_R_are_flipped_together", "rows_of_R_that_are_dropped_are_zero"] if case != "wide" else [])
        run_case(rep, P, QS + "qr_qua", case, setup, post, lib=lib, contracts=dict(contracts, **{QS + "qr_qua": k_qr_square}) if case == "wide" else contracts,
                 clauses=cl, replay=replay_qr, timeout_s=30)
    # ---- the wide branch at matrix level (free algebra): with the square factorisation of the leading block by its own contract (Q unitary - the
    #      tall / square clause of this property, whose rank-deficient failure is the recorded finding) the branch returns R = Q^H X, hence Q R = X
    from ..kernels import ALGEBRA
    from ..nc import NC, Atom
    from ..values import HMat, fresh_hmat
    from .. import nc as ncm

    def k_square_unitary(I, args, kwargs):
        (Xs,) = args
        m_ = Xs.shape[0]
        cur().ghost["rec_arg_shape"] = tuple(Xs.shape)
        return HMat(NC.atom(Atom("Qsq", m_, m_, "orth", alg="H"))), fresh_hmat("Rsq", m_, m_)

    def setup_w(I, ctx):
        m, n = dims(ctx, "m", "n")
        ctx.assume(m < n, base=True)
        X = fresh_hmat("X", m, n)
        return [X], {}, (X, m, n)

    def post_w(I, ctx, outcome, val, aux):
        X, m, n = aux
        if outcome != "return" or not (isinstance(val, tuple) and len(val) == 2 and all(isinstance(v, HMat) for v in val)):
            return [("returns_pair", False)]
        Q, R = val
        shp = ctx.ghost.get("rec_arg_shape")
        out = [("returns_pair", True),
               ("factorises_the_leading_square_block", shp is not None and sand(SBool.mk(SInt.lift(shp[0]) == SInt.lift(m)), SBool.mk(SInt.lift(shp[1]) == SInt.lift(m))))]
        st, be, secs, wit = ncm.nc_equal_obligation(Q.p @ R.p, X.p, ctx.hyps())
        out.append(("Q_times_R_is_X", st, be, secs, wit or None))
        st, be, secs, wit = ncm.nc_equal_obligation(Q.p.star @ Q.p, NC.eye(m), ctx.hyps())
        out.append(("Q_has_orthonormal_columns", st, be, secs, wit or None))
        return out
    libw = Library("nc")
    libw.qmode = "H"
    cw = dict(ALGEBRA)
    cw[QS + "qr_qua"] = k_square_unitary
    run_case(rep, P, QS + "qr_qua", "wide.matrix_level", setup_w, post_w, lib=libw, contracts=cw,
             clauses=["returns_pair", "factorises_the_leading_square_block", "Q_times_R_is_X", "Q_has_orthonormal_columns"], replay=replay_qr, timeout_s=20)
    # canary: a lower-triangular R_real would not give an upper-triangular R_quat
    i, j = z3.Ints("i j")
    rep.canary("C06.canary.block_indices", smt.prove([i > j, i >= 0, j >= 0], 4 * i + 0 <= 4 * j + 3, 5).status == smt.REFUTED)


# ---------------------------------------------------------------------------------------------------
def check_qr(A4, tol=1e-10):
    """Runtime contract of qr_qua on concrete data; returns (failure dict | None, facts)."""
    from .. import runtime as rt
    r = rt.real()
    m, n = A4.shape[:2]
    k = min(m, n)
    Q, R = r.qsvd.qr_qua(rt.q_from4(A4))
    Q4, R4 = rt.q_to4(Q), rt.q_to4(R)
    sv = rt.singular_values(A4)
    rank = int(np.sum(sv > 1e-10 * max(1.0, sv[0]))) if len(sv) else 0
    facts = {"m": m, "n": n, "rank": rank, "full_column_rank": rank == n, "wide": m < n, "leading_block_full_rank": True}
    if m < n:
        svl = rt.singular_values(A4[:, :m])
        facts["leading_block_full_rank"] = bool(np.sum(svl > 1e-10 * max(1.0, svl[0] if len(svl) else 1.0)) == m)
    sc = max(1.0, rt.fro(A4))
    if Q4.shape[:2] != (m, k) or R4.shape[:2] != (k, n):
        return {"what": "shapes", "Q": Q4.shape, "R": R4.shape}, facts
    fails = []
    for i in range(k):
        for j in range(n):
            if i > j and not (np.linalg.norm(R4[i, j]) <= tol * sc):
                fails.append({"what": "R not upper triangular / trapezoidal", "i": i, "j": j, "value": R4[i, j]})
                break
        if fails:
            break
    e_orth = rt.fro(rt.qmm(rt.qH(Q4), Q4) - rt.eye4(k))
    if not (e_orth <= tol):
        fails.append({"what": "Q columns not orthonormal", "err": e_orth})
    e_rec = rt.fro(rt.qmm(Q4, R4) - A4)
    if not (e_rec <= tol * sc):
        fails.append({"what": "A != Q R", "err": e_rec})
    facts["failures"] = [f["what"] for f in fails]
    if fails:
        out = dict(fails[0])
        out["all_failures"] = facts["failures"]
        return out, facts
    return None, facts


def replay_qr(seed):
    rng = np.random.default_rng(seed)
    inputs = [rng.standard_normal((m, n, 4)) for (m, n) in ((3, 2), (2, 2), (4, 1), (2, 4), (1, 3), (5, 3))]
    # full-rank structured inputs, where LAPACK's sign choices differ inside a 4x4 block: columns already in triangular form, -I, unit-quaternion diagonals
    for (m, n) in ((3, 3), (2, 2), (4, 3)):
        T = rng.standard_normal((m, n, 4))
        for j in range(n):
            T[j + 1:, j, :] = 0.0
        inputs.append(T)
        T1 = rng.standard_normal((m, n, 4))
        T1[1:, 0, :] = 0.0
        inputs.append(T1)
    M = np.zeros((2, 2, 4))
    M[0, 0, 0] = M[1, 1, 0] = -1.0
    inputs.append(M)
    Dq = np.zeros((3, 3, 4))
    for j in range(3):
        Dq[j, j, 1 + j % 3] = j + 1.0
    inputs.append(Dq)
    for A4 in inputs:
        m, n = A4.shape[:2]
        try:
            res, facts = check_qr(A4)
        except Exception as e:
            res, facts = {"exception": f"{type(e).__name__}: {e}"}, {}
        if res:
            res.update({"failed": True, "A": A4, "facts": facts})
            return res
    return {"failed": False}


def make_rank(rng, m, n, r, kind="gauss"):
    from .. import runtime as rt
    if r == 0:
        return np.zeros((m, n, 4))
    if kind == "int":
        return rt.qmm(rng.integers(-2, 3, size=(m, r, 4)).astype(float), rng.integers(-2, 3, size=(r, n, 4)).astype(float))
    return rt.qmm(rng.standard_normal((m, r, 4)), rng.standard_normal((r, n, 4)))


def bounded(rep: Report, tier, seed):
    rng = np.random.default_rng(seed)
    mx = 4 if tier == "quick" else 5
    b = rep.add_bounded(Bounded("shapes_and_ranks", f"all shapes m,n <= {mx} (m < n and m = 1 included) x all ranks 0..min(m,n) x entry kinds (Gaussian, integer, pure imaginary, zero column)",
                                "Q^H Q = I, R triangular/trapezoidal, ||A - QR|| <= 1e-10 ||A||; distinct by (m, n, rank, kind)"))
    for m in range(1, mx + 1):
        for n in range(1, mx + 1):
            for r in range(0, min(m, n) + 1):
                for kind in ("gauss", "int", "imag", "zerocol"):
                    if tier == "quick" and kind in ("imag", "zerocol") and (m + n + r) % 2:
                        continue
                    A4 = make_rank(rng, m, n, r, "int" if kind == "int" else "gauss")
                    if kind == "imag":
                        A4 = rng.standard_normal((m, n, 4))
                        A4[..., 0] = 0
                        if r < min(m, n):
                            continue
                    if kind == "zerocol":
                        if n < 2 or r != min(m, n):
                            continue
                        A4 = rng.standard_normal((m, n, 4))
                        A4[:, 0] = 0
                    holder = {}

                    def f(A4=A4, holder=holder):
                        res, facts = check_qr(A4)
                        holder.update(facts)
                        return res
                    # facts are computed inside; evaluate first to have them for known-finding matching
                    try:
                        res, facts = check_qr(A4)
                    except Exception as e:
                        res, facts = {"exception": f"{type(e).__name__}: {e}"}, {"m": m, "n": n, "rank": r}
                    b.case(f"{P}.bounded.qr", (m, n, r, kind), (lambda res=res: res), f"qr_qua on {m}x{n} rank {r} ({kind})", facts=facts, inputs={"A": A4})
    b.samples.append({"shape": [2, 4], "rank": 2, "kind": "gauss", "class": "wide"})
    b.done()
    # structured full-rank inputs: columns already in triangular form (exact zeros below a non-real pivot), triangular and
    # diagonal matrices with quaternion diagonals, unit-quaternion multiples of the identity, one non-real entry
    b2 = rep.add_bounded(Bounded("structured_full_rank", f"shapes <= {mx}x{mx}: first k columns already triangular (k = 1..n) with non-real pivots, upper triangular, diagonal / identity times unit quaternions, real matrices with one imaginary entry, exact-integer entries",
                                 "same contract; all inputs have full rank min(m, n)"))
    def unitq():
        q = rng.standard_normal(4)
        return q / np.linalg.norm(q)
    for m in range(1, mx + 1):
        for n in range(1, mx + 1):
            k = min(m, n)
            cases = {}
            for kt in range(1, k + 1):
                A4 = rng.standard_normal((m, n, 4))
                for j in range(kt):
                    A4[j + 1:, j, :] = 0.0
                cases[f"tri_first_{kt}"] = A4
                Ai = np.rint(3 * A4)
                for j in range(k):
                    if not Ai[j, j].any():
                        Ai[j, j, 1] = 2.0
                cases[f"tri_first_{kt}_int"] = Ai
            D = np.zeros((m, n, 4))
            for j in range(k):
                D[j, j] = unitq() * (j + 1.0)
            cases["diag_quat"] = D
            E = np.zeros((m, n, 4))
            q = unitq()
            for j in range(k):
                E[j, j] = q
            cases["identity_times_unit"] = E
            for name, basis in (("identity_times_i", 1), ("identity_times_j", 2), ("identity_times_k", 3), ("minus_identity", 0)):
                E2 = np.zeros((m, n, 4))
                for j in range(k):
                    E2[j, j, basis] = -1.0 if basis == 0 else 1.0
                cases[name] = E2
            Rl = rng.standard_normal((m, n, 4))
            Rl[..., 1:] = 0.0
            Rl[0, 0, 2] = 1.5
            cases["real_plus_one_imag"] = Rl
            for name, A4 in cases.items():
                if tier == "quick" and name.endswith("_int") and (m + n) % 2:
                    continue
                try:
                    res, facts = check_qr(A4)
                except Exception as e:
                    res, facts = {"exception": f"{type(e).__name__}: {e}"}, {"m": m, "n": n}
                b2.case(f"{P}.bounded.qr_structured", (m, n, name), (lambda res=res: res), f"qr_qua on a {m}x{n} {name} matrix", facts=facts, inputs={"A": A4})
    b2.samples.append({"shape": [3, 3], "kind": "tri_first_1", "A[0,0]": "non-real quaternion, A[1:,0] = 0"})
    b2.done()


def run(tier, seed):
    rep = Report(P, tier, seed, "exploration")
    rep.assumptions += [
        "scipy.linalg.qr is assumed to satisfy its textbook contract only (orthogonal Q, upper-triangular R, A = Q R); nothing is assumed about sign conventions or the structure of Q",
        "real_expand / real_contract are used through their C02 contracts (blockwise embedding; read-back table extracted from the code on this run)",
        "A5: for full column rank and m >= n the real Householder QR of a quaternion-structured matrix is again quaternion-structured (so that Q^H Q = I and A = Q R hold): cited, decided only by the bounded stand-in",
    ]
    rep.trusted += ["qv engine", "z3 5.1", "library model (LAPACK contract)"]
    deductive(rep, tier)
    from ..frame import no_module_state
    no_module_state(rep, P, [QS + "qr_qua"])
    bounded(rep, tier, seed)
    return rep


def replay(path):
    import json
    with open(path) as f:
        d = json.load(f)
    print(json.dumps({k: d[k] for k in ("property", "obligation", "text")}, indent=1))
    return run("quick", d.get("seed", 0)).finish()
