"""C12 - randomized Q-SVDs: orthonormal factors, interlacing values, exact on low rank.

Deductive part (index-level shapes; symbolic m, n, R, oversample; EVERY number of power iterations n_iter >= 0 and of
passes n_passes >= 2 by inductive loop invariants (PowerLoop / PassLoop: the widths of the Q and R factors, which
factor was written last), and additionally the counts 0..3 / 2..5 the property names unrolled on the real loop; qr_qua, quat_matmat, quat_hermitian, real_expand,
real_contract, np.linalg.svd by contract):
  shapes.safe     on every path every product, slice and contraction is conformable (conformability and
                  real_contract-shape obligations emitted at each call) and the outputs are m x R, n x R and a
                  length-R vector - including the regime R + oversample > min(m, n) that no test enters;
  values.select   s = S[0::4][:R] of the small real SVD;
  rng.global      the Gaussian test matrix comes from np.random.randn (global generator), drawn once;
  lift.orthonormal  (Q1 U_s)^H (Q1 U_s) = I for factors with orthonormal columns (free algebra).
  orthonormal     (free algebra, every n_iter / n_passes) with qr_qua and the contraction of the small SVD's vectors by their C06 / C05 contracts the
                  bases that reach the lift-back have orthonormal columns (loop invariants) and so have the returned U and V.
Interlacing / Eckart-Young bounds / exactness on rank <= R, and orthonormality where the C05 / C06 contracts fail (their known findings), are decided
by the bounded stand-in over a seeded grid."""
from __future__ import annotations

import itertools
from fractions import Fraction

import numpy as np
import z3

from .. import idx as ix
from .. import nc as ncm
from .. import smt
from ..core import Bounded, Obligation, Report, run_case
from ..libmodel import Library
from ..nc import NC, Atom
from ..sym import Ctx, OutOfReach, SInt, SReal, SBool, cur, sand, snot, sor, smin
from .c01 import dims
from .c05 import lapack_svd

P = "C12"
QS = "quatica/decomp/qsvd.py::"
U = "quatica/utils.py::"


def abstract(name, shape, quat=True):
    return ix.input_array(cur().fresh_name(name), list(shape), quat=quat)


def k_matmat(I, args, kwargs):
    A, B = args
    ncm.dims_equal(A.shape[1], B.shape[0], "conformable.matmul")
    return abstract("prod", (A.shape[0], B.shape[1]))


def k_herm(I, args, kwargs):
    return args[0].conj().transpose()


def k_qr(I, args, kwargs):
    (X,) = args
    m, n = X.shape
    r = smin(m, n)
    cur().ghost.setdefault("qr_calls", []).append((m, n))
    return abstract("Qf", (m, r)), abstract("Rf", (r, n))


def k_expand(I, args, kwargs):
    (Q,) = args
    return abstract("Real", (4 * Q.shape[0], 4 * Q.shape[1]), quat=False)


def k_contract(I, args, kwargs):
    R, m, n = args
    cur().require("real_contract.shape", sand(R.shape[0] == 4 * m, R.shape[1] == 4 * n), f"argument shape {R.shape} is (4*{m}, 4*{n})")
    return abstract("Contr", (m, n))


CONTRACTS = {U + "quat_matmat": k_matmat, U + "quat_hermitian": k_herm, QS + "qr_qua": k_qr, U + "real_expand": k_expand, U + "real_contract": k_contract}


def mklib():
    lib = Library("idx")
    lib.np.table["linalg"].table["svd"] = lapack_svd()

    def randn(*shape):
        c = cur()
        c.ghost.setdefault("randn", []).append(shape)
        return abstract("G", shape, quat=False)
    lib.np.table["random"].table["randn"] = randn
    return lib


def deductive(rep: Report, tier):
    def setup_for(extra):
        def setup(I, ctx):
            m, n, R = dims(ctx, "m", "n", "R")
            Pv = SInt.var("oversample")
            ctx.assume(sand(R <= m, R <= n, Pv >= 0), base=True)
            X = ix.input_array("X", [m, n], quat=True)
            return [X, R], dict(oversample=Pv, **extra), (X, m, n, R, Pv)
        return setup

    def post(I, ctx, outcome, val, aux):
        X, m, n, R, Pv = aux
        if outcome != "return" or not (isinstance(val, tuple) and len(val) == 3 and all(isinstance(v, ix.IArr) for v in val)):
            return [("returns_triple", False)]
        Uq, s, Vq = val
        out = [("returns_triple", True),
               ("output_shapes", sand(Uq.shape[0] == m, Uq.shape[1] == R, Vq.shape[0] == n, Vq.shape[1] == R, len(s.shape) == 1 and s.shape[0] == R)),
               ("one_global_random_draw", len(ctx.ghost.get("randn", [])) == 1)]
        calls = ctx.ghost.get("svd_calls", [])
        ok = len(calls) == 1
        out.append(("one_small_svd", ok))
        if ok:
            S = calls[0][2]
            (i,) = ix.fresh_indices(ctx, [R], "s")
            out.append(("values_are_every_fourth_of_the_small_svd", ix.scal_eq(s.at(i), S.at(4 * i))))
        return out
    clauses = ["returns_triple", "output_shapes", "one_global_random_draw", "one_small_svd", "values_are_every_fourth_of_the_small_svd"]
    from ..interp import LoopRule

    def lo_of(m, n, R, Pv):
        return smin(smin(m, n), R + Pv)

    class PowerLoop(LoopRule):
        """rand_qsvd, for i in range(n_iter) with n_iter >= 0 arbitrary:  Q1 is an m x w quaternion array (the Q factor of a qr_qua call) with
        min(m, n, R+P) <= w <= min(m, R+P).  (The width can only shrink in the first iteration, then it is stationary.)"""
        modifies = ("Q1",)

        def _ok(self, fr):
            Q1 = fr.vars.get("Q1")
            if not (isinstance(Q1, ix.IArr) and Q1.quat and len(Q1.shape) == 2):
                return False
            m, n, R, Pv = self.dims
            w = Q1.shape[1]
            return sand(Q1.shape[0] == m, w >= lo_of(m, n, R, Pv), w <= smin(m, R + Pv))

        def establish(self, it, fr, start):
            X = fr.vars["X_quat"]
            self.dims = (X.shape[0], X.shape[1], fr.vars["R"], fr.vars["P"])
            cur().require("inv.establish", self._ok(fr), "Q1 is m x w with min(m,n,R+P) <= w <= min(m,R+P) at loop entry", key="power.inv.establish")

        def havoc(self, it, fr, k):
            c = cur()
            m, n, R, Pv = self.dims
            w = SInt.var(c.fresh_name("w"))
            c.assume(sand(w >= lo_of(m, n, R, Pv), w <= smin(m, R + Pv)))
            fr.vars["Q1"] = abstract("Q1inv", (m, w))

        def preserve(self, it, fr, k):
            cur().require("inv.preserve", self._ok(fr), "after one power iteration Q1 is again m x w with the same bounds", key="power.inv.preserve")

    class PassLoop(LoopRule):
        """pass_eff_qsvd, for i in range(1, v+1) with v >= 2 arbitrary.  At the head of iteration i:
             i = 1:  Q1 is the real n x (R+P) Gaussian sketch, nothing else exists yet;
             i = 2:  Q2 (m x b), R2 (b x (R+P)) with b = min(m, R+P), Q1 still the sketch;
             i >= 3: Q1 (n x a), R1 (a x c), Q2 (m x b), R2 (b x d) quaternion arrays with lo <= a <= min(n, R+P), lo <= b <= min(m, R+P)
                     (lo = min(m, n, R+P)), and the factor written last agrees with the other one:
                     i odd  (an even pass came last):  a = min(n, b), c = b;     i even (an odd pass came last):  b = min(m, a), d = a."""
        modifies = ("Q1", "Q2", "R1", "R2")

        def establish(self, it, fr, start):
            X = fr.vars["X_quat"]
            self.dims = (X.shape[0], X.shape[1], fr.vars["R"], fr.vars["P"])
            m, n, R, Pv = self.dims
            Q1 = fr.vars.get("Q1")
            ok = isinstance(Q1, ix.IArr) and not Q1.quat and len(Q1.shape) == 2 and isinstance(start, int) and start == 1
            cur().require("inv.establish", ok and sand(Q1.shape[0] == n, Q1.shape[1] == R + Pv), "the loop starts at pass 1 from the real n x (R+P) sketch", key="pass.inv.establish")
            self.sketch = Q1

        def _general(self, fr, k):
            """the i >= 3 clause on the current frame (k = value of i at the head)"""
            m, n, R, Pv = self.dims
            Q1, Q2, R1, R2 = (fr.vars.get(x) for x in ("Q1", "Q2", "R1", "R2"))
            if not all(isinstance(x, ix.IArr) and x.quat and len(x.shape) == 2 for x in (Q1, Q2, R1, R2)):
                return False
            a, b = Q1.shape[1], Q2.shape[1]
            lo = lo_of(m, n, R, Pv)
            base = sand(Q1.shape[0] == n, Q2.shape[0] == m, R1.shape[0] == a, R2.shape[0] == b, a >= lo, a <= smin(n, R + Pv), b >= lo, b <= smin(m, R + Pv))
            odd = SBool.mk(SInt.lift(k) % 2 == 1)
            return sand(base, sor(snot(odd), sand(a == smin(n, b), R1.shape[1] == b)), sor(odd, sand(b == smin(m, a), R2.shape[1] == a)))

        def havoc(self, it, fr, k):
            c = cur()
            m, n, R, Pv = self.dims
            if c.decide(SBool.mk(SInt.lift(k) == 1)):
                fr.vars["Q1"] = self.sketch
                for x in ("Q2", "R1", "R2"):
                    fr.vars.pop(x, None)
                return
            if c.decide(SBool.mk(SInt.lift(k) == 2)):
                b = smin(m, R + Pv)
                fr.vars["Q1"] = self.sketch
                fr.vars["Q2"], fr.vars["R2"] = abstract("Q2inv", (m, b)), abstract("R2inv", (b, R + Pv))
                fr.vars.pop("R1", None)
                return
            a, b, cc, d = (SInt.var(c.fresh_name(x)) for x in ("a", "b", "c", "d"))
            fr.vars["Q1"], fr.vars["R1"] = abstract("Q1inv", (n, a)), abstract("R1inv", (a, cc))
            fr.vars["Q2"], fr.vars["R2"] = abstract("Q2inv", (m, b)), abstract("R2inv", (b, d))
            c.assume(sand(cc >= 0, d >= 0))
            c.assume(self._general(fr, k))

        def preserve(self, it, fr, k):
            c = cur()
            m, n, R, Pv = self.dims
            if c.valid(SBool.mk(SInt.lift(k) == 1)) is True:
                Q1, Q2, R2 = (fr.vars.get(x) for x in ("Q1", "Q2", "R2"))
                ok = Q1 is self.sketch and all(isinstance(x, ix.IArr) and x.quat for x in (Q2, R2))
                c.require("inv.preserve", ok and sand(Q2.shape[0] == m, Q2.shape[1] == smin(m, R + Pv), R2.shape[0] == Q2.shape[1], R2.shape[1] == R + Pv),
                          "after pass 1: Q2, R2 of the sketched product, Q1 untouched", key="pass.inv.preserve.first")
            else:
                c.require("inv.preserve", self._general(fr, k + 1), "after pass i the state satisfies the clause for i + 1", key="pass.inv.preserve.general")

    def setup_iter(I, ctx):
        args, kw, aux = setup_for({})(I, ctx)
        it_ = SInt.var("n_iter")
        ctx.assume(it_ >= 0, base=True)
        kw["n_iter"] = it_
        return args, kw, aux

    def setup_pass(I, ctx):
        args, kw, aux = setup_for({})(I, ctx)
        v = SInt.var("n_passes")
        ctx.assume(v >= 2, base=True)
        kw["n_passes"] = v
        return args, kw, aux
    # every number of power iterations / passes (inductive invariants) ...
    run_case(rep, P, QS + "rand_qsvd", "all_n_iter", setup_iter, post, lib=mklib(), contracts=CONTRACTS, loop_rules={(QS + "rand_qsvd", 0): PowerLoop()},
             clauses=clauses, replay=replay_rand, timeout_s=30)
    run_case(rep, P, QS + "pass_eff_qsvd", "all_n_passes", setup_pass, post, lib=mklib(), contracts=CONTRACTS, loop_rules={(QS + "pass_eff_qsvd", 0): PassLoop()},
             clauses=clauses, replay=replay_rand, timeout_s=30)
    # ... and the counts the property names, unrolled on the real loop (independent of the invariants above)
    for it in range(0, 4):
        run_case(rep, P, QS + "rand_qsvd", f"n_iter={it}", setup_for({"n_iter": it}), post, lib=mklib(), contracts=CONTRACTS, clauses=clauses, replay=replay_rand, timeout_s=20)
    for v in range(2, 6):
        run_case(rep, P, QS + "pass_eff_qsvd", f"n_passes={v}", setup_for({"n_passes": v}), post, lib=mklib(), contracts=CONTRACTS, clauses=clauses, replay=replay_rand, timeout_s=20)
    # lift-back preserves orthonormality
    with Ctx("C12.lemma") as ctx:
        ncm.reset_atoms()
        m, e, R = dims(ctx, "m", "e", "R")
        Q1 = NC.atom(Atom("Q1", m, e, "orthcols", alg="H"))
        Us = NC.atom(Atom("Us", e, R, "orthcols", alg="H"))
        st, be, sc, det = ncm.nc_equal_obligation((Q1 @ Us).star @ (Q1 @ Us), NC.eye(R), ctx.hyps())
        rep.add(Obligation(f"{P}.lemma.lift_back_orthonormal", "spec", "all-shapes", st, be, sc, det, kind="lemma"))
        G = NC.atom(Atom("Gn", m, e, "gen", alg="H"))
        st, _, _, _ = ncm.nc_equal_obligation((G @ Us).star @ (G @ Us), NC.eye(R), ctx.hyps())
        rep.canary("C12.canary.lift_of_non_orthonormal", st == smt.REFUTED)


# ---------------------------------------------------------------------------------------------------
def orthonormal_factors(rep: Report):
    """Matrix level (free quaternion *-algebra), every n_iter >= 0 / n_passes >= 2: with qr_qua by its C06 contract (Q has orthonormal columns) and the
    contraction of the small real SVD's singular vectors by its C05 contract (orthonormal columns; both contracts carry the recorded findings for
    rank-deficient / repeated-value input), the returned factors  U = Q_1 U_small,  V = Q_2 V_small  have orthonormal columns - because the Q's that
    reach the lift-back are Q factors of qr_qua (loop invariant), possibly with trailing columns cut off."""
    from ..interp import LoopRule
    from ..kernels import ALGEBRA
    from ..values import HMat, fresh_hmat

    class OrthMat(HMat):
        """matrix with orthonormal columns; leading columns of it again have orthonormal columns"""

        def getitem(self, idx):
            if isinstance(idx, tuple) and len(idx) == 2 and idx[0] == slice(None) and isinstance(idx[1], slice) and idx[1].start is None and idx[1].step is None:
                k = idx[1].stop
                c = cur()
                if c.decide(SBool.mk(SInt.lift(k) >= SInt.lift(self.p.cols))):
                    return self                          # numpy clamps a slice that reaches past the last column
                return orth(self.p.rows, k, "Qcut")
            return HMat.getitem(self, idx)

    def orth(rows, cols, name):
        return OrthMat(NC.atom(Atom(cur().fresh_name(name), rows, cols, "orthcols", alg="H")))

    class Opaque3:
        qv_value = True

        def __init__(self, shape, tag=""):
            self.shape, self.tag = tuple(shape), tag

        def has_attr(self, name):
            return name in ("shape", "T", "dtype")

        @property
        def T(self):
            return Opaque3(tuple(reversed(self.shape)), self.tag)

        @property
        def dtype(self):
            from ..values import F64
            return F64

        def getitem(self, idx):
            return Opaque3(self.shape, self.tag)

        def setitem(self, idx, val):
            pass

    def randn(*shape):
        cur().ghost.setdefault("randn", []).append(shape)
        return Opaque3(shape, "gauss")

    def alloc(what, shape, dtype):
        shp = shape if isinstance(shape, tuple) else (shape,)
        if what in ("zeros", "empty") and len(shp) == 3:
            return Opaque3(shp, "components")
        return None

    def as_quat_array(a):
        if isinstance(a, Opaque3) and len(a.shape) == 3:
            return fresh_hmat(cur().fresh_name("Omega"), a.shape[0], a.shape[1])
        raise OutOfReach("as_quat_array form")

    def k_qr(I, args, kwargs):
        (Y,) = args
        m_, k_ = Y.shape
        r_ = smin(m_, k_)
        return orth(m_, r_, "Qf"), fresh_hmat(cur().fresh_name("Rf"), r_, k_)

    def k_expand(I, args, kwargs):
        return Opaque3((4 * args[0].shape[0], 4 * args[0].shape[1]), "real")

    def svd(a, full_matrices=True, **kw):
        cur().ghost.setdefault("svd_calls", []).append(a)
        return Opaque3(a.shape, "svdU"), Opaque3((a.shape[0],), "svdS"), Opaque3(a.shape, "svdVt")

    def k_contract(I, args, kwargs):
        Rm, k_, r_ = args
        if isinstance(Rm, Opaque3) and Rm.tag in ("svdU", "svdVt"):
            return orth(k_, r_, "Small")            # C05: contracted singular vectors have orthonormal columns
        raise OutOfReach("real_contract of something that is not a block of singular vectors")

    def orthonormal(Q):
        """status of  Q^H Q = I  in the free algebra (an identity there, or not an identity for all inputs)"""
        if not isinstance(Q, HMat):
            return smt.REFUTED
        return ncm.nc_equal_obligation(Q.p.star @ Q.p, NC.eye(Q.p.cols), cur().hyps())[0]

    class PowerNC(LoopRule):
        modifies = ("Q1",)

        def establish(self, it, fr, start):
            cur().ghost.setdefault("emit", []).append(("power.establish.Q1_has_orthonormal_columns", orthonormal(fr.vars.get("Q1")), "normal-form", 0.0, None))

        def havoc(self, it, fr, k):
            c = cur()
            X = fr.vars["X_quat"]
            m_, n_ = X.shape
            w = SInt.var(c.fresh_name("w"))
            RP = fr.vars["R"] + fr.vars["P"]
            c.assume(sand(w >= smin(smin(m_, n_), RP), w <= smin(m_, RP)))
            fr.vars["Q1"] = orth(m_, w, "Q1inv")

        def preserve(self, it, fr, k):
            cur().ghost.setdefault("emit", []).append(("power.preserve.Q1_has_orthonormal_columns", orthonormal(fr.vars.get("Q1")), "normal-form", 0.0, None))

    class PassNC(LoopRule):
        """pass loop, i >= 3 (two passes done): Q1 and Q2 are Q factors of qr_qua; widths as in the shape invariant (PassLoop)"""
        modifies = ("Q1", "Q2", "R1", "R2")

        def establish(self, it, fr, start):
            self.sketch = fr.vars.get("Q1")

        def havoc(self, it, fr, k):
            c = cur()
            X = fr.vars["X_quat"]
            m_, n_ = X.shape
            RP = fr.vars["R"] + fr.vars["P"]
            if c.decide(SBool.mk(SInt.lift(k) == 1)):
                fr.vars["Q1"] = self.sketch
                for x in ("Q2", "R1", "R2"):
                    fr.vars.pop(x, None)
                return
            if c.decide(SBool.mk(SInt.lift(k) == 2)):
                b_ = smin(m_, RP)
                fr.vars["Q1"] = self.sketch
                fr.vars["Q2"], fr.vars["R2"] = orth(m_, b_, "Q2inv"), fresh_hmat(c.fresh_name("R2inv"), b_, RP)
                fr.vars.pop("R1", None)
                return
            a_, b_ = SInt.var(c.fresh_name("a")), SInt.var(c.fresh_name("b"))
            lo = smin(smin(m_, n_), RP)
            odd = SBool.mk(SInt.lift(k) % 2 == 1)
            c.assume(sand(a_ >= lo, a_ <= smin(n_, RP), b_ >= lo, b_ <= smin(m_, RP), sor(snot(odd), a_ == smin(n_, b_)), sor(odd, b_ == smin(m_, a_))))
            fr.vars["Q1"], fr.vars["Q2"] = orth(n_, a_, "Q1inv"), orth(m_, b_, "Q2inv")
            fr.vars["R1"] = fresh_hmat(c.fresh_name("R1inv"), a_, b_)
            fr.vars["R2"] = fresh_hmat(c.fresh_name("R2inv"), b_, a_)

        def preserve(self, it, fr, k):
            c = cur()
            rec = c.ghost.setdefault("emit", [])
            Q1, Q2 = fr.vars.get("Q1"), fr.vars.get("Q2")
            if c.valid(SBool.mk(SInt.lift(k) == 1)) is True:
                rec.append(("pass.preserve.first_pass_gives_orthonormal_columns", orthonormal(Q2), "normal-form", 0.0, None))
            else:
                s1, s2 = orthonormal(Q1), orthonormal(Q2)
                rec.append(("pass.preserve.both_bases_have_orthonormal_columns", smt.PROVED if (s1 == smt.PROVED and s2 == smt.PROVED) else (smt.REFUTED if smt.REFUTED in (s1, s2) else smt.UNDECIDED), "normal-form", 0.0, None))

    def mk():
        from ..values import NDARRAY
        lib = Library("nc")
        lib.qmode = "H"
        lib.extra_types.append(lambda v, T: (T is NDARRAY) if isinstance(v, Opaque3) else None)
        lib.alloc_hooks.append(alloc)
        lib.np.table["random"].table["randn"] = randn
        lib.np.table["linalg"].table["svd"] = svd
        lib.quaternion.table["as_quat_array"] = as_quat_array
        return lib
    contracts = dict(ALGEBRA)
    contracts.update({QS + "qr_qua": k_qr, U + "real_expand": k_expand, U + "real_contract": k_contract})

    def post(I, ctx, outcome, val, aux):
        X, m, n, R = aux
        g = ctx.ghost
        if outcome == "loop_end":
            return list(g.get("emit", []))
        if outcome != "return" or not (isinstance(val, tuple) and len(val) == 3 and isinstance(val[0], HMat) and isinstance(val[2], HMat)):
            return [("returns_factors", False)] if outcome == "return" else []
        Uq, Vq = val[0], val[2]
        out = list(g.get("emit", [])) + [("returns_factors", True)]
        st, be, secs, wit = ncm.nc_equal_obligation(Uq.p.star @ Uq.p, NC.eye(R), ctx.hyps())
        out.append(("U_has_orthonormal_columns", st, be, secs, wit or None))
        st, be, secs, wit = ncm.nc_equal_obligation(Vq.p.star @ Vq.p, NC.eye(R), ctx.hyps())
        out.append(("V_has_orthonormal_columns", st, be, secs, wit or None))
        return out

    def setup_for(param, lo):
        def setup(I, ctx):
            m, n, R = dims(ctx, "m", "n", "R")
            Pv = SInt.var("oversample")
            ctx.assume(sand(R <= m, R <= n, Pv >= 0), base=True)
            cnt = SInt.var(param)
            ctx.assume(cnt >= lo, base=True)
            X = fresh_hmat("X", m, n)
            return [X, R], {"oversample": Pv, param: cnt}, (X, m, n, R)
        return setup
    run_case(rep, P, QS + "rand_qsvd", "orthonormal.all_n_iter", setup_for("n_iter", 0), post, lib=mk(), contracts=contracts, loop_rules={(QS + "rand_qsvd", 0): PowerNC()},
             clauses=["returns_factors", "U_has_orthonormal_columns", "V_has_orthonormal_columns", "power.establish.Q1_has_orthonormal_columns", "power.preserve.Q1_has_orthonormal_columns"],
             replay=replay_rand, timeout_s=30, loop_end=True, site_obligations=False)
    run_case(rep, P, QS + "pass_eff_qsvd", "orthonormal.all_n_passes", setup_for("n_passes", 2), post, lib=mk(), contracts=contracts, loop_rules={(QS + "pass_eff_qsvd", 0): PassNC()},
             clauses=["returns_factors", "U_has_orthonormal_columns", "V_has_orthonormal_columns", "pass.preserve.first_pass_gives_orthonormal_columns", "pass.preserve.both_bases_have_orthonormal_columns"],
             replay=replay_rand, timeout_s=30, loop_end=True, site_obligations=False)


# ---------------------------------------------------------------------------------------------------
def check_rand(A4, R, algo, params, seed, rank):
    from .. import runtime as rt
    r = rt.real()
    m, n = A4.shape[:2]
    np.random.seed(seed)
    fn = r.qsvd.rand_qsvd if algo == "rand" else r.qsvd.pass_eff_qsvd
    Uq, s, Vq = fn(rt.q_from4(A4), R, **params)
    U4, V4 = rt.q_to4(Uq), rt.q_to4(Vq)
    s = np.asarray(s, dtype=float)
    sv = rt.singular_values(A4)
    sc = max(1.0, float(sv[0]) if len(sv) else 1.0)
    if U4.shape[:2] != (m, R) or V4.shape[:2] != (n, R) or s.shape != (R,):
        return {"what": "output shapes", "U": U4.shape, "V": V4.shape, "s": s.shape}
    if not (np.all(np.isfinite(U4)) and np.all(np.isfinite(V4)) and np.all(np.isfinite(s))):
        return {"what": "non-finite output"}
    if not (np.all(s >= -1e-10 * sc) and np.all(np.diff(s) <= 1e-9 * sc)):
        return {"what": "values not non-negative non-increasing", "s": s}
    if not np.all(s <= sv[:R] * (1 + 1e-8) + 1e-9 * sc):
        return {"what": "s_i exceeds sigma_i(A) (interlacing violated)", "s": s, "sigma": sv[:R]}
    eu, ev = rt.fro(rt.qmm(rt.qH(U4), U4) - rt.eye4(R)), rt.fro(rt.qmm(rt.qH(V4), V4) - rt.eye4(R))
    if not (eu <= 1e-8 and ev <= 1e-8):
        return {"what": "U or V columns not orthonormal", "errU": eu, "errV": ev}
    D = np.zeros((R, R, 4))
    for i in range(R):
        D[i, i, 0] = s[i]
    err = rt.fro(A4 - rt.qmm(rt.qmm(U4, D), rt.qH(V4)))
    opt = float(np.sqrt(np.sum(sv[R:] ** 2)))
    if not (err >= opt * (1 - 1e-8) - 1e-9 * sc and err <= rt.fro(A4) * (1 + 1e-8) + 1e-9 * sc):
        return {"what": "approximation error outside [Eckart-Young optimum, ||A||_F]", "err": err, "optimum": opt, "normA": rt.fro(A4)}
    if rank <= R and not err <= 1e-7 * sc:
        return {"what": "rank(A) <= R but the decomposition is not exact", "err": err}
    return None


def replay_rand(seed):
    from .c06 import make_rank
    rng = np.random.default_rng(seed)
    for (m, n, r, R, Pv) in ((6, 5, 5, 2, 2), (4, 6, 4, 3, 10), (5, 5, 2, 2, 0), (3, 3, 3, 3, 10)):
        A4 = make_rank(rng, m, n, r)
        for algo, params in (("rand", dict(oversample=Pv, n_iter=1)), ("pass", dict(oversample=Pv, n_passes=3))):
            try:
                res = check_rand(A4, R, algo, params, seed, r)
            except Exception as e:
                res = {"exception": f"{type(e).__name__}: {e}"}
            if res and r >= R:
                res.update({"failed": True, "A": A4, "R": R, "algo": algo, "params": params})
                return res
    return {"failed": False}


def bounded(rep: Report, tier, seed):
    from .c06 import make_rank
    rng = np.random.default_rng(seed)
    b = rep.add_bounded(Bounded("parameter_grid", "shapes {(3,3),(5,3),(3,5),(6,4),(4,6),(7,7)} x ranks x R <= min(m,n) x oversample {0,2,10} x {n_iter 0..3, passes 2..5} x seeds",
                                "orthonormal factors, s_i <= sigma_i, Eckart-Young <= error <= ||A||_F, exact when rank <= R; distinct by (shape, rank, R, P, algorithm setting, seed)"))
    shapes = [(3, 3), (5, 3), (3, 5), (6, 4), (4, 6)] + ([(7, 7), (2, 6)] if tier == "thorough" else [])
    settings = [("rand", dict(n_iter=0)), ("rand", dict(n_iter=2)), ("pass", dict(n_passes=2)), ("pass", dict(n_passes=3)), ("pass", dict(n_passes=5))]
    if tier == "thorough":
        settings += [("rand", dict(n_iter=1)), ("rand", dict(n_iter=3)), ("pass", dict(n_passes=4))]
    seeds = [seed, seed + 1] if tier == "quick" else [seed, seed + 1, seed + 2, seed + 3]
    for (m, n) in shapes:
        for r in range(1, min(m, n) + 1):
            A4 = make_rank(rng, m, n, r)
            for R in range(1, min(m, n) + 1):
                if tier == "quick" and (R + r) % 2 and R not in (1, min(m, n)):
                    continue
                for Pv in (0, 2, 10):
                    for algo, prm in settings:
                        if tier == "quick" and (Pv == 2 and algo == "pass"):
                            continue
                        for sd in seeds[: (1 if tier == "quick" and Pv == 10 else len(seeds))]:
                            params = dict(prm, oversample=Pv)
                            b.case(f"{P}.bounded.grid", (m, n, r, R, Pv, algo, tuple(sorted(prm.items())), sd),
                                   lambda A4=A4, R=R, algo=algo, params=params, sd=sd, r=r: check_rand(A4, R, algo, params, sd, r),
                                   f"{algo} {params} on {m}x{n} rank {r}, R={R}", facts={"m": m, "n": n, "rank": r, "R": R, "rank_lt_R": r < R, "oversample": Pv, "algo": algo},
                                   inputs={"A": A4, "R": R, "params": params, "seed": sd})
    b.samples.append({"shape": [3, 5], "rank": 3, "R": 2, "oversample": 10, "algo": "rand n_iter=2", "regime": "sketch wider than the matrix"})
    b.done()
    # graded spectra: exactness on rank <= R must survive several power iterations / passes (needs re-orthonormalisation)
    from .. import runtime as rt
    b2 = rep.add_bounded(Bounded("graded_spectra", "shapes (6,4) (4,6) (7,5); sigma_i = g^i for g in {1e-1, 1e-2, 1e-3}; rank = R in 2..4 and full rank; n_iter 1..3, passes 3..5; oversample {0, 2}",
                                 "same contract (exact when rank <= R to 1e-7 sigma_1; orthonormal factors)"))
    for (m, n) in [(6, 4), (4, 6)] + ([(7, 5)] if tier == "thorough" else []):
        k = min(m, n)
        for g in (1e-1, 1e-2, 1e-3):
            for r in (2, 3, k):
                if g ** (r - 1) < 1e-8:
                    continue        # numerically rank deficient (sigma_r < 1e-8 sigma_1): that regime is the rank < R finding, not this sweep
                sv = [g ** i for i in range(r)]
                A4 = rt.from_svd(rng, m, n, sv)[0]
                for R in sorted({r, min(k, r + 1)} if r < k else {2, k}):
                    for algo, prm in (("rand", dict(n_iter=2)), ("rand", dict(n_iter=3)), ("rand", dict(n_iter=1)), ("pass", dict(n_passes=3)), ("pass", dict(n_passes=5)), ("pass", dict(n_passes=4))):
                        for Pv in (0, 2):
                            if tier == "quick" and Pv == 0 and prm.get("n_iter") == 1:
                                continue
                            params = dict(prm, oversample=Pv)
                            b2.case(f"{P}.bounded.graded", (m, n, g, r, R, Pv, algo, tuple(sorted(prm.items()))),
                                    lambda A4=A4, R=R, algo=algo, params=params, r=r: check_rand(A4, R, algo, params, seed, r),
                                    f"{algo} {params} on {m}x{n} graded spectrum g={g} rank {r}, R={R}", facts={"m": m, "n": n, "rank": r, "R": R, "rank_lt_R": r < R, "algo": algo, "grade": g},
                                    inputs={"A": A4, "R": R, "params": params, "seed": seed})
    b2.samples.append({"shape": [6, 4], "sigma": [1, 1e-3, 1e-6], "R": 3, "algo": "rand n_iter=3"})
    b2.done()


def run(tier, seed):
    rep = Report(P, tier, seed, "exploration")
    rep.assumptions += [
        "qr_qua, real_expand, real_contract, quat_matmat, quat_hermitian and np.linalg.svd are used through shape contracts (plus the sortedness of the small SVD); orthonormality of qr_qua's Q is the C06 contract with its known finding for rank-deficient input",
        "power iterations 0..3 and passes 2..5 are enumerated (the property's quantifier); all other parameters are symbolic",
        "'every seed' and the probabilistic quality of the sketch are sampled over seeds; the deterministic consequences are what the runtime contract checks",
    ]
    rep.trusted += ["qv engine", "z3 5.1", "library model"]
    deductive(rep, tier)
    orthonormal_factors(rep)
    from ..frame import no_module_state
    no_module_state(rep, P, [QS + "rand_qsvd", QS + "pass_eff_qsvd"])
    bounded(rep, tier, seed)
    return rep


def replay(path):
    import json
    with open(path) as f:
        d = json.load(f)
    print(json.dumps({k: d[k] for k in ("property", "obligation", "text")}, indent=1))
    return run("quick", d.get("seed", 0)).finish()
