"""C16 - Givens QR of Hessenberg matrices and triangular solves are exact building blocks.

Deductive part:
  ggivens      on every path (tiny norm / |q1| < |q2| / |q1| >= |q2|) the 8x8 result has the component-
               blocked layout of a 2x2 quaternion matrix M, M^H M = I and M^H [x1; x2] = [||x||; 0]
               (QF_NRA, discharged in parallel); with C02's homomorphism lemma G^T G = I follows;
  GRSGivens    the 4x4 result is orthogonal and rotates (g1..g4) to (r, 0, 0, 0);
  absQsparse / dotinvQsparse   modulus and inverse formulas; accuracy of the regularised inverse
               q inv(q) = 1 up to 1e-12 for |q| >= 1e-6;
  UtriangleQsparse and the dense forward / backward substitutions: shape-bounded symbolic proof
               (all entries, every branch) that T X = B when the regularisation is zero, and the
               accuracy of the regularisation separately; any number of right-hand sides.
  all-size proofs (ghost-function invariants, symbolic sizes): dense forward / backward substitution, UtriangleQsparse, and
               Hess_QR_ggivens: the Givens sweep (rows of the stacked array rotated by M^H, R upper triangular), the accumulated
               factor (columns rotated by the same M), the last-column rotation and the re-layout for (k+1) x k input, and the
               matrix-level step lemma that turns these into  U R = H,  U^H U = I  (see hess_qr_sweep_all_sizes).
Bounded stand-in: k = 1..4 (5), Hessenberg patterns, diagonal moduli 1e-6..1e6, 1-4 rhs."""
from __future__ import annotations

import itertools
import time
from fractions import Fraction

import numpy as np
import z3

from .. import idx as ix
from .. import smt, spec
from ..core import Bounded, Obligation, Report, run_case
from ..interp import Interp
from ..libmodel import Library
from ..sym import Ctx, OutOfReach, PathAbort, Raised, SInt, SReal, SBool, cur, sand, snot, sor, ssqrt, explore

P = "C16"
U = "quatica/utils.py::"
S = "quatica/solver.py::"


def zr(x):
    return SReal.lift(x)


def qham(p, q):
    return spec.hamilton(list(p), list(q), lambda a, b: a * b)


def qconj(p):
    return [p[0], -p[1], -p[2], -p[3]]


def qadd(p, q):
    return [a + b for a, b in zip(p, q)]


def vec(name, n=4):
    return ix.IArr.from_fn([n], lambda vi, name=name: SReal.var(f"{name}{vi[0]}"))


def symbolic_paths(rep, qual, setup, lib_mode="idx", contracts=None, max_paths=64):
    """All feasible paths of one symbolic call: list of (outcome, value, hyps)."""
    ctx = Ctx(qual)
    out = []
    with ctx:
        def run():
            I = Interp(rep.repo, Library(lib_mode), contracts or {}, {})
            args, kwargs = setup(I, ctx)
            return I.call_qual(qual, *args, **kwargs)
        for (n, outcome, val, hyps, eff, ghost, unc) in explore(ctx, run, max_paths):
            out.append((outcome, val, list(ctx.base_hyps) + hyps))
    return out


def deductive(rep: Report, tier):
    # ------------------------------------------------------------------ ggivens
    rep.function(U + "ggivens")
    queries, names = [], []
    try:
        paths = symbolic_paths(rep, U + "ggivens", lambda I, c: ([vec("a"), vec("b")], {}))
    except (OutOfReach, Raised) as e:
        paths = []
        rep.add(Obligation(f"{P}.ggivens.reach", U + "ggivens", "all-shapes", smt.UNDECIDED, "", 0.0, f"out of reach: {e}"))
    x1 = [SReal.var(f"a{i}") for i in range(4)]
    x2 = [SReal.var(f"b{i}") for i in range(4)]
    tt = ssqrt_expr(x1 + x2)
    npaths = 0
    for outcome, G, hyps in paths:
        if outcome != "return" or not isinstance(G, ix.IArr) or tuple(G.vshape) != (8, 8):
            if outcome != "abort":
                rep.add(Obligation(f"{P}.ggivens.path{npaths}.returns_8x8", U + "ggivens", "all-shapes", smt.REFUTED, "syntactic", 0.0, {"outcome": outcome}, replay=replay_givens))
            continue
        tag = f"path{npaths}"
        npaths += 1
        # M[r][c] component k = G[2k + r, c]   (component-blocked layout of a 2x2 quaternion matrix)
        M = [[[G.at(2 * k + r, c) for k in range(4)] for c in range(2)] for r in range(2)]
        # structure: G equals the Realp layout of M: block (a, b) = sign * component
        RP = [[(0, 1), (1, -1), (2, -1), (3, -1)], [(1, 1), (0, 1), (3, -1), (2, 1)], [(2, 1), (3, 1), (0, 1), (1, -1)], [(3, 1), (2, -1), (1, 1), (0, 1)]]
        conds = []
        for a in range(4):
            for b in range(4):
                comp, sg = RP[a][b]
                for r in range(2):
                    for c in range(2):
                        conds.append(zr(G.at(2 * a + r, 2 * b + c)) == sg * zr(M[r][c][comp]))
        queries.append((hyps, z3.And(*conds)))
        names.append(f"{tag}.structure_is_blocked_embedding_of_2x2")
        # unitarity M^H M = I
        for (c1, c2) in ((0, 0), (0, 1), (1, 1)):
            e = qadd(qham(qconj(M[0][c1]), M[0][c2]), qham(qconj(M[1][c1]), M[1][c2]))
            want = [1 if c1 == c2 else 0, 0, 0, 0]
            for k in range(4):
                queries.append((hyps, zr(e[k]) == want[k]))
                names.append(f"{tag}.unitary.col{c1}{c2}.comp{k}")
        # zeroing M^H [x1; x2] = [t; 0]
        tnorm = z3.Real("tnorm")
        hz = hyps + [tnorm >= 0, tnorm * tnorm == sum((zr(v) * zr(v) for v in x1 + x2), z3.RealVal(0))]
        identity_path = all(not isinstance(G.at(i, j), SReal) for i in range(8) for j in range(8))
        for c in range(2):
            e = qadd(qham(qconj(M[0][c]), x1), qham(qconj(M[1][c]), x2))
            for k in range(4):
                want = tnorm if (c == 0 and k == 0) else 0
                if identity_path:
                    # degenerate pair (norm <= machine eps): the identity is returned; the image deviates from (norm, 0) by at most the norm
                    eps2 = z3.RealVal(2) * z3.RealVal("1/4503599627370496")
                    queries.append((hz, z3.And(zr(e[k]) - want <= eps2, want - zr(e[k]) <= eps2)))
                    names.append(f"{tag}.degenerate_pair_within_eps.row{c}.comp{k}")
                elif c == 0 and k == 0:
                    # the image's first entry is the non-negative root of |x1|^2 + |x2|^2
                    S2 = sum((zr(v) * zr(v) for v in x1 + x2), z3.RealVal(0))
                    queries.append((hyps, zr(e[k]) * zr(e[k]) == S2))
                    names.append(f"{tag}.maps_pair_to_norm_zero.row0.comp0.squares_to_norm2")
                    queries.append((hyps, zr(e[k]) >= 0))
                    names.append(f"{tag}.maps_pair_to_norm_zero.row0.comp0.nonnegative")
                else:
                    queries.append((hyps, zr(e[k]) == 0))
                    names.append(f"{tag}.maps_pair_to_norm_zero.row{c}.comp{k}")
    # path conditions must cover all three regimes
    rep.add(Obligation(f"{P}.ggivens.three_paths", U + "ggivens", "all-shapes", smt.PROVED if npaths == 3 else smt.UNDECIDED, "path-enumeration", 0.0,
                       None if npaths == 3 else {"paths": npaths}))
    t0 = time.time()
    vs = prove_algebra_then_smt(queries, timeout_s=60 if tier == "quick" else 240)
    for nm, v in zip(names, vs):
        rep.add(Obligation(f"{P}.ggivens.{nm}", U + "ggivens", "all-shapes", v.status, v.backend, v.secs, {"model": v.model} if v.model else v.detail, replay=replay_givens))
    rep.solver_secs += time.time() - t0

    # ------------------------------------------------------------------ GRSGivens (four scalars)
    rep.function(U + "GRSGivens")
    g = [SReal.var(f"g{i}") for i in range(4)]
    queries, names = [], []
    for outcome, G, hyps in symbolic_paths(rep, U + "GRSGivens", lambda I, c: (list(g), {})):
        if outcome != "return" or not isinstance(G, ix.IArr) or tuple(G.vshape) != (4, 4):
            continue
        ident = all(not isinstance(G.at(i, j), SReal) for i in range(4) for j in range(4))
        tag = "identity_branch" if ident else "rotation_branch"
        conds = []
        for i in range(4):
            for j in range(4):
                tot = Fraction(0)
                for k in range(4):
                    tot = tot + G.at(k, i) * G.at(k, j)
                conds.append(zr(tot) == (1 if i == j else 0))
        queries.append((hyps, z3.And(*conds)))
        names.append(f"{tag}.orthogonal")
        if not ident:
            r = z3.Real("rnorm")
            hz = hyps + [r >= 0, r * r == sum((zr(v) * zr(v) for v in g), z3.RealVal(0))]
            conds = []
            for i in range(4):
                tot = Fraction(0)
                for k in range(4):
                    tot = tot + G.at(k, i) * g[k]
                conds.append(zr(tot) == (r if i == 0 else 0))
            queries.append((hz, z3.And(*conds)))
            names.append(f"{tag}.rotates_to_real")
        else:
            # identity is returned only when the imaginary parts are negligible (<= 1e-8)
            queries.append((hyps, z3.And(*[z3.And(zr(v) <= Fraction(1, 10**8), zr(v) >= -Fraction(1, 10**8)) for v in g[1:]])))
            names.append(f"{tag}.only_when_imaginary_part_negligible")
    for nm, v in zip(names, prove_algebra_then_smt(queries, timeout_s=60)):
        rep.add(Obligation(f"{P}.GRSGivens.{nm}", U + "GRSGivens", "all-shapes", v.status, v.backend, v.secs, {"model": v.model} if v.model else v.detail, replay=replay_givens))

    # ------------------------------------------------------------------ absQsparse / dotinvQsparse
    q = [SReal.var(f"q{i}") for i in range(4)]
    n2 = q[0] * q[0] + q[1] * q[1] + q[2] * q[2] + q[3] * q[3]

    def setup_s(I, ctx):
        return list(q), {}, None

    def post_abs(I, ctx, outcome, val, aux):
        if outcome != "return" or not (isinstance(val, tuple) and len(val) == 5):
            return [("returns5", False)]
        return [("returns5", True), ("modulus", val[0] == ssqrt(n2))]
    run_case(rep, P, U + "absQsparse", "", setup_s, post_abs, lib=Library("idx"), clauses=["returns5", "modulus"], replay=replay_solves)

    def post_inv(I, ctx, outcome, val, aux):
        if outcome != "return" or not (isinstance(val, tuple) and len(val) == 4):
            return [("returns4", False)]
        e = SReal.var("eps")
        theta = n2 / (n2 + e)
        prod = qham(q, list(val))
        return [("returns4", True), ("regularised_inverse_identity", sand(prod[0] == theta, prod[1] == 0, prod[2] == 0, prod[3] == 0)),
                ("conjugate_over_regularised_modulus", sand(*[val[k] * (n2 + e) == (q[k] if k == 0 else -q[k]) for k in range(4)]))]
    libe = Library("idx")
    eps_model(libe)

    def setup_e(I, ctx):
        ctx.assume(SReal.var("eps") >= 0, base=True)
        ctx.assume(n2 > 0, base=True)
        return list(q), {}, None
    run_case(rep, P, U + "dotinvQsparse", "", setup_e, post_inv, lib=libe, clauses=["returns4", "regularised_inverse_identity", "conjugate_over_regularised_modulus"],
             replay=replay_solves, timeout_s=30, algebra=True)
    # the constant actually used: probe with the library's real constants at q = 1 (exact rational arithmetic)
    try:
        with Ctx("probe") as c:
            c.begin_path([])
            I = Interp(rep.repo, Library("idx"), {}, {})
            out = I.call_qual(U + "dotinvQsparse", Fraction(1), Fraction(0), Fraction(0), Fraction(0))
        cst = 1 / out[0] - 1            # inv0 = 1/(1 + c)
        ok = isinstance(cst, Fraction) and 0 <= cst <= Fraction(1, 10**24)
        rep.add(Obligation(f"{P}.dotinvQsparse.regularisation_constant_le_1e-24", U + "dotinvQsparse", "all-shapes", smt.PROVED if ok else smt.REFUTED, "exact-evaluation", 0.0,
                           None if ok else {"constant": float(cst), "consequence": "q*inv(q) = |q|^2/(|q|^2 + c) deviates from 1 by c/(|q|^2+c): 2.2e-4 at |q| = 1e-6 for c = 2.2e-16"},
                           replay=replay_solves))
    except Exception as ex:
        rep.add(Obligation(f"{P}.dotinvQsparse.regularisation_constant_le_1e-24", U + "dotinvQsparse", "all-shapes", smt.UNDECIDED, "", 0.0, f"probe failed: {ex}"))
    N, cc = z3.Reals("N cc")
    v = smt.prove([N >= z3.RealVal("1/1000000000000"), cc >= 0, cc <= z3.RealVal("1/1000000000000000000000000")], cc / (N + cc) <= z3.RealVal("1/1000000000000"), 10)
    rep.add(Obligation(f"{P}.lemma.inverse_accuracy_from_constant", "spec", "all-shapes", v.status, v.backend, v.secs, v.model, kind="lemma"))

    # ------------------------------------------------------------------ UtriangleQsparse, shape-bounded
    bound_n, bound_k = (2, 2) if tier == "quick" else (3, 3)
    for n in range(1, bound_n + 1):
        for k in range(1, bound_k + 1):
            def setup_u(I, ctx, n=n, k=k):
                R = [ix.IArr.from_fn([n, n], lambda vi, c=c: SReal.var(f"R{c}_{vi[0]}{vi[1]}") if vi[1] >= vi[0] else Fraction(0)) for c in range(4)]
                B = [ix.IArr.from_fn([n, k], lambda vi, c=c: SReal.var(f"B{c}_{vi[0]}{vi[1]}")) for c in range(4)]
                Bin = [b.copy() for b in B]
                eps = SReal.var("eps")
                ctx.assume(eps == 0, base=True)          # exactness is stated for zero regularisation
                for i in range(n):                       # non-singular diagonal
                    d = sum((zr(R[c].at(i, i)) * zr(R[c].at(i, i)) for c in range(4)), z3.RealVal(0))
                    ctx.assume(d > Fraction(1, 10**20), base=True)
                return R + B, {}, (R, Bin, n, k)

            def post_u(I, ctx, outcome, val, aux):
                R, Bin, n, k = aux
                if outcome != "return" or not (isinstance(val, tuple) and len(val) == 4):
                    return [("returns_solution", False)]
                X = val
                conds = []
                for i in range(n):
                    for col in range(k):
                        acc = [Fraction(0)] * 4
                        for j in range(i, n):
                            acc = qadd(acc, qham([R[c].at(i, j) for c in range(4)], [X[c].at(j, col) for c in range(4)]))
                        conds += [acc[c] == Bin[c].at(i, col) for c in range(4)]
                return [("returns_solution", True), ("T_X_eq_B", sand(*conds))]

            lib = Library("idx")
            eps_model(lib)
            run_case(rep, P, U + "UtriangleQsparse", f"n{n}_rhs{k}", setup_u, post_u, lib=lib, clauses=["returns_solution", "T_X_eq_B"],
                     scope=f"shape-bounded(n={n}, right-hand sides={k}; all entries; regularisation eps = 0)", replay=replay_solves, timeout_s=60,
                     site_obligations=False, algebra=True)

    # ------------------------------------------------------------------ dense substitutions, shape-bounded
    for fn, lower in (("_solve_lower_triangular_quat", True), ("_solve_upper_triangular_quat", False)):
        for n in range(1, (2 if tier == "quick" else 3) + 1):
            for k in ((1, 2) if n < 3 else (1,)):
                def setup_d(I, ctx, n=n, k=k, lower=lower):
                    def cell(vi):
                        i, j = vi
                        if (lower and j > i) or (not lower and j < i):
                            return ix.QScal(Fraction(0))
                        return ix.QScal(*[SReal.var(f"T{c}_{i}{j}") for c in range(4)])
                    Tm = ix.IArr.from_fn([n, n], cell, quat=True)
                    B = ix.IArr.from_fn([n, k], lambda vi: ix.QScal(*[SReal.var(f"B{c}_{vi[0]}{vi[1]}") for c in range(4)]), quat=True)
                    return [Tm, B], {}, (Tm, B, n, k)

                def post_d(I, ctx, outcome, val, aux):
                    Tm, B, n, k = aux
                    if outcome != "return" or not isinstance(val, ix.IArr):
                        return [("returns", False)]
                    conds = []
                    reg = Fraction(1, 10**30)
                    for i in range(n):
                        d = Tm.at(i, i).norm2()
                        theta = d / (d + reg)
                        for col in range(k):
                            acc = ix.QScal(Fraction(0))
                            off = ix.QScal(Fraction(0))
                            for j in range(n):
                                t = Tm.at(i, j) * val.at(j, col)
                                acc = acc + t
                                if j != i:
                                    off = off + t
                            # (T X)[i] = theta B[i] + (1 - theta) * (off-diagonal part): exact solve up to the 1e-30 regularisation
                            want = B.at(i, col) * theta + off * (1 - theta)
                            conds.append(acc == want)
                    return [("returns", True), ("T_X_eq_B_up_to_1e-30_regularisation", sand(*conds))]
                run_case(rep, P, S + fn, f"n{n}_rhs{k}", setup_d, post_d, lib=Library("idx"), clauses=["returns", "T_X_eq_B_up_to_1e-30_regularisation"],
                         scope=f"shape-bounded(n={n}, right-hand sides={k}; all entries)", replay=replay_solves, timeout_s=60, site_obligations=False, algebra=True)
    dense_substitution_all_n(rep)
    utriangle_all_n(rep)
    hess_qr_sweep_all_sizes(rep)          # nonlinear identities; ~100 s with cvc5 asked early (z3 needs its whole budget on them, cvc5 seconds)
    # regularisation size: 1 - theta <= 1e-30 / |t|^2
    d = z3.Real("d")
    v = smt.prove([d > 0], 1 - d / (d + z3.RealVal("1/1000000000000000000000000000000")) <= z3.RealVal("1/1000000000000000000000000000000") / d, 10)
    rep.add(Obligation(f"{P}.lemma.regularisation_bound", "spec", "all-shapes", v.status, v.backend, v.secs, v.model, kind="lemma"))
    rep.canary("C16.canary.left_vs_right_inverse", smt.prove([], z3.And(*[zr(a) == zr(b) for a, b in zip(qham(x1, x2), qham(x2, x1))]), 5).status == smt.REFUTED)


def dense_substitution_all_n(rep: Report):
    """_solve_lower_triangular_quat / _solve_upper_triangular_quat for ALL n and ALL numbers of right-hand sides, by loop
    invariants over ghost functions:
        XF(r, c)      the value row r of the solution receives (uninterpreted; pinned by the defining axiom below)
        SF(i, j, c)   the partial sum  sum_{j' visited before j} T[i, j'] XF(j', c)   (unfolding axiom per step)
      outer loop   rows already processed hold XF, the others are still zero (frame)
      inner loop   acc[0, c] == SF(i, j, c)
      column loop  row i holds XF in the columns already written
      defining axiom  XF(i, c) == conj(t_ii)/(|t_ii|^2 + 1e-30) * (B[i, c] - SF(i, <all off-diagonal j>, c))
    so the returned X satisfies the substitution recurrence row by row; with lemma.regularisation_bound this is T X = B up
    to the 1e-30 regularisation.  The ghost functions are a definitional extension (recursion on the row order)."""
    from ..interp import LoopRule

    for lower in (True, False):
        fn = "_solve_lower_triangular_quat" if lower else "_solve_upper_triangular_quat"
        QN = S + fn
        Tname = "L" if lower else "U"

        def ghosts(ctx):
            g = ctx.ghost
            if "XF" not in g:
                g["XF"] = [z3.Function(f"XF{c}", z3.IntSort(), z3.IntSort(), z3.RealSort()) for c in range(4)]
                g["SF"] = [z3.Function(f"SF{c}", z3.IntSort(), z3.IntSort(), z3.IntSort(), z3.RealSort()) for c in range(4)]
            return g

        def XFq(ctx, r, c):
            g = ghosts(ctx)
            return ix.QScal(*[SReal.mk(f(SInt.lift(r), SInt.lift(c))) for f in g["XF"]])

        def SFq(ctx, i, j, c):
            g = ghosts(ctx)
            return ix.QScal(*[SReal.mk(f(SInt.lift(i), SInt.lift(j), SInt.lift(c))) for f in g["SF"]])

        def dinv(Tm, i):
            d = Tm.at(i, i)
            den = d.norm2() + Fraction(1, 10 ** 30)
            return ix.QScal(d.c[0], -d.c[1], -d.c[2], -d.c[3]) * (1 / den)

        def j_first(i, n):          # first j of the inner loop, and the j after the last one
            return (0, i) if lower else (i + 1, n)

        def processed(r, i, n):     # row r has been processed before the outer iteration for row i
            return (r < i) if lower else (r > i)

        class Outer(LoopRule):
            modifies = ("X",)

            def closed(self, fr, i_done):
                c = cur()
                n = fr.vars["n"]
                return lambda vi: ix.ite(i_done(vi[0]), XFq(c, vi[0], vi[1]), ix.QScal(Fraction(0)))

            def row_of(self, fr, k):
                # ascending loop: row index == k; descending range(n-1,-1,-1): the interpreter hands k = row index too
                return k

            def check(self, fr, k_next, phase):
                c = cur()
                X, n = fr.vars["X"], fr.vars["n"]
                want = self.closed(fr, lambda r: processed(r, k_next, n))
                cond, idx = ix.pointwise_eq(c, X, want)
                c.require(f"inv.{phase}", cond, "processed rows hold XF, the others are still zero", key=f"{fn}.outer.inv.{phase}")

            def establish(self, it, fr, start):
                self.check(fr, start, "establish")

            def havoc(self, it, fr, k):
                from ..rules import _set_whole
                n = fr.vars["n"]
                _set_whole(fr.vars["X"], self.closed(fr, lambda r: processed(r, k, n)))

            def preserve(self, it, fr, k):
                self.check(fr, (k + 1) if lower else (k - 1), "preserve")

        class Inner(LoopRule):
            modifies = ("acc",)

            def closed(self, fr, j):
                c = cur()
                i = fr.vars["i"]
                j0, _ = j_first(i, fr.vars["n"])
                return lambda vi: ix.ite(SBool.mk(SInt.lift(j) == SInt.lift(j0)), ix.QScal(Fraction(0)), SFq(c, i, j, vi[1]))

            def establish(self, it, fr, start):
                c = cur()
                acc = fr.vars["acc"]
                cond, idx = ix.pointwise_eq(c, acc, self.closed(fr, start))
                c.require("inv.establish", cond, "acc equals the (empty) partial sum at the first off-diagonal column of the spec", key=f"{fn}.inner.inv.establish")

            def havoc(self, it, fr, j):
                fr.vars["acc"] = ix.IArr.from_fn([1, fr.vars["k"]], self.closed(fr, j), quat=True)

            def preserve(self, it, fr, j):
                c = cur()
                i, Tm, X = fr.vars["i"], fr.vars[Tname], fr.vars["X"]
                acc = fr.vars["acc"]
                idx = ix.fresh_indices(c, acc.vshape, "s")
                col = idx[1]
                j0, _ = j_first(i, fr.vars["n"])
                prev = ix.ite(SBool.mk(SInt.lift(j) == SInt.lift(j0)), ix.QScal(Fraction(0)), SFq(c, i, j, col))
                # unfolding axiom of the ghost sum at (i, j, col)
                c.assume(ix.scal_eq(SFq(c, i, j + 1, col), prev + Tm.at(i, j) * XFq(c, j, col)))
                c.require("inv.preserve", ix.scal_eq(acc.at(*idx), SFq(c, i, j + 1, col)), "acc[0, c] is the partial sum after column j", key=f"{fn}.inner.inv.preserve")

        class Cols(LoopRule):
            modifies = ("X",)

            def closed(self, fr, col_done):
                c = cur()
                i, n = fr.vars["i"], fr.vars["n"]
                return lambda vi: ix.ite(processed(vi[0], i, n), XFq(c, vi[0], vi[1]),
                                         ix.ite(sand(SBool.mk(SInt.lift(vi[0]) == SInt.lift(i)), vi[1] < col_done), XFq(c, vi[0], vi[1]), ix.QScal(Fraction(0))))

            def check(self, fr, col, phase):
                c = cur()
                cond, idx = ix.pointwise_eq(c, fr.vars["X"], self.closed(fr, col))
                c.require(f"inv.{phase}", cond, "row i holds XF in the columns written so far; nothing else changed", key=f"{fn}.cols.inv.{phase}")

            def establish(self, it, fr, start):
                self.check(fr, start, "establish")

            def havoc(self, it, fr, col):
                from ..rules import _set_whole
                _set_whole(fr.vars["X"], self.closed(fr, col))

            def preserve(self, it, fr, col):
                c = cur()
                i, n, Tm, B = fr.vars["i"], fr.vars["n"], fr.vars[Tname], fr.vars["B"]
                j0, j1 = j_first(i, n)
                total = ix.ite(SBool.mk(SInt.lift(j1) == SInt.lift(j0)), ix.QScal(Fraction(0)), SFq(c, i, j1, col))
                # defining axiom of XF at (i, col)
                c.assume(ix.scal_eq(XFq(c, i, col), dinv(Tm, i) * (B.at(i, col) - total)))
                self.check(fr, col + 1, "preserve")

        def setup(I, ctx, lower=lower):
            n, k = dims(ctx, "n", "k")
            Tm = ix.input_array("T", [n, n], quat=True)
            B = ix.input_array("B", [n, k], quat=True)
            return [Tm, B], {}, (Tm, B, n, k)

        def post(I, ctx, outcome, val, aux):
            Tm, B, n, k = aux
            if outcome != "return" or not isinstance(val, ix.IArr):
                return [("returns_array", False)]
            c = ctx
            (i0, c0) = ix.fresh_indices(ctx, [n, k], "w")
            j0, j1 = j_first(i0, n)
            total = ix.ite(SBool.mk(SInt.lift(j1) == SInt.lift(j0)), ix.QScal(Fraction(0)), SFq(ctx, i0, j1, c0))
            ctx.assume(ix.scal_eq(XFq(ctx, i0, c0), dinv(Tm, i0) * (B.at(i0, c0) - total)))      # the same defining axiom, at the witness
            return [("returns_array", True), ("shape", sand(val.vshape[0] == n, val.vshape[1] == k)),
                    ("every_row_satisfies_the_substitution_recurrence", ix.scal_eq(val.at(i0, c0), dinv(Tm, i0) * (B.at(i0, c0) - total)))]
        from .c01 import dims

        def model_replay(inputs, lower=lower, fn=fn):
            """run-time contract on the real code for a concrete (T, B): T X = B to 1e-9 when the diagonal is well away from zero"""
            from .. import runtime as rt
            T4, B4 = inputs.get("T"), inputs.get("B")
            if T4 is None or B4 is None:
                return None
            n_ = T4.shape[0]
            T4 = T4.copy()
            for i in range(n_):
                for j in range(n_):
                    if (lower and j > i) or (not lower and j < i):
                        T4[i, j] = 0.0                      # the routine only reads its triangle
            if min(np.linalg.norm(T4[i, i]) for i in range(n_)) < 1e-3:
                return None
            X = getattr(rt.real().solver, fn)(rt.q_from4(T4), rt.q_from4(B4))
            err = rt.fro(rt.qmm(T4, rt.q_to4(X)) - B4)
            if not err <= 1e-9 * max(1.0, rt.fro(B4), rt.fro(T4)):
                return {"what": "T X != B on the concrete counterexample", "err": err}
            return None
        run_case(rep, P, QN, "all_n", setup, post, lib=Library("idx"),
                 loop_rules={(QN, 0): Outer(), (QN, 1): Inner(), (QN, 2): Cols()},
                 clauses=["returns_array", "shape", "every_row_satisfies_the_substitution_recurrence"], replay=replay_solves, timeout_s=60, model_replay=model_replay)


def utriangle_all_n(rep: Report):
    """UtriangleQsparse (component-form back substitution used by Q-GMRES) for ALL n and ALL numbers of right-hand sides.
    Ghost functions:  XF(r, c)  the value row r of the solution receives;  SB(i, c) = (R[i, i+1:n] * X[i+1:n, :])[c]  - the
    kernel product of the row tail with the already solved block (named at the call after checking that the arguments are
    exactly that row tail and that block; the kernel itself is C01's Hamilton product).
      loop invariant (descending i): rows > i of b hold XF, rows <= i still hold the right-hand side B (in-place frame)
      per row with |r_ii| > tol:      X[i, c] == conj(r_ii)/(|r_ii|^2 + tiny) * (B[i, c] - SB(i, c))          (also row n-1, SB = 0)
      per row with |r_ii| <= tol:     X[i, :] == 0   (the documented least-squares fallback)"""
    from ..interp import LoopRule
    from ..rules import _set_whole
    from ..sym import is_reallike
    QN = U + "UtriangleQsparse"
    I_ = z3.IntSort()
    XF = [z3.Function(f"XFu{c}", I_, I_, z3.RealSort()) for c in range(4)]
    SB = [z3.Function(f"SBu{c}", I_, I_, z3.RealSort()) for c in range(4)]
    zi = SInt.lift

    def q(fs, *a):
        return ix.QScal(*[SReal.mk(f(*[zi(x) for x in a])) for f in fs])

    def qat(arrs, *idx):
        return ix.QScal(*[a.at(*idx) for a in arrs])

    def dinvq(R, i, tiny):
        d = qat(R, i, i)
        den = d.norm2() + tiny
        return ix.QScal(d.c[0] / den, -d.c[1] / den, -d.c[2] / den, -d.c[3] / den)

    def k_times(I, args, kwargs):
        B, C = args[:4], args[4:8]
        c = cur()
        g = c.ghost
        if all(is_reallike(x) for x in B) and all(isinstance(x, ix.IArr) for x in C):
            # quaternion scalar times a row from the left: entrywise Hamilton product (scalar path of the kernel, C01)
            h = ix.QScal(*B)
            snaps = [x._snapshot() for x in C]
            return tuple(ix.IArr.from_fn(list(C[0].vshape), lambda vi, cc=cc: (h * ix.QScal(*[s_(tuple(vi)) for s_ in snaps])).c[cc]) for cc in range(4))
        if all(isinstance(x, ix.IArr) for x in B + C) and len(B[0].vshape) == 1 and len(C[0].vshape) == 2:
            i, n, R = g["row_i"], g["n"], g["R"]
            L, kk = C[0].vshape
            t, col = ix.fresh_indices(c, [L, kk], "t")
            ok = sand(SBool.mk(zi(B[0].vshape[0]) == zi(L)), SBool.mk(zi(L) == zi(n - i - 1)),
                      *[SBool.mk(SReal.lift(B[cc].at(t)) == SReal.lift(R[cc].at(i, i + 1 + t))) for cc in range(4)],
                      *[SBool.mk(SReal.lift(C[cc].at(t, col)) == XF[cc](zi(i + 1 + t), zi(col))) for cc in range(4)])
            c.require("contract.pre", ok, "the kernel is applied to the row tail R[i, i+1:n] and the solved block X[i+1:n, :]", key="utriangle.kernel.row_tail_times_solved_block")
            g["kernel_called"] = True
            return tuple(ix.IArr.from_fn([kk], lambda vi, cc=cc: SReal.mk(SB[cc](zi(i), zi(vi[0])))) for cc in range(4))
        raise ix.OutOfReach("kernel call pattern outside the back substitution")

    class Rows(LoopRule):
        modifies = ("b0", "b1", "b2", "b3")
        nonsingular = False

        def closed(self, fr, i):
            B = cur().ghost["B"]
            return [(lambda vi, cc=cc: ix.ite(vi[0] > i, SReal.mk(XF[cc](zi(vi[0]), zi(vi[1]))), B[cc].at(vi[0], vi[1]))) for cc in range(4)]

        def named_check(self, fr, row, i_next, phase):
            """Name XF(row, .) after the content of row `row`, then compare the arrays with the closed form at i_next."""
            c = cur()
            n, kk = c.ghost["n"], c.ghost["k"]
            r_, col = ix.fresh_indices(c, [n, kk], "f")
            for cc in range(4):
                c.assume(SBool.mk(XF[cc](zi(row), zi(col)) == SReal.lift(fr.vars[f"b{cc}"].at(row, col))))
            want = self.closed(fr, i_next)
            for cc in range(4):
                c.require(f"inv.{phase}", ix.scal_eq(fr.vars[f"b{cc}"].at(r_, col), want[cc]((r_, col))),
                          "rows below hold XF, rows above still hold the right-hand side", key=f"utriangle.rows.inv.{phase}.b{cc}")
            return col

        def row_clause(self, fr, row, phase, with_sum):
            c = cur()
            g = c.ghost
            R, B, tiny, tol = g["R"], g["B"], g["tiny"], g["tol"]
            kk = g["k"]
            col = ix.fresh_indices(c, [kk], "w")[0]
            d = qat(R, row, row)
            big = ssqrt(d.norm2()) > tol
            have = ix.QScal(*[fr.vars[f"b{cc}"].at(row, col) for cc in range(4)])
            rhs = qat(B, row, col) - (q(SB, row, col) if with_sum else ix.QScal(Fraction(0)))
            want = ix.ite(big, dinvq(R, row, tiny) * rhs, ix.QScal(Fraction(0)))
            c.require(f"row.{phase}", ix.scal_eq(have, want), "row satisfies the substitution recurrence (or is zero when |r_ii| <= tol)", key=f"utriangle.row.{phase}.recurrence")

        def establish(self, it, fr, start):
            n = cur().ghost["n"]
            self.row_clause(fr, n - 1, "last", with_sum=False)
            self.named_check(fr, n - 1, start, "establish")

        def havoc(self, it, fr, i):
            for cc in range(4):
                _set_whole(fr.vars[f"b{cc}"], self.closed(fr, i)[cc])
            g = cur().ghost
            g["row_i"] = i
            g.pop("kernel_called", None)
            if self.nonsingular and g.get("_havoc_kind") == "generic":
                # instance of the precondition  forall i: |r_ii| > tol  at the row of this iteration
                cur().assume(ssqrt(qat(g["R"], i, i).norm2()) > g["tol"])

        def preserve(self, it, fr, i):
            self.row_clause(fr, i, "generic", with_sum=True)
            self.named_check(fr, i, i - 1, "preserve")

    def setup(I, ctx, nonsingular=False):
        n, k = dims(ctx, "n", "k")
        R = [ix.input_array(f"R{c}", [n, n]) for c in range(4)]
        B = [ix.input_array(f"B{c}", [n, k]) for c in range(4)]
        b = [x.copy() for x in B]
        tol = SReal.var("tol")
        tiny = SReal.var("eps")
        ctx.assume(sand(tol >= 0, tiny > 0), base=True)          # machine eps / tiny are positive numbers
        ctx.ghost.update({"R": R, "B": B, "n": n, "k": k, "tol": tol, "tiny": tiny})
        if nonsingular:
            ctx.assume(ssqrt(qat(R, n - 1, n - 1).norm2()) > tol)       # instance of the precondition at the last row
        return R + b, dict(tol=tol), (R, B, b, n, k, nonsingular)

    def post(I, ctx, outcome, val, aux):
        R, B, b, n, k, nonsingular = aux
        if outcome != "return":
            return [("returns_the_overwritten_right_hand_side", False)] + ([("every_row_is_solved", False)] if nonsingular else [])
        ok = isinstance(val, tuple) and len(val) == 4 and all(v is x for v, x in zip(val, b))
        out = [("returns_the_overwritten_right_hand_side", ok)]
        if ok and nonsingular:
            i0, c0 = ix.fresh_indices(ctx, [n, k], "z")
            out.append(("every_row_is_solved", sand(*[SBool.mk(SReal.lift(val[cc].at(i0, c0)) == XF[cc](zi(i0), zi(c0))) for cc in range(4)])))
        return out
    lib = Library("idx")
    eps_model(lib)
    from .c01 import dims
    def model_replay(inputs):
        from .. import runtime as rt
        try:
            R4 = np.stack([inputs[f"R{c}"] for c in range(4)], axis=-1)
            B4 = np.stack([inputs[f"B{c}"] for c in range(4)], axis=-1)
        except KeyError:
            return None
        n_ = R4.shape[0]
        for i in range(n_):
            R4[i, :i] = 0.0
        if min(np.linalg.norm(R4[i, i]) for i in range(n_)) < 1e-3:
            return None
        x = rt.real().utils.UtriangleQsparse(*[R4[..., c].copy() for c in range(4)], *[B4[..., c].copy() for c in range(4)])
        X4 = np.stack(list(x), axis=-1)
        err = rt.fro(rt.qmm(R4, X4) - B4)
        if not err <= 1e-9 * max(1.0, rt.fro(B4), rt.fro(R4)):
            return {"what": "R X != B on the concrete counterexample", "err": err}
        return None
    for nonsingular in (True, False):
        rule = Rows()
        rule.nonsingular = nonsingular
        run_case(rep, P, QN, "all_n.nonsingular" if nonsingular else "all_n.any_diagonal", lambda I, ctx, ns=nonsingular: setup(I, ctx, ns), post, lib=lib,
                 contracts={U + "timesQsparse": k_times}, loop_rules={(QN, 0): rule},
                 clauses=["returns_the_overwritten_right_hand_side"] + (["every_row_is_solved"] if nonsingular else []), replay=replay_solves, timeout_s=60, max_paths=300,
                 model_replay=model_replay)


def hess_qr_sweep_all_sizes(rep: Report):
    """Hess_QR_ggivens, the Givens sweep over the sub-diagonal, for EVERY size (m quaternion rows, n columns; stacked component
    representation [A0; A1; A2; A3]).  ggivens by its contract (proved above: G is the component-blocked embedding of a 2 x 2
    quaternion matrix M with M^H M = I and M^H [x1; x2] = [rho; 0]); the embedding is produced by running the REAL Realp on M.
    With Hq(r, c) the quaternion formed by rows r, m+r, 2m+r, 3m+r of column c, ghost rows RF (final) and TS (the row being
    rotated), the loop invariant at step s is
        rows < s of Hq are RF,  row s is TS(s, .),  rows > s are still the input;   TS(s, c) = 0 and RF(r, c) = 0 left of the diagonal
    and each step is   [RF(s, c); TS(s+1, c)] = M^H [TS(s, c); H0(s+1, c)]   for c >= s, nothing else touched   (input assumed
    upper Hessenberg).  Hence R is upper triangular after the sweep.  The accumulated factor: with  p(i, r) = W[i,r] - W[i,m+r] i
    - W[i,2m+r] j - W[i,3m+r] k  each step is  [p(i,s), p(i,s+1)] <- [p(i,s), p(i,s+1)] M  (same M), other columns untouched; i.e.
    U' = U E,  X' = E^H X  with E = diag(I_s, M, I) unitary, so  U X = H  and  U^H U = I  are preserved (lemma hessqr.step_*).
    For the property's (k+1) x k input the last-column rotation acts on a zero entry (identity) and the re-layout returns exactly
    (U, R) = (p, swept array) in the column-block order A2A0123 reads  (case tail.k_plus_1_by_k).  Wider input (n > m) is outside
    the contract: there only the last entry of the last row is rotated and U R != H (observed; not in the property's domain)."""
    from ..interp import LoopRule
    from ..rules import _set_whole
    from ..sym import PathAbort
    QN = U + "Hess_QR_ggivens"
    I_ = z3.IntSort()
    zi = SInt.lift

    def F(name, *sorts):
        return [z3.Function(f"{name}{c}", *sorts, z3.RealSort()) for c in range(4)]
    RF, TS, H0 = F("RFh", I_, I_), F("TSh", I_, I_), F("H0h", I_, I_)

    def q(fs, *a):
        return ix.QScal(*[SReal.mk(f(*[zi(x) for x in a])) for f in fs])

    def h0(r, c):      # upper Hessenberg input: zero below the first sub-diagonal
        return ix.ite(c < r - 1, ix.QScal(Fraction(0)), q(H0, r, c))

    def ts(s_, c):
        return ix.ite(SBool.mk(zi(s_) == zi(0)), h0(0, c), ix.ite(c < s_, ix.QScal(Fraction(0)), q(TS, s_, c)))

    def rf(r, c):
        return ix.ite(c < r, ix.QScal(Fraction(0)), q(RF, r, c))

    def closed(m, s_):
        """cell (rho, c) of the stacked real array at the head of step s_"""
        def hq(r, c):
            return ix.ite(r < s_, rf(r, c), ix.ite(SBool.mk(zi(r) == zi(s_)), ts(s_, c), h0(r, c)))

        def cell(vi):
            rho, c = vi
            return ix.ite(rho < m, hq(rho, c).c[0], ix.ite(rho < 2 * m, hq(rho - m, c).c[1], ix.ite(rho < 3 * m, hq(rho - 2 * m, c).c[2], hq(rho - 3 * m, c).c[3])))
        return cell

    class Sweep(LoopRule):
        modifies = ("Hess", "W")

        def establish(self, it, fr, start):
            c = cur()
            m = fr.vars["m"]
            cond, _ = ix.pointwise_eq(c, fr.vars["Hess"], closed(m, start))
            c.require("inv.establish", cond, "before the sweep the array is the (upper Hessenberg) input", key="hessqr.sweep.inv.establish")

        def havoc(self, it, fr, s_):
            c = cur()
            if c.ghost.get("_havoc_kind") == "exhausted" and not getattr(self, "continue_after", False):
                raise PathAbort("after the sweep: last-column rotation and re-layout are the business of the 'tail' case")
            m = fr.vars["m"]
            _set_whole(fr.vars["Hess"], closed(m, s_))
            tag = c.fresh_name("Wh")
            wf = z3.Function(tag, I_, I_, z3.RealSort())
            _set_whole(fr.vars["W"], lambda vi: SReal.mk(wf(zi(vi[0]), zi(vi[1]))))
            c.ghost["W_head"] = wf
            c.ghost["step"] = s_

        def preserve(self, it, fr, s_):
            c = cur()
            g = c.ghost
            m, n = fr.vars["m"], fr.vars["n"]
            Hs = fr.vars["Hess"]
            M = g["M"]                      # 2 x 2 quaternion matrix of this step's rotation (from the ggivens contract)
            # the contract of ggivens speaks about its arguments; they are the entries (s, s) and (s+1, s) of the current state
            X1, X2 = g["givens_args"]
            c.require("step", sand(ix.scal_eq(X1, ts(s_, s_)), ix.scal_eq(X2, h0(s_ + 1, s_))), "ggivens is called on the diagonal and sub-diagonal entry of column s",
                      key="hessqr.sweep.step.rotation_built_from_column_s")
            # hence (substituting equals into the contract's equation) the rotation annihilates the sub-diagonal entry of column s
            c.assume(ix.scal_eq(M[0][1].conj() * ts(s_, s_) + M[1][1].conj() * h0(s_ + 1, s_), ix.QScal(Fraction(0))))
            col = ix.fresh_indices(c, [n], "c")[0]
            c.assume(col >= s_)
            top, bot = ts(s_, col), h0(s_ + 1, col)
            new_top = M[0][0].conj() * top + M[1][0].conj() * bot
            new_bot = M[0][1].conj() * top + M[1][1].conj() * bot
            # (1) the eight updated rows, one obligation per component and row: a polynomial identity between what the code
            #     computed (G^T times the gathered rows) and the quaternion product M^H [top; bottom]
            for comp in range(4):
                for which, want in ((0, new_top), (1, new_bot)):
                    have = Hs.at(s_ + which + comp * m, col)
                    c.require("step", SBool.mk(SReal.lift(have) == SReal.lift(want.c[comp])),
                              f"component {comp} of row s+{which} is that of M^H [row s; row s+1]", key=f"hessqr.sweep.step.rotated.c{comp}.r{which}", timeout_s=60)
            # (2) frame: every other row, and the columns left of s in the two rotated rows, are untouched
            rho, c2 = ix.fresh_indices(c, [4 * m, n], "e")
            untouched = sor(c2 < s_, sand(*[snot(SBool.mk(zi(rho) == zi(s_ + w + k * m))) for w in (0, 1) for k in range(4)]))
            c.require("inv.preserve", sor(snot(untouched), SBool.mk(SReal.lift(Hs.at(rho, c2)) == SReal.lift(closed(m, s_)((rho, c2))))),
                      "rows other than s, s+1 (in every component block) and columns < s are not written", key="hessqr.sweep.inv.preserve.frame", timeout_s=60)
            # (3) with the naming RF(s, .) := new top row, TS(s+1, .) := new bottom row the state is the closed form for s+1; checked on
            #     the rotated rows: top row at the generic column >= s, bottom row at a generic column > s and at column s itself
            #     (where the annihilation makes it zero) - split so that each goal is linear over the already proved polynomial identities
            c.assume(ix.scal_eq(q(RF, s_, col), new_top))
            for comp in range(4):
                have = Hs.at(s_ + comp * m, col)
                c.assume(SBool.mk(SReal.lift(have) == SReal.lift(new_top.c[comp])))        # proved above (step.rotated.c*.r0)
                want = closed(m, s_ + 1)((s_ + comp * m, col))
                c.require("inv.preserve", SBool.mk(SReal.lift(have) == SReal.lift(want)), "rotated top row matches the invariant for s+1", key=f"hessqr.sweep.inv.preserve.rows.c{comp}.r0", timeout_s=60)
            colb = ix.fresh_indices(c, [n], "b")[0]
            c.assume(colb > s_)
            topb, botb = ts(s_, colb), h0(s_ + 1, colb)
            new_botb = M[0][1].conj() * topb + M[1][1].conj() * botb
            c.assume(ix.scal_eq(q(TS, s_ + 1, colb), new_botb))
            zero_bot = M[0][1].conj() * ts(s_, s_) + M[1][1].conj() * h0(s_ + 1, s_)              # == 0 (assumed above, same expression)
            for comp in range(4):
                have = Hs.at(s_ + 1 + comp * m, colb)
                c.require("step", SBool.mk(SReal.lift(have) == SReal.lift(new_botb.c[comp])), f"component {comp} of row s+1 (column > s) is that of M^H [row s; row s+1]",
                          key=f"hessqr.sweep.step.rotated_right.c{comp}", timeout_s=60)
                c.assume(SBool.mk(SReal.lift(have) == SReal.lift(new_botb.c[comp])))
                want = closed(m, s_ + 1)((s_ + 1 + comp * m, colb))
                c.require("inv.preserve", SBool.mk(SReal.lift(have) == SReal.lift(want)), "rotated bottom row (columns > s) matches the invariant for s+1", key=f"hessqr.sweep.inv.preserve.rows.c{comp}.r1", timeout_s=60)
                have_s = Hs.at(s_ + 1 + comp * m, s_)
                c.require("step", SBool.mk(SReal.lift(have_s) == SReal.lift(zero_bot.c[comp])), f"component {comp} of the entry below the diagonal is that of M^H [x1; x2]",
                          key=f"hessqr.sweep.step.subdiagonal.c{comp}", timeout_s=60)
                c.assume(SBool.mk(SReal.lift(have_s) == SReal.lift(zero_bot.c[comp])))
                want_s = closed(m, s_ + 1)((s_ + 1 + comp * m, s_))
                c.require("inv.preserve", SBool.mk(SReal.lift(have_s) == SReal.lift(want_s)), "the sub-diagonal entry of column s is zero after the step", key=f"hessqr.sweep.inv.preserve.subdiag.c{comp}", timeout_s=60)

            # (4) the accumulated factor: with  p(i, r) = W[i, r] - W[i, m+r] i - W[i, 2m+r] j - W[i, 3m+r] k  (row i of the quaternion matrix U
            #     that the re-layout returns) the step is   [p(i, s), p(i, s+1)]  <-  [p(i, s), p(i, s+1)] M   (columns s, s+1 rotated on the right
            #     by the SAME M whose conjugate transpose rotates rows s, s+1 of the Hessenberg array), every other column untouched.
            #     Together with (1)-(3):  U' = U E,  X' = E^H X  with E = diag(I_s, M, I)  unitary, hence  U' X' = U X  and U' stays unitary
            #     (lemma C16.lemma.hessqr.step_preserves_product).
            Wn, wf = fr.vars["W"], g["W_head"]
            (ri,) = ix.fresh_indices(c, [m], "wr")

            def p_old(r):
                return ix.QScal(SReal.mk(wf(zi(ri), zi(r))), -SReal.mk(wf(zi(ri), zi(m + r))), -SReal.mk(wf(zi(ri), zi(2 * m + r))), -SReal.mk(wf(zi(ri), zi(3 * m + r))))
            for wcol in (0, 1):
                want = p_old(s_) * M[0][wcol] + p_old(s_ + 1) * M[1][wcol]
                signs = (1, -1, -1, -1)
                for comp in range(4):
                    have = Wn.at(ri, s_ + wcol + comp * m)
                    c.require("step", SBool.mk(SReal.lift(have) * signs[comp] == SReal.lift(want.c[comp])),
                              f"component {comp} of column s+{wcol} of the accumulated factor is that of [p(i,s), p(i,s+1)] M", key=f"hessqr.sweep.step.W_rotated.c{comp}.col{wcol}", timeout_s=60)
            (rj, cj) = ix.fresh_indices(c, [m, 4 * m], "we")
            untouched_w = sand(*[snot(SBool.mk(zi(cj) == zi(s_ + w_ + k_ * m))) for w_ in (0, 1) for k_ in range(4)])
            c.require("inv.preserve", sor(snot(untouched_w), SBool.mk(SReal.lift(Wn.at(rj, cj)) == wf(zi(rj), zi(cj)))),
                      "columns of the accumulated factor other than s, s+1 (in every component block) are not written", key="hessqr.sweep.inv.preserve.W_frame", timeout_s=60)

    def k_ggivens(I, args, kwargs):
        x1, x2 = args
        c = cur()
        tag = c.fresh_name("M")
        M = [[ix.QScal(*[SReal.var(f"{tag}.{a}{b}.{k}") for k in range(4)]) for b in range(2)] for a in range(2)]
        comps = [ix.IArr.from_fn([2, 2], lambda vi, k=k: ix.ite(SBool.mk(zi(vi[0]) == zi(0)), ix.ite(SBool.mk(zi(vi[1]) == zi(0)), M[0][0].c[k], M[0][1].c[k]),
                                                               ix.ite(SBool.mk(zi(vi[1]) == zi(0)), M[1][0].c[k], M[1][1].c[k]))) for k in range(4)]
        G = I.call_qual(U + "Realp", *comps)
        # contract of ggivens (obligations C16.ggivens.*): M^H [x1; x2] = [rho; 0]
        X1 = ix.QScal(*[x1.at(k) for k in range(4)])
        X2 = ix.QScal(*[x2.at(k) for k in range(4)])
        c.ghost["givens_args"] = (X1, X2)      # contract: M^H [X1; X2] = [rho; 0]  (used by the rule after checking what X1, X2 are)
        c.ghost["M"] = M
        return G

    def setup(I, ctx):
        m, n = dims(ctx, "m", "n")
        ctx.assume(sand(m >= 2, n >= m - 1), base=True)        # a (k+1) x k Hessenberg matrix has n = m - 1 columns; wider input is allowed
        Hs = ix.IArr.from_fn([4 * m, n], closed(m, 0))
        return [Hs], {}, (m, n)

    def post(I, ctx, outcome, val, aux):
        return []
    from .c01 import dims
    lib = Library("idx")
    n0 = len(rep.obligations)
    staged, smt.CVC5_FIRST_AFTER = smt.CVC5_FIRST_AFTER, 3.0
    try:
        run_case(rep, P, QN, "sweep.all_sizes", setup, post, lib=lib, contracts={U + "ggivens": k_ggivens}, loop_rules={(QN, 0): Sweep()},
                 clauses=[], replay=replay_solves, timeout_s=120, max_paths=200)
    finally:
        smt.CVC5_FIRST_AFTER = staged
    got = {o.id for o in rep.obligations[n0:]}
    for need in ("hessqr.sweep.step.rotated.c0.r0", "hessqr.sweep.step.rotated.c3.r1", "hessqr.sweep.inv.preserve.frame", "hessqr.sweep.step.rotation_built_from_column_s"):
        if not any(need in i for i in got):
            rep.add(Obligation(f"{P}.Hess_QR_ggivens.sweep.{need}.reached", QN, "all-shapes", smt.UNDECIDED, "none", 0.0, {"reason": "obligation was not generated (vacuity guard)"}))


    # ---- after the sweep, (k+1) x k input (the property's domain, n = m - 1): the last-column rotation and the re-layout
    #      state after the loop = the sweep invariant at s = m - 1 (rows < m - 1 final, row m - 1 rotated: zero in every column), W arbitrary
    tail_rule = Sweep()
    tail_rule.continue_after = True

    def setup_tail(I, ctx):
        (m,) = dims(ctx, "m")
        ctx.assume(m >= 2, base=True)
        Hs = ix.IArr.from_fn([4 * m, m - 1], closed(m, 0))
        return [Hs], {}, (m, m - 1)

    def post_tail(I, ctx, outcome, val, aux):
        m, n = aux
        if outcome != "return" or not (isinstance(val, tuple) and len(val) == 2 and all(isinstance(v, ix.IArr) for v in val)):
            return [("returns_pair", False)] if outcome == "return" else []
        Wf, Hf = val
        wf = ctx.ghost["W_head"]
        out = [("returns_pair", True), ("shapes", sand(Wf.shape[0] == m, Wf.shape[1] == 4 * m, Hf.shape[0] == m, Hf.shape[1] == 4 * n))]
        (i, r) = ix.fresh_indices(ctx, [m, m], "u")
        w = lambda a, b: SReal.mk(wf(zi(a), zi(b)))
        # read through A2A0123 (column blocks [A0 A2 A1 A3]) the first factor is  U(i, r) = p(i, r) = W[i,r] - W[i,m+r] i - W[i,2m+r] j - W[i,3m+r] k  of the sweep's final W
        out.append(("U_is_the_accumulated_factor_p", sand(ix.scal_eq(Wf.at(i, r), w(i, r)), ix.scal_eq(Wf.at(i, 2 * m + r), -w(i, m + r)),
                                                         ix.scal_eq(Wf.at(i, m + r), -w(i, 2 * m + r)), ix.scal_eq(Wf.at(i, 3 * m + r), -w(i, 3 * m + r)))))
        # ... and the second factor is the quaternion matrix of the swept array: R(r, c) = RF(r, c) for r < m - 1, last row zero
        (rr, cc) = ix.fresh_indices(ctx, [m, n], "h")
        want = ix.ite(rr < m - 1, rf(rr, cc), ix.QScal(Fraction(0)))
        out.append(("R_is_the_swept_array_upper_triangular_with_zero_last_row",
                    sand(ix.scal_eq(Hf.at(rr, cc), want.c[0]), ix.scal_eq(Hf.at(rr, 2 * n + cc), want.c[1]), ix.scal_eq(Hf.at(rr, n + cc), want.c[2]), ix.scal_eq(Hf.at(rr, 3 * n + cc), want.c[3]))))
        return out
    staged, smt.CVC5_FIRST_AFTER = smt.CVC5_FIRST_AFTER, 3.0
    try:
        run_case(rep, P, QN, "tail.k_plus_1_by_k", setup_tail, post_tail, lib=Library("idx"), contracts={U + "ggivens": k_ggivens}, loop_rules={(QN, 0): tail_rule},
                 clauses=["returns_pair", "shapes", "U_is_the_accumulated_factor_p", "R_is_the_swept_array_upper_triangular_with_zero_last_row"],
                 replay=replay_solves, timeout_s=60, max_paths=200, site_obligations=False)
    finally:
        smt.CVC5_FIRST_AFTER = staged
    # ---- matrix-level step lemma: columns of U rotated by M, rows of X rotated by M^H, M unitary:  U X and U^H U are unchanged; hence U R = H, U unitary
    with Ctx("C16.lemma.hessqr") as ctx:
        from .. import nc as ncm
        from ..nc import NC, Atom
        ncm.reset_atoms()
        (m,) = dims(ctx, "m")
        (n,) = dims(ctx, "ncol")
        Um = NC.atom(Atom("Uk", m, m, "orth", alg="H"))
        Em = NC.atom(Atom("Ek", m, m, "orth", alg="H"))          # diag(I_s, M, I) with M unitary (C16.ggivens.* and the block-diagonal lemma of C09)
        Xm = NC.atom(Atom("Xk", m, n, "gen", alg="H"))
        st, be, sc, det = ncm.nc_equal_obligation((Um @ Em) @ (Em.star @ Xm), Um @ Xm, ctx.hyps())
        rep.add(Obligation(f"{P}.lemma.hessqr.step_preserves_product", "spec", "all-shapes", st, be, sc, det, kind="lemma"))
        st, be, sc, det = ncm.nc_equal_obligation((Um @ Em).star @ (Um @ Em), NC.eye(m), ctx.hyps())
        rep.add(Obligation(f"{P}.lemma.hessqr.step_preserves_unitarity", "spec", "all-shapes", st, be, sc, det, kind="lemma"))
        Gm = NC.atom(Atom("Gn", m, m, "gen", alg="H"))
        st, _, _, _ = ncm.nc_equal_obligation((Um @ Gm) @ (Gm.star @ Xm), Um @ Xm, ctx.hyps())
        rep.canary("C16.canary.hessqr_step_with_non_unitary_rotation", st == smt.REFUTED)


def ssqrt_expr(vals):
    return None


def prove_algebra_then_smt(queries, timeout_s=60):
    from ..core import algebra_try
    out = [None] * len(queries)
    rest = []
    for i, (hyps, goal) in enumerate(queries):
        ok, secs = algebra_try(hyps, goal)
        if ok:
            out[i] = smt.Verdict(smt.PROVED, "sympy-ideal-reduction", secs)
        else:
            rest.append(i)
    for i, v in zip(rest, smt.prove_many([queries[i] for i in rest], timeout_s=timeout_s)):
        out[i] = v
    return out


def eps_model(lib):
    """np.finfo(float).eps / .tiny as one symbolic non-negative real 'eps' (the regularisation)."""
    class F:
        qv_value = True

        def __init__(self, t=None):
            e = SReal.var("eps")
            self.eps = e
            self.tiny = e
    lib.np.table["finfo"] = F


# ---------------------------------------------------------------------------------------------------
def _realp(M4):
    """Independent component-blocked embedding of a quaternion matrix (m,n,4) (left-regular representation)."""
    m, n = M4.shape[:2]
    L = np.zeros((4, m, 4, n))
    for a in range(4):
        for b in range(4):
            L[spec.IDX[a][b], :, b, :] += spec.SIGN[a][b] * M4[:, :, a]
    return L.reshape(4 * m, 4 * n)


def _check_givens(x1, x2):
    from .. import runtime as rt
    u = rt.real().utils
    G = u.ggivens(x1.copy(), x2.copy())
    if G.shape != (8, 8) or not np.allclose(G.T @ G, np.eye(8), atol=1e-12):
        return {"what": "ggivens result is not orthogonal", "G": G}
    t = np.sqrt(np.sum(x1 ** 2) + np.sum(x2 ** 2))
    v = np.array([x1[0], x2[0], x1[1], x2[1], x1[2], x2[2], x1[3], x2[3]])
    w = G.T @ v
    want = np.zeros(8)
    want[0] = t
    if t > 1e-15 and not np.allclose(w, want, rtol=0, atol=1e-10 * t):          # relative to the pair's own size: tiny pairs (above eps) are rotated exactly like large ones
        return {"what": "ggivens does not map the pair to (norm, 0)", "got": w, "want": want}
    M = np.zeros((2, 2, 4))
    for k in range(4):
        M[:, :, k] = G[2 * k:2 * k + 2, 0:2]
    if not np.allclose(G, _realp(M), atol=1e-13):
        return {"what": "ggivens result is not the embedding of a 2x2 quaternion matrix"}
    return None


def _check_grs(g):
    from .. import runtime as rt
    u = rt.real().utils
    G = u.GRSGivens(*[float(x) for x in g])
    if G.shape != (4, 4) or not np.allclose(G.T @ G, np.eye(4), atol=1e-12):
        return {"what": "GRSGivens not orthogonal"}
    w = G.T @ np.asarray(g, dtype=float)
    if not np.allclose(w[1:], 0, atol=1e-7 * max(1.0, np.linalg.norm(g))):
        return {"what": "GRSGivens does not rotate to a real number", "got": w}
    return None


def replay_givens(seed):
    rng = np.random.default_rng(seed)
    cases = [(rng.standard_normal(4), rng.standard_normal(4)), (rng.standard_normal(4) * 0.1, rng.standard_normal(4)), (np.zeros(4), rng.standard_normal(4)),
             (rng.standard_normal(4), np.zeros(4)), (np.array([1.0, 0, 0, 0]), np.array([0, 0, 1.0, 0])), (np.zeros(4), np.zeros(4)), (np.full(4, 1e-20), np.full(4, 1e-20))]
    for x1, x2 in cases:
        try:
            res = _check_givens(x1, x2) or _check_grs(x1)
        except Exception as e:
            res = {"exception": f"{type(e).__name__}: {e}"}
        if res:
            res.update({"failed": True, "x1": x1, "x2": x2})
            return res
    return {"failed": False}


def _tri(rng, n, lower, scale):
    T4 = rng.standard_normal((n, n, 4))
    for i in range(n):
        for j in range(n):
            if (lower and j > i) or (not lower and j < i):
                T4[i, j] = 0
        v = rng.standard_normal(4)
        T4[i, i] = v / np.linalg.norm(v) * scale * (0.5 + rng.random())
    return T4


def _check_solves(n, k, scale, rng):
    from .. import runtime as rt
    r = rt.real()
    u, s = r.utils, r.solver
    for lower, fn in ((True, s._solve_lower_triangular_quat), (False, s._solve_upper_triangular_quat)):
        T4 = _tri(rng, n, lower, scale)
        B4 = rng.standard_normal((n, k, 4)) * scale
        X = rt.q_to4(fn(rt.q_from4(T4), rt.q_from4(B4)))
        err = rt.fro(rt.qmm(T4, X) - B4) / max(rt.fro(T4) * rt.fro(X) + rt.fro(B4), 1e-300)      # normwise backward error
        if not err <= 1e-13 * n:
            return {"what": f"dense {'forward' if lower else 'backward'} substitution: backward error {err:.2e}", "n": n, "k": k, "scale": scale}
    T4 = _tri(rng, n, False, scale)
    B4 = rng.standard_normal((n, k, 4)) * scale
    comps = [B4[..., c].copy() for c in range(4)]
    out = u.UtriangleQsparse(*[T4[..., c].copy() for c in range(4)], *comps)
    X = np.stack([np.asarray(o) for o in out], axis=-1)
    err = rt.fro(rt.qmm(T4, X) - B4) / max(rt.fro(T4) * rt.fro(X) + rt.fro(B4), 1e-300)
    if not err <= 1e-13 * n:
        return {"what": f"UtriangleQsparse: backward error {err:.2e}", "n": n, "k": k, "scale": scale}
    return None


def replay_solves(seed):
    rng = np.random.default_rng(seed)
    for (n, k, scale) in ((1, 1, 1.0), (2, 2, 1.0), (3, 1, 1e-6), (3, 3, 1e3), (2, 4, 1e-3)):
        try:
            res = _check_solves(n, k, scale, rng)
        except Exception as e:
            res = {"exception": f"{type(e).__name__}: {e}", "n": n, "k": k}
        if res:
            res.update({"failed": True})
            return res
    return {"failed": False}


def _check_hessqr(H4):
    """H4: (k+1, k, 4) upper Hessenberg.  W R = H, W unitary, R upper triangular."""
    from .. import runtime as rt
    u = rt.real().utils
    m, n = H4.shape[:2]
    Hess = np.vstack([H4[..., c] for c in range(4)]).copy()
    W, R = u.Hess_QR_ggivens(Hess)
    W0, W1, W2, W3 = u.A2A0123(W)
    R0, R1, R2, R3 = u.A2A0123(R)
    Wq = np.stack([W0, W1, W2, W3], axis=-1)
    Rq = np.stack([R0, R1, R2, R3], axis=-1)
    sc = max(1.0, rt.fro(H4))
    if Wq.shape[:2] != (m, m) or Rq.shape[:2] != (m, n):
        return {"what": "shapes of W / R", "W": Wq.shape, "R": Rq.shape}
    if not (rt.fro(rt.qmm(rt.qH(Wq), Wq) - rt.eye4(m)) <= 1e-11):
        return {"what": "W is not unitary", "err": rt.fro(rt.qmm(rt.qH(Wq), Wq) - rt.eye4(m))}
    if not (rt.fro(rt.qmm(Wq, Rq) - H4) <= 1e-11 * sc):
        return {"what": "W R != H", "err": rt.fro(rt.qmm(Wq, Rq) - H4)}
    for i in range(m):
        for j in range(min(i, n)):
            if not (np.linalg.norm(Rq[i, j]) <= 1e-11 * sc):
                return {"what": "R is not upper triangular", "i": i, "j": j, "value": Rq[i, j]}
    return None


def bounded(rep: Report, tier, seed):
    from .. import runtime as rt
    rng = np.random.default_rng(seed)
    b = rep.add_bounded(Bounded("givens_pairs", "pairs of quaternions on both ordering branches, degenerate pairs (zero, tiny, one component zero), scales 1e-8..1e8",
                                "orthogonality, mapping to (norm, 0), embedding structure of ggivens; GRSGivens orthogonal and rotating to a real"))
    pairs = []
    for sc1, sc2 in itertools.product((1e-8, 1e-3, 1.0, 1e4), repeat=2):
        pairs.append((rng.standard_normal(4) * sc1, rng.standard_normal(4) * sc2))
    for sc in (1e-10, 1e-13, 3e-9):          # tiny pairs well above eps (the identity shortcut is for norms <= eps only)
        pairs.append((rng.standard_normal(4) * sc, rng.standard_normal(4) * sc))
        pairs.append((np.array([sc, 0, 0, 0]), np.array([0, 0, sc, 0])))
    pairs += [(np.zeros(4), rng.standard_normal(4)), (rng.standard_normal(4), np.zeros(4)), (np.zeros(4), np.zeros(4)), (np.full(4, 1e-18), np.full(4, -1e-18)),
              (np.array([1.0, 0, 0, 0]), np.array([0, 0, 0, 1.0])), (np.array([0, 2.0, 0, 0]), np.array([0, 2.0, 0, 0])), (np.array([3.0, 0, 0, 0]), np.array([4.0, 0, 0, 0]))]
    for i, (x1, x2) in enumerate(pairs):
        b.case(f"{P}.bounded.ggivens", ("pair", i), lambda x1=x1, x2=x2: _check_givens(x1, x2), "ggivens contract on a quaternion pair", inputs={"x1": x1, "x2": x2})
        b.case(f"{P}.bounded.GRSGivens", ("grs", i), lambda x1=x1: _check_grs(x1) if np.linalg.norm(x1) > 0 else None, "GRSGivens contract", inputs={"g": x1})
    b.samples.append({"x1": [1, 0, 0, 0], "x2": [0, 0, 0, 1], "branch": "|q1| >= |q2|"})
    b.done()
    kmax = 3 if tier == "quick" else 5
    b2 = rep.add_bounded(Bounded("triangular_solves", f"n <= {kmax}, 1..4 right-hand sides, diagonal moduli 1e-6..1e6", "T X = B to 1e-10 relative, forward / backward / component-form"))
    for n in range(1, kmax + 1):
        for k in (1, 2, 4) if tier == "quick" else (1, 2, 3, 4):
            for scale in (1e-6, 1e-3, 1.0, 1e3, 1e6):
                b2.case(f"{P}.bounded.solves", (n, k, scale), lambda n=n, k=k, scale=scale: _check_solves(n, k, scale, rng), f"triangular solves n={n} rhs={k} scale={scale}",
                        facts={"n": n, "rhs": k, "scale": scale})
    b2.samples.append({"n": 3, "rhs": 2, "scale": 1e-6})
    b2.done()
    b3 = rep.add_bounded(Bounded("hessenberg_qr", f"k <= {kmax + 1}; generic, zero sub-diagonals, zero columns, real positive sub-diagonal (Arnoldi form), scaled", "W unitary, R upper triangular, W R = H"))
    for k in range(1, kmax + 2):
        for pat in ("generic", "arnoldi", "zero_subdiag", "zero_column", "scaled", "imag_subdiag", "axis_subdiag", "real_everything"):
            H4 = rng.standard_normal((k + 1, k, 4))
            for i in range(k + 1):
                for j in range(k):
                    if not (i <= j + 1):
                        H4[i, j] = 0
            if pat == "arnoldi":
                for j in range(k):
                    H4[j + 1, j] = [abs(H4[j + 1, j, 0]) + 0.1, 0, 0, 0]
            if pat == "zero_subdiag" and k >= 1:
                H4[min(1, k), 0] = 0
            if pat == "zero_column":
                H4[:, k - 1] = 0
            if pat == "scaled":
                H4 *= 1e-5
            if pat == "imag_subdiag":          # sub-diagonal entries with exactly zero real part
                for j in range(k):
                    H4[j + 1, j, 0] = 0.0
            if pat == "axis_subdiag":          # each sub-diagonal entry on a single imaginary axis
                for j in range(k):
                    v = np.zeros(4)
                    v[1 + j % 3] = 1.5
                    H4[j + 1, j] = v
            if pat == "real_everything":
                H4[..., 1:] = 0.0
            b3.case(f"{P}.bounded.hess_qr", (k, pat), lambda H4=H4: _check_hessqr(H4), f"Hessenberg QR k={k} pattern {pat}", facts={"k": k, "pattern": pat}, inputs={"H": H4})
    b3.samples.append({"k": 3, "pattern": "zero_subdiag"})
    b3.done()


def run(tier, seed):
    rep = Report(P, tier, seed, "proof")
    rep.assumptions += [
        "A1 floats as reals: the Givens obligations are exact identities over the reals with sqrt as a non-negative root",
        "G^T G = I for the 8x8 matrix follows from M^H M = I by the component-blocked homomorphism lemma proved in C02 (Realp.matrix.hom / .star)",
        "exactness of the substitutions is stated for zero regularisation (eps = 0) resp. with the explicit 1e-30 factor; the size of the regularisation is a separate obligation",
        "Hess_QR_ggivens (row rotations by fancy indexing) is decided by the bounded stand-in only in this version",
    ]
    rep.trusted += ["qv engine", "z3 5.1 nlsat (parallel workers)", "library model"]
    import os
    if os.environ.get("QV_DEV_SKIP_DEDUCTIVE") != "1":     # development switch only: never set by a registered command
        deductive(rep, tier)
    bounded(rep, tier, seed)
    return rep


def replay(path):
    import json
    with open(path) as f:
        d = json.load(f)
    print(json.dumps({k: d[k] for k in ("property", "obligation", "text")}, indent=1))
    return run("quick", d.get("seed", 0)).finish()
