"""C20 - arguments outside an operation's domain are rejected loudly, never answered.

The guarantee is a table  entry point x argument class.  Every cell is decided twice:
  * deductively, for all shapes of the class: the real AST is executed with symbolic shapes / dtype tags
    up to the guard; obligation `raises` (every feasible path ends in a raise) and `before_write` (no write
    effect on an argument, on self or on a module global precedes it);
  * concretely (bounded stand-in, exhaustive over the table): the same cell on the real code with one
    representative, argument hashes and solver __dict__ compared before/after.
In-domain boundary arguments (1x1, 1xn, nx1) must reach no guard: decided on the real code.
Cells outside the property's table (routines with no documented dtype restriction on real arrays,
unknown Schur option strings, Hermitian defects inside np.allclose's rtol, PSF larger than the image,
R > min(m,n)) are deliberately not cells - see DESIGN.md."""
from __future__ import annotations

import copy
import math
import time
from fractions import Fraction

import numpy as np

from .. import idx as ix
from .. import smt
from ..core import Bounded, Obligation, Report, run_case
from ..kernels import ALGEBRA
from ..libmodel import Library
from ..sym import SInt, SReal, SBool, cur, sand, snot, sor
from ..values import Obj
from .c01 import dims

P = "C20"
U = "quatica/utils.py::"
S = "quatica/solver.py::"
D = "quatica/decomp/"
T = "quatica/tensor.py::"
L = "quatica/qslst.py::"


# ---------------------------------------------------------------------------------------------------
# symbolic argument classes
def nonsquare(ctx, quat=True, name="A"):
    m, n = dims(ctx, "m", "n")
    ctx.assume(m != n, base=True)
    return ix.input_array(name, [m, n], quat=quat)


def square(ctx, quat=True, name="A"):
    (n,) = dims(ctx, "n")
    return ix.input_array(name, [n, n], quat=quat)


def anyshape(ctx, quat=True, name="A", cplx=False):
    m, n = dims(ctx, "m", "n")
    return ix.input_array(name, [m, n], quat=quat, cplx=cplx)


def wide(ctx):
    m, n = dims(ctx, "m", "n")
    ctx.assume(m < n, base=True)
    return ix.input_array("A", [m, n], quat=True)


def tall(ctx):
    m, n = dims(ctx, "m", "n")
    ctx.assume(m > n, base=True)
    return ix.input_array("A", [m, n], quat=True)


def solver_obj(I, cls, **fields):
    o = Obj(I.module_env("quatica/solver.py")[cls])
    o.fields.update(fields)
    return o


def sym_cells():
    """(cell id, qualified function, setup(I, ctx) -> (args, kwargs), accepted exception types)."""
    V, TE, NI, AE = ("ValueError",), ("TypeError",), ("NotImplementedError",), ("AssertionError",)
    c = []
    for fn in ("induced_matrix_norm_1", "induced_matrix_norm_inf", "spectral_norm_2", "real_expand"):
        c.append((f"{fn}:real_dtype", U + fn, lambda I, ctx: ([anyshape(ctx, quat=False)], {}), V))
        c.append((f"{fn}:complex_dtype", U + fn, lambda I, ctx: ([anyshape(ctx, quat=False, cplx=True)], {}), V))
    for o in ("nuc", 3, -1, "2", "one", 0):
        c.append((f"matrix_norm:ord={o!r}", U + "matrix_norm", lambda I, ctx, o=o: ([anyshape(ctx), o], {}), V))
    c.append(("ishermitian:nonsquare", U + "ishermitian", lambda I, ctx: ([nonsquare(ctx)], {}), V))
    c.append(("det:nonsquare", U + "det", lambda I, ctx: ([nonsquare(ctx), "Dieudonne"], {}), V))
    c.append(("det:unknown_type", U + "det", lambda I, ctx: ([square(ctx), "foo"], {}), V))
    c.append(("det:study", U + "det", lambda I, ctx: ([square(ctx), "Study"], {}), NI))
    c.append(("power_iteration:nonsquare", U + "power_iteration", lambda I, ctx: ([nonsquare(ctx)], {}), V))
    c.append(("adjoint:nonsquare", U + "quaternion_to_complex_adjoint", lambda I, ctx: ([nonsquare(ctx)], {}), V))
    c.append(("adjoint:real_dtype", U + "quaternion_to_complex_adjoint", lambda I, ctx: ([square(ctx, quat=False)], {}), V))
    c.append(("adjoint:axis", U + "quaternion_to_complex_adjoint", lambda I, ctx: ([square(ctx), "y"], {}), NI))
    for fn in ("quat_null_space", "quat_kernel"):
        c.append((f"{fn}:side", U + fn, lambda I, ctx: ([anyshape(ctx)], {"side": "up"}), V))

    # option strings: EVERY string other than the documented values is rejected (an arbitrary-string value whose comparisons with the documented
    # literals are false; a guard that looks at the characters - substring, prefix, case folding - is out of reach and stays with the bounded table)
    from ..values import OtherStr
    for fn in ("quat_null_space", "quat_kernel"):
        c.append((f"{fn}:side=any_other_string", U + fn, lambda I, ctx: ([anyshape(ctx)], {"side": OtherStr(("left", "right"), "side")}), V))
    c.append(("det:type=any_other_string", U + "det", lambda I, ctx: ([square(ctx), OtherStr(("Dieudonn\u00e9", "Dieudonne", "Study", "Moore"), "d")], {}), V))
    c.append(("matrix_norm:ord=any_other_string", U + "matrix_norm", lambda I, ctx: ([anyshape(ctx), OtherStr(("fro", "F", "inf"), "ord")], {}), V))

    def real_contract_bad(I, ctx):
        m, n, r, cc = dims(ctx, "m", "n", "r", "c")
        ctx.assume(sor(r != 4 * m, cc != 4 * n), base=True)
        return [ix.input_array("R", [r, cc], quat=False), m, n], {}
    c.append(("real_contract:shape", U + "real_contract", real_contract_bad, V))
    # solvers
    c.append(("qgmres:nonsquare", S + "QGMRESSolver.solve",
              lambda I, ctx: ([solver_obj(I, "QGMRESSolver", tol=Fraction(1, 10**6), max_iter=None, verbose=False, preconditioner="none"),
                               nonsquare(ctx), ix.input_array("b", [SInt.var("m"), 1], quat=True)], {}), V))
    rsp = dict(block_size=4, max_iter=5, tol=Fraction(1, 10**6), test_sketch_size=2, verbose=False, seed=None, column_solver="qr")
    c.append(("rsp_column:wide", S + "RandomizedSketchProjectPseudoinverse.compute_column_variant",
              lambda I, ctx: ([solver_obj(I, "RandomizedSketchProjectPseudoinverse", **rsp), wide(ctx)], {}), V))
    c.append(("rsp_row:tall", S + "RandomizedSketchProjectPseudoinverse.compute_row_variant",
              lambda I, ctx: ([solver_obj(I, "RandomizedSketchProjectPseudoinverse", **rsp), tall(ctx)], {}), V))
    c.append(("hybrid:wide", S + "HybridRSPNewtonSchulz.compute",
              lambda I, ctx: ([solver_obj(I, "HybridRSPNewtonSchulz", r=2, p=2, T=1, tol=Fraction(1, 10**6), max_iter=5, verbose=False, seed=None, column_solver="qr"), wide(ctx)], {}), V))
    c.append(("cgne:wide", S + "CGNEQSolver.compute",
              lambda I, ctx: ([solver_obj(I, "CGNEQSolver", tol=Fraction(1, 10**6), max_iter=5, verbose=False, preconditioner_rank=0, seed=None), wide(ctx)], {}), V))

    def deeplin(I, ctx):
        n, d, l0 = dims(ctx, "n", "d", "l0")
        ctx.assume(l0 != d, base=True)
        o = solver_obj(I, "DeepLinearNewtonSchulz", gamma=Fraction(9, 10), max_iter=1, tol=Fraction(1, 10**6), verbose=False, compute_residuals=True,
                       inner_iterations=1, random_init=False, NSPSolver=None)
        return [o, ix.input_array("X", [n, d], quat=True), [l0, 3]], {}
    c.append(("deeplinear:layer_mismatch", S + "DeepLinearNewtonSchulz.compute", deeplin, V))
    # LU helpers
    for fn in ("quaternion_modulus", "quaternion_triu", "quaternion_tril", "quaternion_lu"):
        c.append((f"{fn}:real_dtype", D + "LU.py::" + fn, lambda I, ctx: ([anyshape(ctx, quat=False)], {}), V))
        c.append((f"{fn}:complex_dtype", D + "LU.py::" + fn, lambda I, ctx: ([anyshape(ctx, quat=False, cplx=True)], {}), V))
    # decompositions
    c.append(("eig:nonsquare", D + "eigen.py::quaternion_eigendecomposition", lambda I, ctx: ([nonsquare(ctx)], {}), V))
    c.append(("eigvals:nonsquare", D + "eigen.py::quaternion_eigenvalues", lambda I, ctx: ([nonsquare(ctx)], {}), V))
    c.append(("eigvecs:nonsquare", D + "eigen.py::quaternion_eigenvectors", lambda I, ctx: ([nonsquare(ctx)], {}), V))

    def nonherm(I, ctx, lo=1):
        (n,) = dims(ctx, "n")
        if lo > 1:
            ctx.assume(n >= lo, base=True)
        ctx.ghost["allclose_value"] = False        # class: not Hermitian by a margin
        return [ix.input_array("A", [n, n], quat=True)], {}
    c.append(("eig:nonhermitian", D + "eigen.py::quaternion_eigendecomposition", nonherm, V))
    c.append(("tridiag:nonhermitian", D + "tridiagonalize.py::tridiagonalize", lambda I, ctx: nonherm(I, ctx, 2), V))
    c.append(("tridiag:nonsquare", D + "tridiagonalize.py::tridiagonalize", lambda I, ctx: ([nonsquare(ctx)], {}), V))
    c.append(("tridiag:1x1", D + "tridiagonalize.py::tridiagonalize", lambda I, ctx: ([ix.input_array("A", [1, 1], quat=True)], {}), V))
    c.append(("hessenberg:nonsquare", D + "hessenberg.py::hessenbergize", lambda I, ctx: ([nonsquare(ctx)], {}), V))
    c.append(("hessenberg:order3", D + "hessenberg.py::hessenbergize", lambda I, ctx: ([ix.input_array("A", list(dims(ctx, "a", "b", "c")), quat=True)], {}), V))
    for fn in ("quaternion_schur", "quaternion_schur_pure", "quaternion_schur_pure_implicit", "quaternion_schur_unified", "quaternion_schur_experimental"):
        c.append((f"{fn}:nonsquare", D + "schur.py::" + fn, lambda I, ctx: ([nonsquare(ctx)], {}), V))
    # tensor
    c.append(("unfold:mode3", T + "tensor_unfold", lambda I, ctx: ([ix.input_array("T", list(dims(ctx, "I", "J", "K")), quat=True), 3], {}), V))
    c.append(("unfold:mode-1", T + "tensor_unfold", lambda I, ctx: ([ix.input_array("T", list(dims(ctx, "I", "J", "K")), quat=True), -1], {}), V))
    c.append(("unfold:order2", T + "tensor_unfold", lambda I, ctx: ([anyshape(ctx, name="T"), 0], {}), V))
    c.append(("unfold:real_dtype", T + "tensor_unfold", lambda I, ctx: ([ix.input_array("T", list(dims(ctx, "I", "J", "K"))), 0], {}), V))

    def fold_bad(I, ctx, mode):
        d = dims(ctx, "I", "J", "K")
        r, cc = dims(ctx, "r", "c")
        o = [a for a in range(3) if a != mode]
        if mode in (0, 1, 2):
            ctx.assume(sor(r != d[mode], cc != d[o[0]] * d[o[1]]), base=True)
        return [ix.input_array("M", [r, cc], quat=True), mode, tuple(d)], {}
    for mode in (0, 1, 2):
        c.append((f"fold:shape_mode{mode}", T + "tensor_fold", lambda I, ctx, mode=mode: fold_bad(I, ctx, mode), V))
    c.append(("fold:mode3", T + "tensor_fold", lambda I, ctx: fold_bad(I, ctx, 3), V))
    # qslst assertions
    c.append(("rgb_to_quat:2d", L + "rgb_to_quat", lambda I, ctx: ([anyshape(ctx, quat=False, name="rgb")], {}), AE))
    c.append(("rgb_to_quat:4_channels", L + "rgb_to_quat", lambda I, ctx: ([ix.input_array("rgb", list(dims(ctx, "H", "W")) + [4])], {}), AE))
    c.append(("quat_to_rgb:3_channels", L + "quat_to_rgb", lambda I, ctx: ([ix.input_array("q", list(dims(ctx, "H", "W")) + [3])], {}), AE))
    c.append(("blur:boundary", L + "apply_blur_fft",
              lambda I, ctx: ([ix.input_array("Q", list(dims(ctx, "H", "W")) + [4]), ix.input_array("psf", [1, 1])], {"boundary": "zero"}), AE))
    c.append(("restore_fft:boundary", L + "qslst_restore_fft",
              lambda I, ctx: ([ix.input_array("B", list(dims(ctx, "H", "W")) + [4]), ix.input_array("psf", [1, 1]), Fraction(1, 100)], {"boundary": "reflect"}), AE))

    def rm_size(I, ctx):
        H, W, N = dims(ctx, "H", "W", "N")
        ctx.assume(N != H * W, base=True)
        return [ix.input_array("B", [H, W, 4]), ix.input_array("A", [N, N]), Fraction(1, 10)], {}
    c.append(("restore_matrix:operator_size", L + "qslst_restore_matrix", rm_size, AE))
    return c


def _is_arg_effect(eff, arg_stores, arg_objs):
    if eff[0] == "write":
        return any(eff[1] is s for s in arg_stores)
    if eff[0] == "setattr":
        return any(eff[1] is o for o in arg_objs)
    return False


def deductive(rep: Report, tier):
    def np_allclose_model(a, b, rtol=None, atol=None, **kw):
        v = cur().ghost.get("allclose_value")
        if v is None:
            from ..sym import OutOfReach
            raise OutOfReach("np.allclose on symbolic data without a class assumption")
        return v
    for cid, qual, setup, types in sym_cells():
        lib = Library("idx")
        lib.np.table["allclose"] = np_allclose_model

        def setup2(I, ctx, setup=setup):
            args, kwargs = setup(I, ctx)
            stores = [a.store for a in args if isinstance(a, ix.IArr)]
            objs = [a for a in args if isinstance(a, Obj)]
            return args, kwargs, (stores, objs)

        def post(I, ctx, outcome, val, aux, types=types):
            stores, objs = aux
            if outcome != "raise":
                return [("raises", False), ("before_write", False)]
            clean = not any(_is_arg_effect(e, stores, objs) for e in ctx.effects)
            return [("raises", True), ("before_write", clean)]
        run_case(rep, P, qual, cid.split(":", 1)[1], setup2, post, lib=lib, contracts=ALGEBRA, clauses=["raises", "before_write"],
                 site_obligations=False, replay=replay_cell(cid))


# ---------------------------------------------------------------------------------------------------
def concrete_table(rt):
    """(cell id, thunk(args...) , args list, expect_raise).  Arguments are fresh per cell."""
    import quaternion
    r = rt.real()
    Uu, Ss, Tt, Ll = r.utils, r.solver, r.tensor, r.qslst
    LUm, E, TD, HB, SC, QS = r.LU, r.eigen, r.tridiagonalize, r.hessenberg, r.schur, r.qsvd
    from scipy import sparse

    def rq(*shape, seed=0):
        return quaternion.as_quat_array(np.random.default_rng(seed).standard_normal(shape + (4,)))

    def herm(n, seed=0):
        A = rq(n, n, seed=seed)
        return 0.5 * (A + Uu.quat_hermitian(A))
    realm = np.random.default_rng(0).standard_normal((3, 3))
    cplx = realm + 1j * realm

    def spm():
        m = sparse.csr_matrix(realm)
        return Uu.SparseQuaternionMatrix(m, m.copy(), m.copy(), m.copy(), (3, 3))
    cells = []

    def cell(cid, fn, args, reject=True, obj=None):
        cells.append((cid, fn, args, reject, obj))
    for f in (Uu.induced_matrix_norm_1, Uu.induced_matrix_norm_inf, Uu.spectral_norm_2):
        cell(f"{f.__name__}:real_dtype", f, [realm.copy()])
        cell(f"{f.__name__}:complex_dtype", f, [cplx.copy()])
        cell(f"{f.__name__}:sparse", f, [spm()])
        for shp in ((1, 1), (1, 3), (3, 1)):
            cell(f"{f.__name__}:indomain{shp}", f, [rq(*shp)], False)
    for o in ("nuc", 3, -1, "2", "one", 0):
        cell(f"matrix_norm:ord={o!r}", Uu.matrix_norm, [rq(3, 3), o])
    for o in (None, "fro", "F", 1, 2, np.inf, "inf"):
        cell(f"matrix_norm:accepts ord={o!r}", Uu.matrix_norm, [rq(2, 3), o], False)
    cell("real_expand:real_dtype", Uu.real_expand, [realm.copy()])
    cell("real_expand:complex_dtype", Uu.real_expand, [cplx.copy()])
    cell("real_expand:sparse", Uu.real_expand, [spm()])
    cell("real_contract:shape", Uu.real_contract, [np.zeros((8, 8)), 2, 3])
    cell("real_contract:indomain", Uu.real_contract, [np.zeros((8, 12)), 2, 3], False)
    cell("ishermitian:nonsquare", Uu.ishermitian, [rq(2, 3)])
    cell("ishermitian:indomain(1, 1)", Uu.ishermitian, [rq(1, 1)], False)
    cell("det:nonsquare", Uu.det, [rq(2, 3), "Dieudonne"])
    cell("det:unknown_type", Uu.det, [rq(3, 3), "foo"])
    cell("det:moore_nonhermitian", Uu.det, [rq(3, 3, seed=1), "Moore"])
    cell("det:study", Uu.det, [rq(3, 3), "Study"])
    cell("det:moore_hermitian_indomain", Uu.det, [herm(3), "Moore"], False)
    cell("det:dieudonne_indomain(1, 1)", Uu.det, [rq(1, 1), "Dieudonné"], False)
    for shp in ((1, 1), (1, 3), (3, 1)):
        cell(f"rank:indomain{shp}", Uu.rank, [rq(*shp)], False)
        cell(f"quat_null_space:indomain{shp}", Uu.quat_null_space, [rq(*shp)], False)
    cell("power_iteration:nonsquare", Uu.power_iteration, [rq(2, 3)])
    cell("power_iteration:empty", Uu.power_iteration, [rq(0, 0)])
    cell("power_iteration:indomain(1, 1)", Uu.power_iteration, [rq(1, 1)], False)
    cell("adjoint:nonsquare", Uu.quaternion_to_complex_adjoint, [rq(2, 3)])
    cell("adjoint:real_dtype", Uu.quaternion_to_complex_adjoint, [realm.copy()])
    cell("adjoint:axis", Uu.quaternion_to_complex_adjoint, [rq(3, 3), "y"])
    cell("adjoint:order3", Uu.quaternion_to_complex_adjoint, [rq(2, 2, 2)])
    cell("power_iteration_nonhermitian:nonsquare", Uu.power_iteration_nonhermitian, [rq(2, 3)])
    cell("power_iteration_nonhermitian:real_dtype", Uu.power_iteration_nonhermitian, [realm.copy()])
    # enumerated options: several representatives per class (bogus word, empty, prefix, case variant, concatenation, wrong type)
    for bad in ("up", "", "r", "l", "Right", "LEFT", " right", "righ", "rightleft", "right,left", None, 0):
        cell(f"quat_null_space:side/{bad!r}", lambda A, bad=bad: Uu.quat_null_space(A, side=bad), [rq(3, 3)])
        cell(f"quat_kernel:side/{bad!r}", lambda A, bad=bad: Uu.quat_kernel(A, side=bad), [rq(3, 3)])
    for bad in ("", "moore", "MOORE", "Dieudonne ", "Die", "MooreStudy", None, 1):
        cell(f"det:unknown_type/{bad!r}", Uu.det, [rq(3, 3), bad])
    for bad in ("", "f", "FRO", "fro ", "Inf", "froF", "12", True + 1.5, "2", 1.5):
        cell(f"matrix_norm:ord/{bad!r}", Uu.matrix_norm, [rq(3, 3), bad])
    # solvers
    for prec in ("none", "left_lu"):
        s = Ss.QGMRESSolver(preconditioner=None if prec == "none" else prec)
        cell(f"qgmres:nonsquare[{prec}]", s.solve, [rq(2, 3), rq(2, 1)], True, s)
        s = Ss.QGMRESSolver(preconditioner=None if prec == "none" else prec)
        cell(f"qgmres:tall[{prec}]", s.solve, [rq(3, 2), rq(3, 1)], True, s)
    s = Ss.QGMRESSolver()
    cell("qgmres:rhs_mismatch", s.solve, [rq(3, 3), rq(2, 1)], True, s)
    s = Ss.QGMRESSolver()
    cell("qgmres:indomain(1, 1)", s.solve, [rq(1, 1), rq(1, 1, seed=3)], False, s)
    s = Ss.RandomizedSketchProjectPseudoinverse(seed=0, max_iter=5)
    cell("rsp_column:wide", s.compute_column_variant, [rq(2, 3)], True, s)
    s = Ss.RandomizedSketchProjectPseudoinverse(seed=0, max_iter=5)
    cell("rsp_row:tall", s.compute_row_variant, [rq(3, 2)], True, s)
    s = Ss.HybridRSPNewtonSchulz(seed=0, max_iter=5)
    cell("hybrid:wide", s.compute, [rq(2, 3)], True, s)
    s = Ss.CGNEQSolver(max_iter=5)
    cell("cgne:wide", s.compute, [rq(2, 3)], True, s)
    s = Ss.DeepLinearNewtonSchulz(max_iter=1)
    cell("deeplinear:layer_mismatch", s.compute, [rq(4, 3), [2, 3]], True, s)
    for shp in ((1, 1), (3, 1)):
        s = Ss.CGNEQSolver(max_iter=5)
        cell(f"cgne:indomain{shp}", s.compute, [rq(*shp)], False, s)
    s = Ss.RandomizedSketchProjectPseudoinverse(seed=0, max_iter=5)
    cell("rsp:indomain(1, 3)", s.compute, [rq(1, 3)], False, s)
    # boundary of every orientation guard: square input is inside the domain of the column AND of the row variant, of the hybrid and
    # of CGNE; so are 1 x 1 and the extreme aspect ratios on the allowed side
    for shp in ((1, 1), (2, 2), (3, 3), (3, 1), (4, 2)):
        s = Ss.RandomizedSketchProjectPseudoinverse(seed=0, max_iter=3)
        cell(f"rsp_column:indomain{shp}", s.compute_column_variant, [rq(*shp)], False, s)
        s = Ss.HybridRSPNewtonSchulz(seed=0, max_iter=3, r=1)
        cell(f"hybrid:indomain{shp}", s.compute, [rq(*shp)], False, s)
        s = Ss.CGNEQSolver(max_iter=3)
        cell(f"cgne:indomain{shp}", s.compute, [rq(*shp)], False, s)
    for shp in ((1, 1), (2, 2), (3, 3), (1, 3), (2, 4)):
        s = Ss.RandomizedSketchProjectPseudoinverse(seed=0, max_iter=3)
        cell(f"rsp_row:indomain{shp}", s.compute_row_variant, [rq(*shp)], False, s)
        s = Ss.RandomizedSketchProjectPseudoinverse(seed=0, max_iter=3)
        cell(f"rsp:indomain{shp}", s.compute, [rq(*shp)], False, s)
    for shp in ((1, 1), (1, 3), (3, 1)):
        s = Ss.NewtonSchulzPseudoinverse(max_iter=3)
        cell(f"ns:indomain{shp}", s.compute, [rq(*shp)], False, s)
    # LU
    for f in (LUm.quaternion_modulus, LUm.quaternion_triu, LUm.quaternion_tril, LUm.quaternion_lu):
        cell(f"{f.__name__}:real_dtype", f, [realm.copy()])
        cell(f"{f.__name__}:complex_dtype", f, [cplx.copy()])
        cell(f"{f.__name__}:sparse", f, [spm()])
    cell("quaternion_lu:zero_pivot", LUm.quaternion_lu, [quaternion.as_quat_array(np.zeros((3, 3, 4)))])
    for shp in ((1, 1), (1, 3), (3, 1)):
        cell(f"quaternion_lu:indomain{shp}", LUm.quaternion_lu, [rq(*shp)], False)
    # decompositions
    cell("eig:nonsquare", E.quaternion_eigendecomposition, [rq(2, 3)])
    cell("eig:nonhermitian", E.quaternion_eigendecomposition, [rq(3, 3, seed=1)])
    cell("eigvals:nonhermitian", E.quaternion_eigenvalues, [rq(3, 3, seed=1)])
    cell("eigvecs:nonhermitian", E.quaternion_eigenvectors, [rq(3, 3, seed=1)])
    H3 = herm(3)
    H3m = H3.copy()
    H3m[0, 1] = H3m[0, 1] + quaternion.quaternion(1e-3 * abs(H3m[0, 1]), 0, 0, 0)    # non-Hermitian by a 1e-3 relative margin
    cell("eig:nonhermitian_margin", E.quaternion_eigendecomposition, [H3m.copy()])
    cell("tridiag:nonhermitian_margin", TD.tridiagonalize, [H3m.copy()])
    cell("eig:indomain(1, 1)", E.quaternion_eigendecomposition, [herm(1)], False)
    for nm, f in (("eig", E.quaternion_eigendecomposition), ("eigvals", E.quaternion_eigenvalues), ("eigvecs", E.quaternion_eigenvectors)):
        cell(f"{nm}:nonhermitian/1x1", f, [quaternion.as_quat_array(np.array([[[1.0, 2.0, 3.0, 4.0]]]))])
        cell(f"{nm}:nonhermitian/2x2", f, [rq(2, 2, seed=4)])
        Hoff = herm(4)
        Hoff[3, 0] = Hoff[3, 0] + quaternion.quaternion(0, 0.5, 0, 0)      # defect in the last row only
        cell(f"{nm}:nonhermitian/corner", f, [Hoff])
    cell("det:moore_nonhermitian/1x1", Uu.det, [quaternion.as_quat_array(np.array([[[1.0, 0.0, 2.0, 0.0]]])), "Moore"])
    for mode in (3, -1, 1.5, "0", None):
        cell(f"unfold:mode/{mode!r}", Tt.tensor_unfold, [rq(2, 12).reshape(2, 3, 4), mode])
        cell(f"fold:mode/{mode!r}", Tt.tensor_fold, [rq(2, 12), mode, (2, 3, 4)])
    for bnd in ("zero", "", "Periodic", "periodic ", "reflect", None):
        cell(f"blur:boundary/{bnd!r}", lambda Q_, p, bnd=bnd: Ll.apply_blur_fft(Q_, p, boundary=bnd), [np.zeros((4, 5, 4)), np.ones((3, 3)) / 9])
        cell(f"restore_fft:boundary/{bnd!r}", lambda B, p, bnd=bnd: Ll.qslst_restore_fft(B, p, 1e-3, boundary=bnd), [np.zeros((4, 5, 4)), np.ones((3, 3)) / 9])
    cell("tridiag:nonsquare", TD.tridiagonalize, [rq(2, 3)])
    cell("tridiag:1x1", TD.tridiagonalize, [herm(1)])
    cell("tridiag:nonhermitian", TD.tridiagonalize, [rq(3, 3, seed=1)])
    cell("tridiag:indomain(2, 2)", TD.tridiagonalize, [herm(2)], False)
    cell("hessenberg:nonsquare", HB.hessenbergize, [rq(2, 3)])
    cell("hessenberg:order3", HB.hessenbergize, [rq(2, 2, 2)])
    cell("hessenberg:indomain(1, 1)", HB.hessenbergize, [rq(1, 1)], False)
    for f in (SC.quaternion_schur, SC.quaternion_schur_pure, SC.quaternion_schur_pure_implicit, SC.quaternion_schur_unified, SC.quaternion_schur_experimental):
        cell(f"{f.__name__}:nonsquare", f, [rq(2, 3)])
        cell(f"{f.__name__}:indomain(1, 1)", f, [rq(1, 1)], False)
    # tensor
    cell("unfold:mode3", Tt.tensor_unfold, [rq(2, 3, 4), 3])
    cell("unfold:mode-1", Tt.tensor_unfold, [rq(2, 3, 4), -1])
    cell("unfold:order2", Tt.tensor_unfold, [rq(3, 3), 0])
    cell("unfold:real_dtype", Tt.tensor_unfold, [np.zeros((2, 3, 4)), 0])
    cell("fold:mode3", Tt.tensor_fold, [rq(2, 12), 3, (2, 3, 4)])
    cell("fold:shape_mode1", Tt.tensor_fold, [rq(2, 12), 1, (2, 3, 4)])
    cell("fold:indomain", Tt.tensor_fold, [rq(3, 8), 1, (2, 3, 4)], False)
    for shp in ((1, 1, 1), (1, 3, 1)):
        for mo in (0, 1, 2):
            cell(f"unfold:indomain{shp},{mo}", Tt.tensor_unfold, [rq(*shp), mo], False)
    # qslst
    psf = np.ones((3, 3)) / 9
    cell("rgb_to_quat:2d", Ll.rgb_to_quat, [np.zeros((4, 5))])
    cell("rgb_to_quat:4_channels", Ll.rgb_to_quat, [np.zeros((4, 5, 4))])
    cell("quat_to_rgb:3_channels", Ll.quat_to_rgb, [np.zeros((4, 5, 3))])
    cell("blur:boundary", lambda Q_, p: Ll.apply_blur_fft(Q_, p, boundary="zero"), [np.zeros((4, 5, 4)), psf.copy()])
    cell("restore_fft:boundary", lambda B, p: Ll.qslst_restore_fft(B, p, 1e-3, boundary="reflect"), [np.zeros((4, 5, 4)), psf.copy()])
    cell("restore_matrix:operator_size", Ll.qslst_restore_matrix, [np.zeros((4, 5, 4)), np.eye(19), 1e-3])
    cell("blur:indomain(1, 1)", Ll.apply_blur_fft, [np.zeros((1, 1, 4)), np.ones((1, 1))], False)
    # orientation variants: every 'nonsquare' class is represented by a wide AND a tall matrix
    extra = []
    for cid, fn, args, reject, obj in cells:
        if reject and ":nonsquare" in cid and "qgmres" not in cid and args and getattr(args[0], "shape", None) == (2, 3):
            for tag, shp in (("tall", (3, 2)), ("2x1", (2, 1)), ("1x2", (1, 2)), ("4x1", (4, 1))):
                extra.append((f"{cid}/{tag}", fn, [rq(*shp, seed=7)] + list(args[1:]), True, obj))
    return cells + extra


def _run_cell(rt, fn, args, reject, obj):
    before = [rt.ahash(a) for a in args]
    state = rt.state_snapshot(obj) if obj is not None else None
    raised = None
    import contextlib
    import io
    try:
        with contextlib.redirect_stdout(io.StringIO()):
            out = fn(*args)
    except BaseException as e:
        raised = e
    after = [rt.ahash(a) for a in args]
    if reject:
        if raised is None:
            return {"what": "out-of-domain argument was answered instead of rejected", "returned": type(out).__name__}
        if before != after:
            return {"what": "argument modified before the rejection"}
        if obj is not None and state != rt.state_snapshot(obj):
            return {"what": "solver state modified before the rejection", "before": repr(state), "after": repr(rt.state_snapshot(obj))}
    elif raised is not None:
        return {"what": f"in-domain argument rejected: {type(raised).__name__}: {raised}"}
    return None


def replay_cell(cid):
    """Replay of a deductive cell: the concrete cells of the same entry point and argument class
    (all orientation variants) on the real code."""
    def rp(seed):
        from .. import runtime as rt
        key = cid.split("[")[0]
        for c2, fn, args, reject, obj in concrete_table(rt):
            base = c2.split("[")[0]
            if base == key or base.startswith(key + "/"):
                res = _run_cell(rt, fn, args, reject, obj)
                if res:
                    res.update({"failed": True, "cell": c2, "arg_shapes": [getattr(a, "shape", None) for a in args]})
                    return res
        return {"failed": False, "cell": cid}
    return rp


def bounded(rep: Report, tier, seed):
    from .. import runtime as rt
    cells = concrete_table(rt)
    b = rep.add_bounded(Bounded("guard_table", f"{len(cells)} cells (entry point x argument class), one representative each",
                                "reject cells must raise and leave arguments / solver state byte-identical; in-domain boundary cells must not raise; exhaustive over the table"))

    def run_cell(fn, args, reject, obj):
        return lambda: _run_cell(rt, fn, args, reject, obj)

    def run_cell_old(fn, args, reject, obj):
        def f():
            before = [rt.ahash(a) for a in args]
            state = rt.state_snapshot(obj) if obj is not None else None
            raised = None
            try:
                out = fn(*args)
            except BaseException as e:
                raised = e
            after = [rt.ahash(a) for a in args]
            if reject:
                if raised is None:
                    return {"what": "out-of-domain argument was answered instead of rejected", "returned": type(out).__name__}
                if before != after:
                    return {"what": "argument modified before the rejection"}
                if obj is not None and state != rt.state_snapshot(obj):
                    return {"what": "solver state modified before the rejection", "before": repr(state), "after": repr(rt.state_snapshot(obj))}
            elif raised is not None:
                return {"what": f"in-domain argument rejected: {type(raised).__name__}: {raised}"}
            return None
        return f
    for cid, fn, args, reject, obj in cells:
        b.case(f"{P}.bounded.{cid}", (cid,), run_cell(fn, args, reject, obj), f"guard table cell {cid}", facts={"cell": cid})
    b.exhaustive = True
    b.samples.append({"cell": "qgmres:nonsquare[left_lu]", "args": "A 2x3, b 2x1", "expect": "raise before any write"})
    b.done()


def run(tier, seed):
    rep = Report(P, tier, seed, "proof")
    rep.assumptions += [
        "dtype / storage classes are symbolic tags of the array model (quaternion, real, complex; dense / sparse); 'non-Hermitian by a margin' is modelled as np.allclose(A, A^H) = False",
        "in-domain boundary cells and cells whose guard lies behind code outside the engine's reach (sparse arguments, comprehension over a symbolic range in the LU-preconditioned solve, zero pivot) are decided only by the concrete table",
        "any exception type counts as a rejection in the concrete table; the deductive cells additionally pin the documented type",
    ]
    rep.trusted += ["qv engine", "z3 5.1", "library model"]
    deductive(rep, tier)
    bounded(rep, tier, seed)
    return rep


def replay(path):
    import json
    with open(path) as f:
        d = json.load(f)
    print(json.dumps({k: d[k] for k in ("property", "obligation", "text")}, indent=1))
    return run("quick", d.get("seed", 0)).finish()
