"""C13 - sketch-and-project, hybrid and CGNE solvers never flag a wrong inverse converged.

Deductive part (abstract quaternion algebra over symbolic shapes, budgets, tolerances, block sizes; kernels and the
sketch generator by contract; every loop under an inductive invariant):
  rsp.column.{qr,spd}   history/flag truthfulness: converged <=> the history is non-empty and its last entry is <= tol;
                        that last entry is the proxy residual ||Pi - X A Pi||_F/||Pi||_F of the RETURNED X (also when
                        updates failed and the sketch was redrawn); iterations == len(history) == len(times);
                        QR path: X stays in  H^{n x n} A^H  (every word ends in A^H) and each update is the projection
                        X' (A Omega) = Omega  (thin QR and triangular solve by contract);  orientation guard.
  rsp.row               same truthfulness clauses for the row variant with proxy ||Theta - A X Theta||/max(||Theta||,1e-30);
                        X stays in  A^H H^{m x m};  orientation guard;  compute() dispatches by shape.
  hybrid                nested loops: the history's last entry is the post-hyperpower proxy of the returned X; flag
                        truthfulness; QR path keeps X in the row space; hyperpower step  I - X'A = (I - XA)^p  for
                        p = 1..8 (each p a separate all-shapes obligation);  orientation guard.
  cgne                  invariants  R = I - X A  (so the history entries are the true residuals of the iterates and the
                        flag is truthful),  <Z, D> = <Z, Z>  (exact line search),  X and D in the row space;  the new
                        residual is never larger than the previous one (rank-0 preconditioner);  with a preconditioner
                        (apply by contract) the truthfulness invariant alone;  orientation guard.
That a small PROXY residual implies a small TRUE residual is a probabilistic statement about the Gaussian test
sketch: it, the Moore-Penrose accuracy and CGNE convergence within budget are decided by the bounded stand-in."""
from __future__ import annotations

import itertools
from fractions import Fraction

import numpy as np
import z3

from .. import nc as ncm
from .. import smt
from ..core import Bounded, Obligation, Report, run_case
from ..interp import LoopRule
from ..kernels import ALGEBRA
from ..libmodel import Library
from ..nc import NC, Atom
from ..sym import Ctx, OutOfReach, Raised, SBool, SInt, SReal, cur, sand, smax, smin, snot, sor, ssqrt
from ..values import HMat, Obj, Opaque, SymList, fresh_hmat
from .c01 import dims
from .c03 import mk_self

P = "C13"
S = "quatica/solver.py::"
QS = "quatica/decomp/qsvd.py::"
RSP = S + "RandomizedSketchProjectPseudoinverse."
HYB = S + "HybridRSPNewtonSchulz."
CG = S + "CGNEQSolver."


# ----------------------------------------------------------------------------------------------------
# library pieces: Gaussian draws (np.random.randn x4 -> np.stack -> as_quat_array) become fresh abstract matrices
class RandArr:
    qv_value = True
    ndim = 2

    def __init__(self, shape):
        self.shape = tuple(shape)

    def _np_stack(self, args, axis=0):
        parts = list(args[0])
        if axis != -1 or len(parts) != 4 or not all(isinstance(p, RandArr) for p in parts):
            raise OutOfReach("np.stack of random draws in an unexpected form")
        for p in parts[1:]:
            ncm.dims_equal(parts[0].shape[0], p.shape[0], "conformable.stack")
            ncm.dims_equal(parts[0].shape[1], p.shape[1], "conformable.stack")
        return RandStack(parts[0].shape)


class RandStack:
    qv_value = True

    def __init__(self, shape):
        self.shape = tuple(shape) + (4,)

    def _q_as_quat_array(self, args):
        return new_sketch(self.shape[0], self.shape[1])


def new_sketch(rows, cols):
    g = cur().ghost
    i = g["nsk"] = g.get("nsk", 0) + 1
    h = fresh_hmat(f"G{i}", rows, cols)
    cur().assume(ncm.fro2(h.p) > 0)      # a Gaussian matrix with at least one entry is non-zero almost surely (assumption)
    g.setdefault("sketches", []).append(h)
    return h


def mklib():
    lib = Library("nc")
    lib.qmode = "H"
    lib.np.table["random"].table["randn"] = lambda *shape: RandArr(shape)
    lib.np.table["random"].table["seed"] = lambda *a: None
    return lib


def k_sketch(I, args, kwargs):
    _, rows, cols = args
    return new_sketch(rows, cols)


def may_fail(tag):
    """Nondeterministic failure of a micro-solver (taken by the except branches of the callers)."""
    c = cur()
    b = SBool(z3.Bool(c.fresh_name(f"fails.{tag}")))
    if I_truth(b):
        raise Raised("LinAlgError", f"{tag} failed")


def I_truth(b):
    return cur().decide(b)


def single_word(p: NC):
    if len(p.t) != 1:
        return None
    (w, c), = p.t.items()
    return w if (isinstance(c, Fraction) and c == 1) else None


def k_qr(I, args, kwargs):
    """Thin QR of a tall full-column-rank Y = A Omega:  Y = U R,  U^H U = I,  R upper triangular and invertible
    (contract of qr_qua: C06).  Encoded as  U := Y R^-1  with the definitional rewrite  Y^H Y -> R^H R."""
    (Y,) = args
    may_fail("qr")
    w = single_word(Y.p)
    if w is None:
        raise OutOfReach("QR of a sum in the abstract domain")
    c = cur()
    i = c.ghost["nqr"] = c.ghost.get("nqr", 0) + 1
    r = Y.shape[1]
    Ri = Atom(f"Rinv{i}", r, r, "gen", alg="H")
    R = Atom(f"R{i}", r, r, "gen", inv_of=Ri.name, alg="H")
    star = tuple((n, not s) for n, s in reversed(w))
    ncm.add_rewrite(star + tuple(w), ((R.name, True), (R.name, False)))
    c.ghost.setdefault("qr", []).append((Y, R))
    return HMat(Y.p @ NC.atom(Ri)), HMat(NC.atom(R))


def k_upper_solve(I, args, kwargs):
    R, B = args
    w = single_word(R.p)
    a = ncm.ATOMS.get(w[0][0]) if w and len(w) == 1 and not w[0][1] else None
    if a is None or a.inv_of is None:
        raise OutOfReach("triangular solve with a matrix that is not a QR factor")
    ncm.dims_equal(R.shape[0], B.shape[0], "conformable.solve")
    return HMat(NC.atom(ncm.ATOMS[a.inv_of]) @ B.p)


def k_spd(I, args, kwargs):
    """CG micro-solver: (some r x m matrix, ok).  Nothing is assumed about the solution beyond its shape."""
    _, G, B = args[:3]
    c = cur()
    i = c.ghost["nspd"] = c.ghost.get("nspd", 0) + 1
    ok = SBool(z3.Bool(c.fresh_name("spd.ok")))
    return fresh_hmat(f"W{i}", B.shape[0], B.shape[1]), I_truth(ok)


def k_inv_small(I, args, kwargs):
    _, G = args[:2]
    c = cur()
    i = c.ghost["ninv"] = c.ghost.get("ninv", 0) + 1
    return fresh_hmat(f"Ginv{i}", G.shape[0], G.shape[1])


BASE = dict(ALGEBRA)
BASE.update({RSP + "_generate_random_sketch": k_sketch, QS + "qr_qua": k_qr, S + "_solve_upper_triangular_quat": k_upper_solve,
             RSP + "_solve_spd_quat": k_spd, RSP + "_invert_quat_small": k_inv_small})


def ends_with(p: NC, name, starred=True):
    return all(w and w[-1] == (name, starred) for w in p.t)


def starts_with(p: NC, name, starred=True):
    return all(w and w[0] == (name, starred) for w in p.t)


def req(a, b):
    return SBool.mk(SReal.lift(a) == SReal.lift(b))


def rle(a, b):
    return SBool.mk(SReal.lift(a) <= SReal.lift(b))


def fnorm(p):
    return ssqrt(ncm.fro2(p))


def hist_len_last(lst):
    if isinstance(lst, list):
        return len(lst), (lst[-1] if lst else None)
    if isinstance(lst, SymList):
        n = lst.length()
        if lst.items:
            return n, lst.items[-1]
        return n, (lst.entry(n - 1) if lst.entry is not None else None)
    return None, None


class HistRule(LoopRule):
    """Invariant shared by the randomized solvers:
         X is in the stated row/column space (optional),
         the history has L entries for some 0 <= L (<= k for the counted loops), the timings list has the same length,
         and L > 0 implies history[L-1] == proxy(X)."""

    def __init__(self, xname, lists, proxy, space=None, extra=(), counted=True, tag=""):
        self.xname, self.lists, self.proxy, self.space, self.counted = xname, tuple(lists), proxy, space, counted
        self.extra = tuple(extra)
        self.modifies = (xname,) + self.lists + self.extra
        self.tag = tag

    def in_space(self, X):
        if self.space is None:
            return True
        side, name = self.space
        return isinstance(X, HMat) and (ends_with(X.p, name) if side == "right" else starts_with(X.p, name))

    def establish(self, it, fr, start):
        c = cur()
        X = fr.vars.get(self.xname)
        c.require("inv.establish", self.in_space(X), "the initial X is in the row/column space of A^H", key=f"{self.tag}inv.establish.space")
        for nme in self.lists:
            v = fr.vars.get(nme)
            c.require("inv.establish", isinstance(v, list) and not v, f"{nme} is empty at loop entry", key=f"{self.tag}inv.establish.{nme}")
        c.ghost["X_entry"] = X

    def generic_X(self, fr):
        A = fr.vars["A"]
        m, n = A.shape
        if self.space is None:
            return fresh_hmat("Xk", n, m)
        side, name = self.space
        if side == "right":
            return HMat(fresh_hmat("Ck", n, n).p @ A.p.star)
        return HMat(A.p.star @ fresh_hmat("Ck", m, m).p)

    def havoc(self, it, fr, k):
        c = cur()
        X = self.generic_X(fr)
        fr.vars[self.xname] = X
        L = SInt.var(c.fresh_name("L"))
        c.assume(L >= 0)
        if self.counted:
            c.assume(L <= k)
        px = self.proxy(fr, X)
        res = z3.Function(c.fresh_name("RES"), z3.IntSort(), z3.RealSort())
        entry = lambda j: SReal(z3.If(SInt.lift(j) == SInt.lift(L - 1), SReal.lift(px), res(SInt.lift(j))))
        fr.vars[self.lists[0]] = SymList(L, self.lists[0], entry=entry)
        for nme in self.lists[1:]:
            fr.vars[nme] = SymList(L, nme, entry=lambda j: Opaque("time"))
        for nme in self.extra:
            v = SInt.var(c.fresh_name(nme))
            c.assume(v >= 0)
            fr.vars[nme] = v
        c.ghost.update({"Xk": X, "L": L})

    def preserve(self, it, fr, k):
        c = cur()
        X = fr.vars.get(self.xname)
        c.require("inv.preserve", self.in_space(X), "the updated X is in the row/column space of A^H", key=f"{self.tag}inv.preserve.space")
        lens = []
        for nme in self.lists:
            n, _ = hist_len_last(fr.vars.get(nme))
            lens.append(n)
        c.require("inv.preserve", all(x is not None for x in lens) and sand(*[SBool.mk(SInt.lift(x) == SInt.lift(lens[0])) for x in lens[1:]]) if len(lens) > 1 else lens[0] is not None,
                  "history and timing lists keep the same length", key=f"{self.tag}inv.preserve.lengths")
        n, last = hist_len_last(fr.vars.get(self.lists[0]))
        if n is not None:
            if self.counted:
                c.require("inv.preserve", SBool.mk(SInt.lift(n) <= SInt.lift(k + 1)), "at most one entry per iteration", key=f"{self.tag}inv.preserve.count")
            nonempty = c.decide(SBool.mk(SInt.lift(n) > 0)) if not isinstance(n, int) else n > 0
            if nonempty:
                ok = isinstance(X, HMat) and last is not None and not isinstance(last, Opaque)
                c.require("inv.preserve", ok and req(last, self.proxy(fr, X)),
                          "the last history entry is the proxy residual of the current X", key=f"{self.tag}inv.preserve.last_is_proxy")


def truth_clauses(ctx, X, info, proxy_val, tol, hist_key="residual_norms", iter_key="iterations", times=True):
    out = []
    ok = isinstance(info, dict) and hist_key in info and "converged" in info
    out.append(("info_record", ok))
    if not ok:
        return out
    n, last = hist_len_last(info[hist_key])
    conv = info["converged"]
    if n is None:
        return out + [("history_is_a_list", False)]
    nonempty = SBool.mk(SInt.lift(n) > 0)
    ne = ctx.valid(nonempty)
    if ne is True:
        out.append(("flag_iff_last_entry_below_tol", (conv == rle(last, tol)) if isinstance(conv, SBool) else
                    (rle(last, tol) if conv is True else snot(rle(last, tol)))))
        out.append(("last_entry_is_proxy_of_returned_X", req(last, proxy_val)))
    elif ne is False:
        out.append(("flag_iff_last_entry_below_tol", conv is False))
        out.append(("last_entry_is_proxy_of_returned_X", True))
    else:
        out.append(("flag_iff_last_entry_below_tol", False))
    if iter_key:
        out.append(("iterations_is_history_length", SBool.mk(SInt.lift(info[iter_key]) == SInt.lift(n))))
    return out


def raises_value_error(I, ctx, outcome, val, aux):
    return [("raises_ValueError", outcome == "raise" and val.exc_type == "ValueError")]


# ----------------------------------------------------------------------------------------------------
def deductive(rep: Report, tier):
    lib = mklib()

    # ---------------- RSP column variant
    def col_proxy(fr, X):
        Pi = fr.vars["Pi"]
        A = fr.vars["A"]
        return fnorm(Pi.p - X.p @ A.p @ Pi.p) / fnorm(Pi.p)

    for solver in ("qr", "spd"):
        def setup(I, ctx, solver=solver):
            m, n = dims(ctx, "m", "n")
            ctx.assume(m >= n, base=True)
            K, tol, bs, ts = SInt.var("max_iter"), SReal.var("tol"), SInt.var("block_size"), SInt.var("test_sketch_size")
            ctx.assume(sand(K >= 0, tol >= 0, ts >= 1), base=True)
            A = fresh_hmat("A", m, n)
            slf = mk_self(I, "RandomizedSketchProjectPseudoinverse", block_size=bs, max_iter=K, tol=tol, test_sketch_size=ts, verbose=False, seed=None, column_solver=solver)
            return [slf, A], {}, dict(A=A, m=m, n=n, tol=tol)

        def post(I, ctx, outcome, val, aux, solver=solver):
            if outcome == "raise":
                return [("no_exception", False)]
            if outcome == "loop_end":
                return []
            X, info = val
            A = aux["A"]
            Pi = ctx.ghost["sketches"][0]
            out = [("no_exception", True), ("returns_matrix", isinstance(X, HMat))]
            if isinstance(X, HMat):
                out += truth_clauses(ctx, X, info, fnorm(Pi.p - X.p @ A.p @ Pi.p) / fnorm(Pi.p), aux["tol"])
                if solver == "qr":
                    out.append(("returned_X_in_row_space_of_AH", ends_with(X.p, "A")))
            return out
        cl = ["no_exception", "returns_matrix", "info_record", "flag_iff_last_entry_below_tol", "last_entry_is_proxy_of_returned_X", "iterations_is_history_length"]
        if solver == "qr":
            cl.append("returned_X_in_row_space_of_AH")

        class ColRule(HistRule):
            def preserve(self, it, fr, k, solver=solver):
                HistRule.preserve(self, it, fr, k)
                if solver == "qr":
                    c = cur()
                    X, Xk = fr.vars["X"], c.ghost["Xk"]
                    Y, Om = fr.vars.get("Y_k"), fr.vars.get("Omega_k")
                    if isinstance(X, HMat) and X is not Xk and isinstance(Y, HMat) and isinstance(Om, HMat):
                        st, be, secs, wit = ncm.nc_equal_obligation(X.p @ Y.p, Om.p, c.hyps())
                        c.require("inv.preserve", st == smt.PROVED, f"projection X'(A Omega) = Omega: {wit}", key="step.projection_onto_sketched_constraint")

        run_case(rep, P, RSP + "compute_column_variant", solver, setup, post, lib=lib, contracts=BASE,
                 loop_rules={(RSP + "compute_column_variant", 0): ColRule("X", ["residual_norms", "iteration_times"], col_proxy, space=("right", "A") if solver == "qr" else None)},
                 clauses=cl, replay=replay_rsp, timeout_s=30, max_paths=600)

    def setup_wide(I, ctx):
        m, n = dims(ctx, "m", "n")
        ctx.assume(m < n, base=True)
        slf = mk_self(I, "RandomizedSketchProjectPseudoinverse", block_size=4, max_iter=10, tol=Fraction(1, 1000), test_sketch_size=8, verbose=False, seed=None, column_solver="qr")
        return [slf, fresh_hmat("A", m, n)], {}, None
    run_case(rep, P, RSP + "compute_column_variant", "guard_tall", setup_wide, raises_value_error, lib=lib, contracts=BASE, clauses=["raises_ValueError"])

    # ---------------- RSP row variant
    def row_proxy(fr, X):
        Th, A = fr.vars["Theta"], fr.vars["A"]
        return fnorm(Th.p - A.p @ X.p @ Th.p) / smax(fnorm(Th.p), Fraction(1, 10 ** 30))

    def setup_row(I, ctx):
        m, n = dims(ctx, "m", "n")
        ctx.assume(m <= n, base=True)
        K, tol, bs, ts = SInt.var("max_iter"), SReal.var("tol"), SInt.var("block_size"), SInt.var("test_sketch_size")
        ctx.assume(sand(K >= 0, tol >= 0, ts >= 1), base=True)
        A = fresh_hmat("A", m, n)
        slf = mk_self(I, "RandomizedSketchProjectPseudoinverse", block_size=bs, max_iter=K, tol=tol, test_sketch_size=ts, verbose=False, seed=None, column_solver="qr")
        return [slf, A], {}, dict(A=A, m=m, n=n, tol=tol)

    def post_row(I, ctx, outcome, val, aux):
        if outcome == "raise":
            return [("no_exception", False)]
        if outcome == "loop_end":
            return []
        X, info = val
        A = aux["A"]
        Th = ctx.ghost["sketches"][0]
        out = [("no_exception", True), ("returns_matrix", isinstance(X, HMat))]
        if isinstance(X, HMat):
            out += truth_clauses(ctx, X, info, fnorm(Th.p - A.p @ X.p @ Th.p) / smax(fnorm(Th.p), Fraction(1, 10 ** 30)), aux["tol"])
            out.append(("returned_X_in_column_space_of_AH", starts_with(X.p, "A") or not X.p.t))
        return out
    run_case(rep, P, RSP + "compute_row_variant", "row", setup_row, post_row, lib=lib, contracts=BASE,
             loop_rules={(RSP + "compute_row_variant", 0): HistRule("X", ["residual_norms", "iteration_times"], row_proxy, space=("left", "A"))},
             clauses=["no_exception", "returns_matrix", "info_record", "flag_iff_last_entry_below_tol", "last_entry_is_proxy_of_returned_X", "iterations_is_history_length", "returned_X_in_column_space_of_AH"],
             replay=replay_rsp, timeout_s=30)

    def setup_tall(I, ctx):
        m, n = dims(ctx, "m", "n")
        ctx.assume(m > n, base=True)
        slf = mk_self(I, "RandomizedSketchProjectPseudoinverse", block_size=4, max_iter=10, tol=Fraction(1, 1000), test_sketch_size=8, verbose=False, seed=None, column_solver="qr")
        return [slf, fresh_hmat("A", m, n)], {}, None
    run_case(rep, P, RSP + "compute_row_variant", "guard_wide", setup_tall, raises_value_error, lib=lib, contracts=BASE, clauses=["raises_ValueError"])

    # dispatcher
    def k_mark(tag):
        def k(I, args, kwargs):
            cur().ghost["dispatched"] = (tag, args[1])
            return (tag, args[1])
        return k

    def setup_disp(I, ctx):
        m, n = dims(ctx, "m", "n")
        A = fresh_hmat("A", m, n)
        slf = mk_self(I, "RandomizedSketchProjectPseudoinverse", block_size=4, max_iter=10, tol=Fraction(1, 1000), test_sketch_size=8, verbose=False, seed=None, column_solver="qr")
        return [slf, A], {}, dict(A=A, m=m, n=n)

    def post_disp(I, ctx, outcome, val, aux):
        ok = outcome == "return" and isinstance(val, tuple) and val[1] is aux["A"]
        if not ok:
            return [("dispatch_by_shape", False)]
        want_col = ctx.valid(aux["m"] >= aux["n"])
        return [("dispatch_by_shape", (val[0] == "column") == (want_col is True) and want_col is not None)]
    cd = dict(BASE)
    cd.update({RSP + "compute_column_variant": k_mark("column"), RSP + "compute_row_variant": k_mark("row")})
    run_case(rep, P, RSP + "compute", "dispatch", setup_disp, post_disp, lib=lib, contracts=cd, clauses=["dispatch_by_shape"])

    # ---------------- hybrid: hyperpower step for p = 1..8
    for p in range(1, 9):
        def setup_hp(I, ctx, p=p):
            m, n = dims(ctx, "m", "n")
            A, X = fresh_hmat("A", m, n), fresh_hmat("X", n, m)
            slf = mk_self(I, "HybridRSPNewtonSchulz", r=4, p=p, T=5, tol=Fraction(1, 1000), max_iter=10, verbose=False, seed=None, column_solver="qr")
            return [slf, A, X], {}, dict(A=A, X=X, n=n)

        def post_hp(I, ctx, outcome, val, aux, p=p):
            if outcome != "return" or not isinstance(val, HMat):
                return [("residual_is_pth_power", False), ("row_space_kept", False)]
            A, X, n = aux["A"].p, aux["X"].p, aux["n"]
            F = NC.eye(n) - X @ A
            Fp = NC.eye(n)
            for _ in range(p):
                Fp = Fp @ F
            return [("residual_is_pth_power", NC.eye(n) - val.p @ A, Fp), ("row_space_kept", ends_with(val.p, "X", False))]
        run_case(rep, P, HYB + "_ns_hyperpower_right", f"p={p}", setup_hp, post_hp, lib=lib, contracts=BASE, clauses=["residual_is_pth_power", "row_space_kept"], replay=replay_hybrid)

    # ---------------- hybrid: one RSP step (QR path): projection and row space
    def setup_step(I, ctx):
        m, n = dims(ctx, "m", "n")
        ctx.assume(m >= n, base=True)
        r = SInt.var("r")
        ctx.assume(sand(r >= 1, r <= n), base=True)
        A = fresh_hmat("A", m, n)
        X = HMat(fresh_hmat("C", n, n).p @ A.p.star)
        slf = mk_self(I, "HybridRSPNewtonSchulz", r=r, p=4, T=5, tol=Fraction(1, 1000), max_iter=10, verbose=False, seed=None, column_solver="qr")
        return [slf, A, X], {}, dict(A=A, X=X)

    def post_step(I, ctx, outcome, val, aux):
        if outcome != "return" or not isinstance(val, HMat):
            return [("returns_matrix", False)]
        out = [("returns_matrix", True), ("row_space_kept", ends_with(val.p, "A"))]
        if val is aux["X"]:
            out.append(("projection_or_unchanged", True))
        else:
            Om = ctx.ghost["sketches"][0]
            out.append(("projection_or_unchanged", val.p @ aux["A"].p @ Om.p, Om.p))
        return out
    run_case(rep, P, HYB + "_rsp_step_column", "qr_step", setup_step, post_step, lib=lib, contracts=BASE, clauses=["returns_matrix", "row_space_kept", "projection_or_unchanged"], replay=replay_hybrid)

    # ---------------- hybrid: compute (nested loops)
    def hyb_proxy(fr, X):
        Pi, A = fr.vars["Pi"], fr.vars["A"]
        return fnorm(Pi.p - X.p @ A.p @ Pi.p) / smax(fnorm(Pi.p), Fraction(1, 10 ** 30))

    def k_step(I, args, kwargs):
        _, A, X = args
        n, m = X.shape
        i = cur().ghost["nstep"] = cur().ghost.get("nstep", 0) + 1
        return HMat(fresh_hmat(f"Cs{i}", n, n).p @ A.p.star)

    def k_hp(I, args, kwargs):
        _, A, X = args
        n, m = X.shape
        i = cur().ghost["nhp"] = cur().ghost.get("nhp", 0) + 1
        return HMat(fresh_hmat(f"Sh{i}", n, n).p @ X.p)

    class InnerRule(LoopRule):
        """for _ in range(T): nothing is claimed across the T randomized steps except that X stays in the row space,
        iter_rsp stays a non-negative integer and the history stays a list (its last entry is re-established by the
        hyperpower step that always follows)."""
        modifies = ("X", "iter_rsp", "residuals")

        def establish(self, it, fr, start):
            X = fr.vars.get("X")
            cur().require("inv.establish", isinstance(X, HMat) and ends_with(X.p, "A"), "X in the row space at inner-loop entry", key="inner.inv.establish.space")

        def havoc(self, it, fr, k):
            c = cur()
            A = fr.vars["A"]
            m, n = A.shape
            fr.vars["X"] = HMat(fresh_hmat(c.fresh_name("Ci"), n, n).p @ A.p.star)
            v = SInt.var(c.fresh_name("iter_rsp"))
            c.assume(v >= 0)
            fr.vars["iter_rsp"] = v
            L = SInt.var(c.fresh_name("Li"))
            c.assume(L >= 0)
            res = z3.Function(c.fresh_name("RESi"), z3.IntSort(), z3.RealSort())
            fr.vars["residuals"] = SymList(L, "residuals", entry=lambda j: SReal(res(SInt.lift(j))))

        def preserve(self, it, fr, k):
            X = fr.vars.get("X")
            c = cur()
            c.require("inv.preserve", isinstance(X, HMat) and ends_with(X.p, "A"), "X in the row space after a randomized step", key="inner.inv.preserve.space")
            v = fr.vars.get("iter_rsp")
            c.require("inv.preserve", SBool.mk(SInt.lift(v) >= 0), "iter_rsp stays non-negative", key="inner.inv.preserve.counter")
            c.require("inv.preserve", isinstance(fr.vars.get("residuals"), SymList), "history stays a list", key="inner.inv.preserve.list")

    def setup_hyb(I, ctx):
        m, n = dims(ctx, "m", "n")
        ctx.assume(m >= n, base=True)
        K, tol, r, T = SInt.var("max_iter"), SReal.var("tol"), SInt.var("r"), SInt.var("T")
        ctx.assume(sand(tol >= 0, r >= 1, T >= 0), base=True)
        A = fresh_hmat("A", m, n)
        slf = mk_self(I, "HybridRSPNewtonSchulz", r=r, p=4, T=T, tol=tol, max_iter=K, verbose=False, seed=None, column_solver="qr")
        return [slf, A], {}, dict(A=A, tol=tol)

    def post_hyb(I, ctx, outcome, val, aux):
        if outcome == "raise":
            return [("no_exception", False)]
        if outcome == "loop_end":
            return []
        X, info = val
        A = aux["A"]
        Pi = ctx.ghost["sketches"][0]
        out = [("no_exception", True), ("returns_matrix", isinstance(X, HMat))]
        if isinstance(X, HMat):
            out += truth_clauses(ctx, X, info, fnorm(Pi.p - X.p @ A.p @ Pi.p) / smax(fnorm(Pi.p), Fraction(1, 10 ** 30)), aux["tol"], iter_key=None)
            out.append(("returned_X_in_row_space_of_AH", ends_with(X.p, "A")))
        return out
    ch = dict(BASE)
    ch.update({HYB + "_rsp_step_column": k_step, HYB + "_ns_hyperpower_right": k_hp})
    run_case(rep, P, HYB + "compute", "compute", setup_hyb, post_hyb, lib=lib, contracts=ch,
             loop_rules={(HYB + "compute", 0): HistRule("X", ["residuals"], hyb_proxy, space=("right", "A"), extra=("iter_rsp",), counted=False, tag="outer."),
                         (HYB + "compute", 1): InnerRule()},
             clauses=["no_exception", "returns_matrix", "info_record", "flag_iff_last_entry_below_tol", "last_entry_is_proxy_of_returned_X", "returned_X_in_row_space_of_AH"],
             replay=replay_hybrid, timeout_s=30)

    def setup_hw(I, ctx):
        m, n = dims(ctx, "m", "n")
        ctx.assume(m < n, base=True)
        slf = mk_self(I, "HybridRSPNewtonSchulz", r=4, p=4, T=5, tol=Fraction(1, 1000), max_iter=10, verbose=False, seed=None, column_solver="qr")
        return [slf, fresh_hmat("A", m, n)], {}, None
    run_case(rep, P, HYB + "compute", "guard_tall", setup_hw, raises_value_error, lib=lib, contracts=ch, clauses=["raises_ValueError"])

    # ---------------- Newton-Schulz fallback: every iteration squares the residual  I - A X' = (I - A X)^2
    class TraceRule(LoopRule):
        skip_body = True
        modifies = ("tr",)

        def havoc(self, it, fr, k):
            fr.vars["tr"] = SReal.var(cur().fresh_name("trace"))

    class NsRule(LoopRule):
        modifies = ("X",)

        def havoc(self, it, fr, k):
            A = fr.vars["A"]
            Xk = fresh_hmat("Xk", A.shape[0], A.shape[0])
            fr.vars["X"] = Xk
            cur().ghost["Xk"] = Xk

        def preserve(self, it, fr, k):
            c = cur()
            A, X, Xk = fr.vars["A"].p, fr.vars["X"].p, c.ghost["Xk"].p
            r = fr.vars["A"].shape[0]
            E = NC.eye(r) - A @ Xk
            st, be, secs, wit = ncm.nc_equal_obligation(NC.eye(r) - A @ X, E @ E, c.hyps())
            c.require("inv.preserve", st == smt.PROVED, f"I - A X' = (I - A X)^2: {wit}", key="ns.step.residual_is_squared")

    def setup_inv(I, ctx):
        (r,) = dims(ctx, "r")
        K = SInt.var("ns_iters")
        ctx.assume(K >= 0, base=True)
        A = fresh_hmat("A", r, r)
        slf = mk_self(I, "RandomizedSketchProjectPseudoinverse", block_size=4, max_iter=10, tol=Fraction(1, 1000), test_sketch_size=8, verbose=False, seed=None, column_solver="spd")
        return [slf, A], dict(ns_iters=K), dict(A=A, r=r)

    def post_inv(I, ctx, outcome, val, aux):
        if outcome == "loop_end":
            return []
        return [("returns_square_matrix", outcome == "return" and isinstance(val, HMat) and ctx.valid(sand(val.shape[0] == aux["r"], val.shape[1] == aux["r"])) is True)]
    run_case(rep, P, RSP + "_invert_quat_small", "step", setup_inv, post_inv, lib=lib, contracts=dict(ALGEBRA),
             loop_rules={(RSP + "_invert_quat_small", 0): TraceRule(), (RSP + "_invert_quat_small", 1): NsRule()},
             clauses=["returns_square_matrix"], replay=replay_rsp, timeout_s=30)

    # ---------------- CG micro-solver: its success flag is truthful, column by column
    cg_micro_solver(rep, lib)

    # ---------------- CGNE
    for prec in (False, True):
        class CgRule(LoopRule):
            modifies = ("X", "R", "D", "Z", "Zp", "residual_norms", "times")

            def establish(self, it, fr, start, prec=prec):
                c = cur()
                X, R, D, Zp, A = (fr.vars.get(k) for k in ("X", "R", "D", "Zp", "A"))
                n = A.shape[1]
                ok = all(isinstance(v, HMat) for v in (X, R, D, Zp))
                c.require("inv.establish", ok, "state matrices", key="cg.inv.establish.state")
                if not ok:
                    return
                st, be, secs, wit = ncm.nc_equal_obligation(R.p, NC.eye(n) - X.p @ A.p, c.hyps())
                c.require("inv.establish", st == smt.PROVED, f"R = I - X A at entry {wit}", key="cg.inv.establish.R_is_true_residual")
                c.require("inv.establish", ends_with(X.p, "A"), "X0 in the row space of A^H", key="cg.inv.establish.space")
                for nme in ("residual_norms", "times"):
                    v = fr.vars.get(nme)
                    c.require("inv.establish", isinstance(v, list) and not v, f"{nme} empty at entry", key=f"cg.inv.establish.{nme}")
                if not prec:
                    st, be, secs, wit = ncm.nc_equal_obligation(D.p, Zp.p, c.hyps())
                    c.require("inv.establish", st == smt.PROVED, "D0 = Z0 (so <Z,D> = <Z,Z>)", key="cg.inv.establish.line_search")
                    c.require("inv.establish", ends_with(D.p, "A"), "D0 in the row space of A^H", key="cg.inv.establish.D_space")

            def havoc(self, it, fr, k, prec=prec):
                c = cur()
                A = fr.vars["A"]
                m, n = A.shape
                X = HMat(fresh_hmat("Ck", n, n).p @ A.p.star)
                R = HMat(NC.eye(n) - X.p @ A.p)
                Z = HMat(R.p @ A.p.star)
                if prec:
                    Zp = fresh_hmat("Zpk", n, m)
                    D = fresh_hmat("Dk", n, m)
                else:
                    Zp = Z
                    D = HMat(fresh_hmat("Ek", n, n).p @ A.p.star)
                    c.assume(ncm.trace(D.p.star @ Z.p) == ncm.fro2(Z.p))
                fr.vars.update({"X": X, "R": R, "Z": Z, "Zp": Zp, "D": D})
                Inorm = fr.vars["Inorm"]
                res = z3.Function(c.fresh_name("RES"), z3.IntSort(), z3.RealSort())
                last = fnorm(R.p) / Inorm
                entry = lambda j: SReal(z3.If(SInt.lift(j) == SInt.lift(k - 1), SReal.lift(last), res(SInt.lift(j))))
                fr.vars["residual_norms"] = SymList(k, "residual_norms", entry=entry)
                fr.vars["times"] = SymList(k, "times", entry=lambda j: Opaque("time"))
                c.ghost.update({"Rk": R, "Xk": X, "k": k})

            def preserve(self, it, fr, k, prec=prec):
                c = cur()
                X, R, D, Z, Zp, A = (fr.vars.get(x) for x in ("X", "R", "D", "Z", "Zp", "A"))
                n = A.shape[1]
                st, be, secs, wit = ncm.nc_equal_obligation(R.p, NC.eye(n) - X.p @ A.p, c.hyps())
                c.require("inv.preserve", st == smt.PROVED, f"R = I - X A after the update {wit}", key="cg.inv.preserve.R_is_true_residual")
                c.require("inv.preserve", ends_with(X.p, "A") if not prec else True, "X stays in the row space", key="cg.inv.preserve.space")
                st, be, secs, wit = ncm.nc_equal_obligation(Z.p, R.p @ A.p.star, c.hyps())
                c.require("inv.preserve", st == smt.PROVED, "Z = R A^H", key="cg.inv.preserve.Z")
                rn, tm = fr.vars.get("residual_norms"), fr.vars.get("times")
                one = isinstance(rn, SymList) and len(rn.items) == 1 and isinstance(tm, SymList) and len(tm.items) == 1
                c.require("inv.preserve", one, "exactly one history entry per completed iteration", key="cg.inv.preserve.one_append")
                if one:
                    c.require("inv.preserve", req(rn.items[0], fnorm(R.p) / fr.vars["Inorm"]), "the new entry is ||R||/||I|| of the new iterate", key="cg.inv.preserve.entry_is_residual")
                if not prec:
                    c.require("inv.preserve", ends_with(D.p, "A"), "D stays in the row space", key="cg.inv.preserve.D_space")
                    c.require("inv.preserve", ncm.trace(D.p.star @ Z.p) == ncm.fro2(Z.p), "<Z,D> = <Z,Z> for the next exact line search", key="cg.inv.preserve.line_search", timeout_s=60)

        def setup_cg(I, ctx, prec=prec):
            m, n = dims(ctx, "m", "n")
            ctx.assume(m >= n, base=True)
            K, tol = SInt.var("max_iter"), SReal.var("tol")
            ctx.assume(sand(K >= 0, tol >= 0), base=True)
            A = fresh_hmat("A", m, n)
            slf = mk_self(I, "CGNEQSolver", tol=tol, max_iter=K, verbose=False, preconditioner_rank=(3 if prec else 0), seed=None)
            return [slf, A], {}, dict(A=A, tol=tol, n=n)

        def post_cg(I, ctx, outcome, val, aux, prec=prec):
            if outcome == "raise":
                return [("no_exception", False)]
            g = ctx.ghost
            A, n = aux["A"], aux["n"]
            if outcome == "loop_end":
                return []
            X, info = val
            out = [("no_exception", True), ("returns_matrix", isinstance(X, HMat))]
            if not isinstance(X, HMat):
                return out
            true_res = fnorm(NC.eye(n) - X.p @ A.p) / ssqrt(SReal(z3.ToReal(SInt.lift(n))))
            out += truth_clauses(ctx, X, info, true_res, aux["tol"])
            conv = info.get("converged")
            if conv is True or (isinstance(conv, SBool)):
                out.append(("converged_implies_true_residual_below_tol", (true_res <= aux["tol"]) if conv is True else sor(snot(conv), true_res <= aux["tol"])))
            else:
                out.append(("converged_implies_true_residual_below_tol", True))
            if not prec:
                out.append(("returned_X_in_row_space_of_AH", ends_with(X.p, "A")))
                # monotonicity: on a path that appended an entry for the new iterate, it is <= the entry of the previous iterate
                rn = info["residual_norms"]
                if isinstance(rn, SymList) and rn.items and g.get("phase") == "generic":
                    prev = fnorm(g["Rk"].p)
                    Inorm = ssqrt(SReal(z3.ToReal(SInt.lift(n))))
                    out.append(("residuals_never_increase", rle(rn.items[-1] * Inorm, prev)))
                else:
                    out.append(("residuals_never_increase", True))
            return out
        cc = dict(BASE)
        if prec:
            def k_build(I, args, kwargs):
                return Opaque("preconditioner")

            def k_apply(I, args, kwargs):
                _, Z, pr = args
                if pr is None:
                    return Z
                i = cur().ghost["nap"] = cur().ghost.get("nap", 0) + 1
                return fresh_hmat(f"ZM{i}", Z.shape[0], Z.shape[1])
            cc.update({CG + "_build_right_preconditioner": k_build, CG + "_apply_right_prec": k_apply})
        cl = ["no_exception", "returns_matrix", "info_record", "flag_iff_last_entry_below_tol", "last_entry_is_proxy_of_returned_X", "iterations_is_history_length", "converged_implies_true_residual_below_tol"]
        if not prec:
            cl += ["returned_X_in_row_space_of_AH", "residuals_never_increase"]
        run_case(rep, P, CG + "compute", "preconditioned" if prec else "plain", setup_cg, post_cg, lib=lib, contracts=cc,
                 loop_rules={(CG + "compute", 0): CgRule()}, clauses=cl, replay=replay_cgne, timeout_s=60, loop_end=True)

    def setup_cw(I, ctx):
        m, n = dims(ctx, "m", "n")
        ctx.assume(m < n, base=True)
        slf = mk_self(I, "CGNEQSolver", tol=Fraction(1, 1000), max_iter=10, verbose=False, preconditioner_rank=0, seed=None)
        return [slf, fresh_hmat("A", m, n)], {}, None
    run_case(rep, P, CG + "compute", "guard_tall", setup_cw, raises_value_error, lib=lib, contracts=BASE, clauses=["raises_ValueError"])

    # canary: a history entry that belongs to the previous iterate is not accepted by the truthfulness clause
    a, b, t = z3.Reals("a b t")
    rep.canary("C13.canary.stale_entry", smt.prove([a >= 0, b >= 0, t >= 0, a <= t], b <= t, 5).status == smt.REFUTED)


class ColMat:
    """r x m quaternion matrix that is only ever written column by column (X[:, j] = x): the columns are kept as ghosts."""
    qv_value = True
    ndim = 2

    def __init__(self, r, m):
        self.shape = (r, m)
        self.cols = []          # (j, HMat) in write order

    def setitem(self, idx, val):
        ok = isinstance(idx, tuple) and len(idx) == 2 and isinstance(idx[0], slice) and idx[0] == slice(None) and isinstance(val, HMat)
        if not ok:
            raise OutOfReach("write into the solution matrix other than X[:, j] = x")
        self.cols.append((idx[1], val))


def cg_micro_solver(rep: Report, lib0):
    """_solve_spd_quat (unpreconditioned CG on G X = B, one column at a time) for all sizes, budgets and tolerances:
       inner loop   rvec == b - Gs x  and  rsold == ||rvec||^2   (Gs the symmetrised G; free algebra, alpha / beta symbolic)
       outer loop   witness column j*:  once column j* has been processed,  ok  =>  GOOD(j*),
                    GOOD(j) :<=>  ||B[:, j] - Gs X[:, j]|| <= max(tol, max(1e-6, 10 tol)) * max(1e-16, ||B[:, j]||)  for the x written to X[:, j]
       hence ok = True at return means every column is solved to that relative residual; ok never turns True again."""
    from ..values import HMat as _H
    S_ = RSP + "_solve_spd_quat"
    lib = mklib()
    old_zeros = lib.np.table["zeros"]

    def np_zeros(shape, dtype=None):
        if isinstance(shape, tuple) and len(shape) == 2:
            return ColMat(shape[0], shape[1])
        if not isinstance(shape, tuple):
            z = _H(NC.zero(shape, 1))
            z.one_dim = True
            return z
        return old_zeros(shape, dtype)
    lib.np.table["zeros"] = np_zeros

    def k_inner(I, args, kwargs):
        u, v = args
        if ncm.nc_syntactically_equal(u.p, v.p):
            return ncm.fro2(u.p)
        return ncm.trace(u.p.star @ v.p)

    GOOD = z3.Function("GOODcol", z3.IntSort(), z3.BoolSort())

    def thr(tol):
        return smax(tol, smax(Fraction(1, 10 ** 6), tol * 10))

    class Inner(LoopRule):
        modifies = ("x", "rvec", "p", "rsold", "ok")

        def establish(self, it, fr, start):
            c = cur()
            G, b, x, rv = fr.vars["G"], fr.vars["b"], fr.vars["x"], fr.vars["rvec"]
            st = ncm.nc_equal_obligation(rv.p, b.p - G.p @ x.p, c.hyps())[0]
            c.require("inv.establish", st == smt.PROVED, "rvec = b - G x at entry (x = 0)", key="cgm.inner.inv.establish.residual")
            c.require("inv.establish", req(fr.vars["rsold"], ncm.fro2(rv.p)), "rsold = ||rvec||^2 at entry", key="cgm.inner.inv.establish.rsold")

        def havoc(self, it, fr, k):
            c = cur()
            G, b = fr.vars["G"], fr.vars["b"]
            r = b.shape[0]
            tag = c.fresh_name("cg")
            xk = fresh_hmat(f"x@{tag}", r, 1)
            fr.vars["x"] = xk
            fr.vars["rvec"] = _H(b.p - G.p @ xk.p)
            fr.vars["p"] = fresh_hmat(f"p@{tag}", r, 1)
            fr.vars["rsold"] = ncm.fro2(fr.vars["rvec"].p)

        def preserve(self, it, fr, k):
            c = cur()
            G, b, x, rv = fr.vars["G"], fr.vars["b"], fr.vars["x"], fr.vars["rvec"]
            st, be, secs, wit = ncm.nc_equal_obligation(rv.p, b.p - G.p @ x.p, c.hyps())
            c.require("inv.preserve", st == smt.PROVED, f"rvec = b - G x after the update {wit}", key="cgm.inner.inv.preserve.residual")
            c.require("inv.preserve", req(fr.vars["rsold"], ncm.fro2(rv.p)), "rsold = ||rvec||^2 after the update", key="cgm.inner.inv.preserve.rsold")

    class Cols(LoopRule):
        modifies = ("X", "ok")

        def fact(self, fr, j):
            jw = cur().ghost["jw"]
            ok = fr.vars["ok"]
            okz = ok if isinstance(ok, SBool) else bool(ok)
            return sor(snot(jw < j), snot(okz), SBool(GOOD(SInt.lift(jw))))

        def establish(self, it, fr, start):
            cur().require("inv.establish", self.fact(fr, start), "no column processed yet", key="cgm.cols.inv.establish")

        def havoc(self, it, fr, j):
            c = cur()
            okv = SBool(z3.Bool(c.fresh_name("ok")))
            fr.vars["ok"] = okv
            c.assume(self.fact(fr, j))
            c.ghost["ok_head"] = okv
            c.ghost["col_j"] = j

        def preserve(self, it, fr, j):
            c = cur()
            g = c.ghost
            X, G, B, tol = fr.vars["X"], fr.vars["G"], fr.vars["B"], fr.vars["tol"]
            ok_new = fr.vars["ok"]
            okz = ok_new if isinstance(ok_new, SBool) else bool(ok_new)
            c.require("inv.preserve", sor(snot(okz), g["ok_head"]), "the flag never turns True again", key="cgm.cols.inv.preserve.flag_monotone")
            wrote = [cv for (cj, cv) in X.cols if cj is j or (isinstance(cj, SInt) and isinstance(j, SInt) and cj.z.eq(j.z))]
            c.require("inv.preserve", len(wrote) == 1 and len(X.cols) == 1, "exactly column j of X is written in iteration j", key="cgm.cols.inv.preserve.one_column_written")
            if len(wrote) == 1:
                xj = wrote[0]
                bj = B.getitem((slice(None), slice(j, j + 1)))
                res = ssqrt(ncm.fro2(bj.p - G.p @ xj.p))
                bn = smax(Fraction(1, 10 ** 16), ssqrt(ncm.fro2(bj.p)))
                # naming: GOOD(j) is the statement about the column just written
                c.assume(SBool(GOOD(SInt.lift(j))) == (res <= thr(tol) * bn))
                c.require("inv.preserve", sor(snot(okz), SBool(GOOD(SInt.lift(j)))), "ok after column j implies that column j is solved to the stated relative residual", key="cgm.cols.inv.preserve.flag_truthful", timeout_s=60)
            c.require("inv.preserve", self.fact(fr, j + 1), "witness column", key="cgm.cols.inv.preserve.witness")

    def setup(I, ctx):
        r, m = dims(ctx, "r", "m")
        G0 = fresh_hmat("G0", r, r)
        B = fresh_hmat("B", r, m)
        tol, K = SReal.var("tol"), SInt.var("max_iter")
        ctx.assume(sand(tol >= 0, K >= 0), base=True)
        jw = SInt.var("jw")
        ctx.assume(sand(jw >= 0, jw < m), base=True)
        ctx.ghost["jw"] = jw
        _H.column_atoms = True
        slf = mk_self(I, "RandomizedSketchProjectPseudoinverse", block_size=4, max_iter=10, tol=Fraction(1, 1000), test_sketch_size=8, verbose=False, seed=None, column_solver="spd")
        return [slf, G0, B], dict(tol=tol, max_iter=K), dict(jw=jw)

    def post(I, ctx, outcome, val, aux):
        if outcome == "loop_end":
            return []
        if outcome != "return" or not (isinstance(val, tuple) and len(val) == 2):
            return [("returns_solution_and_flag", False)]
        X, ok = val
        okz = ok if isinstance(ok, SBool) else bool(ok)
        return [("returns_solution_and_flag", isinstance(X, ColMat)),
                ("ok_implies_every_column_solved", sor(snot(okz), SBool(GOOD(SInt.lift(aux["jw"])))))]
    contracts = dict(ALGEBRA)
    contracts[S_ + ".<real_inner>"] = k_inner
    try:
        run_case(rep, P, S_, "flag", setup, post, lib=lib, contracts=contracts, loop_rules={(S_, 1): Cols(), (S_, 2): Inner()},
                 clauses=["returns_solution_and_flag", "ok_implies_every_column_solved"], replay=replay_rsp, timeout_s=60, max_paths=600)
    finally:
        _H.column_atoms = False


# ----------------------------------------------------------------------------------------------------
# bounded stand-in on the real code
C_SMALL = 10.0      # "small multiple of tol" for the proxy -> true residual implication (Gaussian test sketch, 4s >= 24 real dof)


def draw_sketch(n, s):
    parts = [np.random.randn(n, s) for _ in range(4)]
    return np.stack(parts, axis=-1)


def check_rsp(A4, variant, solver, tol, block, seed, max_iter=400, tss=8):
    from .. import runtime as rt
    sv = rt.real().solver
    m, n = A4.shape[:2]
    Aq = rt.q_from4(A4)
    s = sv.RandomizedSketchProjectPseudoinverse(block_size=block, max_iter=max_iter, tol=tol, test_sketch_size=tss, seed=seed, column_solver=solver)
    fn = {"column": s.compute_column_variant, "row": s.compute_row_variant, "auto": s.compute}[variant]
    X, info = fn(Aq)
    X4 = rt.q_to4(X)
    hist = info["residual_norms"]
    if info["iterations"] != len(hist) or len(hist) > max_iter or len(info["iteration_times"]) != len(hist):
        return {"what": "iterations / history lengths inconsistent", "iterations": info["iterations"], "len": len(hist)}
    if bool(info["converged"]) != bool(hist and hist[-1] <= tol):
        return {"what": "converged flag is not (last history entry <= tol)", "converged": info["converged"], "last": hist[-1] if hist else None}
    if s.block_size != block:
        return {"what": "configured block size modified", "now": s.block_size}
    col = (variant == "column") or (variant == "auto" and m >= n)
    # the history is the history of the returned iterate: recompute the proxy from the same seeded test sketch
    np.random.seed(seed)
    T4 = draw_sketch(n if col else m, tss)
    E = (T4 - rt.qmm(X4, rt.qmm(A4, T4))) if col else (T4 - rt.qmm(A4, rt.qmm(X4, T4)))
    proxy = rt.fro(E) / rt.fro(T4)
    if hist and not (abs(hist[-1] - proxy) <= 1e-9 * max(1.0, proxy)):
        return {"what": "last history entry is not the proxy residual of the returned X", "reported": hist[-1], "recomputed": proxy}
    if info["converged"]:
        k = n if col else m
        true = rt.fro((rt.qmm(X4, A4) if col else rt.qmm(A4, X4)) - rt.eye4(k)) / np.sqrt(k)
        if not (true <= C_SMALL * tol):
            return {"what": "converged=True but the true residual is not within a small multiple of tol", "true": true, "tol": tol, "proxy": hist[-1]}
        P4 = rt.pinv4(A4)
        sig = rt.singular_values(A4)
        bound = C_SMALL * tol * np.sqrt(k) / sig[-1] + (1e-6 if solver == "spd" or not col else 1e-9) / sig[-1]
        if not (rt.fro(X4 - P4) <= bound):
            return {"what": "converged=True but X is not the Moore-Penrose inverse to cond-scaled accuracy", "err": rt.fro(X4 - P4), "bound": bound}
    return None


def check_hybrid(A4, p, T, r, tol, solver, seed, max_iter=300):
    from .. import runtime as rt
    sv = rt.real().solver
    m, n = A4.shape[:2]
    s = sv.HybridRSPNewtonSchulz(r=r, p=p, T=T, tol=tol, max_iter=max_iter, seed=seed, column_solver=solver)
    X, info = s.compute(rt.q_from4(A4))
    X4 = rt.q_to4(X)
    hist = info["residual_norms"]
    if bool(info["converged"]) != bool(hist and hist[-1] <= tol):
        return {"what": "converged flag is not (last history entry <= tol)", "converged": info["converged"], "last": hist[-1] if hist else None}
    np.random.seed(seed)
    T4 = draw_sketch(n, min(6, n))
    proxy = rt.fro(T4 - rt.qmm(X4, rt.qmm(A4, T4))) / rt.fro(T4)
    if hist and not (abs(hist[-1] - proxy) <= 1e-9 * max(1.0, proxy)):
        return {"what": "last history entry is not the proxy residual of the returned X", "reported": hist[-1], "recomputed": proxy}
    if info["converged"]:
        true = rt.fro(rt.qmm(X4, A4) - rt.eye4(n)) / np.sqrt(n)
        # the hybrid's test sketch is square (min(6,n) = n columns) for n <= 6: the proxy then bounds the true residual through cond(Pi)
        if not (true <= (C_SMALL if n > 6 else 50.0) * tol):
            return {"what": "converged=True but the true residual is not within a small multiple of tol", "true": true, "tol": tol, "proxy": hist[-1]}
        sig = rt.singular_values(A4)
        if not (rt.fro(X4 - rt.pinv4(A4)) <= (50.0 * tol * np.sqrt(n) + (1e-6 if solver == "spd" else 1e-9)) / sig[-1]):
            return {"what": "converged=True but X is not the Moore-Penrose inverse", "err": rt.fro(X4 - rt.pinv4(A4))}
    return None


def check_hyperpower(A4, X4, p):
    from .. import runtime as rt
    sv = rt.real().solver
    n = A4.shape[1]
    s = sv.HybridRSPNewtonSchulz(p=p)
    Xn = rt.q_to4(s._ns_hyperpower_right(rt.q_from4(A4), rt.q_from4(X4)))
    F = rt.eye4(n) - rt.qmm(X4, A4)
    Fp = rt.eye4(n)
    for _ in range(p):
        Fp = rt.qmm(Fp, F)
    err = rt.fro(rt.eye4(n) - rt.qmm(Xn, A4) - Fp)
    if not (err <= 1e-9 * max(1.0, rt.fro(Fp))):
        return {"what": "hyperpower step: I - X'A != (I - XA)^p", "err": err, "p": p}
    return None


def check_cgne(A4, tol, max_iter, must_converge, prec_rank=0, seed=0):
    from .. import runtime as rt
    sv = rt.real().solver
    m, n = A4.shape[:2]
    s = sv.CGNEQSolver(tol=tol, max_iter=max_iter, preconditioner_rank=prec_rank, seed=seed)
    X, info = s.compute(rt.q_from4(A4))
    X4 = rt.q_to4(X)
    hist = info["residual_norms"]
    if info["iterations"] != len(hist) or len(hist) > max_iter:
        return {"what": "iterations / history inconsistent", "iterations": info["iterations"], "len": len(hist)}
    if bool(info["converged"]) != bool(hist and hist[-1] <= tol):
        return {"what": "converged flag is not (last history entry <= tol)", "converged": info["converged"]}
    true = rt.fro(rt.qmm(X4, A4) - rt.eye4(n)) / np.sqrt(n)
    if hist and not (abs(hist[-1] - true) <= 1e-8 * max(1.0, true) + 1e-12):
        return {"what": "last history entry is not the true residual of the returned X", "reported": hist[-1], "true": true}
    if info["converged"]:
        if not (true <= 2 * tol + 1e-12):
            return {"what": "converged=True but true residual above tol", "true": true, "tol": tol}
        sig = rt.singular_values(A4)
        if not (rt.fro(X4 - rt.pinv4(A4)) <= (4 * tol * np.sqrt(n) + 1e-9) / sig[-1]):
            return {"what": "converged=True but X is not the Moore-Penrose inverse", "err": rt.fro(X4 - rt.pinv4(A4))}
    if prec_rank == 0:
        for a, b in zip(hist, hist[1:]):
            if not (b <= a * (1 + 1e-9) + 1e-13):
                return {"what": "residual history increases", "pair": [a, b]}
        # the property asks for the pseudoinverse to the tolerance, not for the flag: a start X0 = A^H / ||A||_F^2 that is already exact
        # (every m x 1 input, when the first residual rounds to exactly 0) leaves the loop at once with an empty history and converged = False
        if must_converge and not (true <= 2 * tol + 1e-12):
            return {"what": "well-conditioned input not solved to the tolerance within the budget", "true_residual": true, "last": hist[-1] if hist else None, "budget": max_iter, "converged": info["converged"]}
    return None


def mk_matrix(rng, m, n, cond):
    from .. import runtime as rt
    k = min(m, n)
    sv = np.geomspace(1.0, 1.0 / cond, k) if k > 1 else np.array([1.0])
    return rt.from_svd(rng, m, n, list(sv))[0]


def replay_rsp(seed):
    rng = np.random.default_rng(seed)
    for (m, n), variant in (((5, 3), "column"), ((3, 5), "row"), ((4, 4), "auto")):
        A4 = mk_matrix(rng, m, n, 10.0)
        for solver in ("qr", "spd"):
            try:
                res = check_rsp(A4, variant, solver, 1e-6, 2, seed)
            except Exception as e:
                res = {"exception": f"{type(e).__name__}: {e}"}
            if res:
                res.update({"failed": True, "A": A4, "variant": variant, "solver": solver})
                return res
    return {"failed": False}


def replay_hybrid(seed):
    rng = np.random.default_rng(seed)
    A4 = mk_matrix(rng, 6, 4, 10.0)
    for p in (2, 3, 4, 8):
        try:
            res = check_hyperpower(A4, 0.3 * np.transpose(A4, (1, 0, 2)) * np.array([1, -1, -1, -1]), p) or check_hybrid(A4, p, 3, 2, 1e-6, "qr", seed)
        except Exception as e:
            res = {"exception": f"{type(e).__name__}: {e}"}
        if res:
            res.update({"failed": True, "A": A4, "p": p})
            return res
    return {"failed": False}


def replay_cgne(seed):
    rng = np.random.default_rng(seed)
    for m, n in ((5, 3), (4, 4), (6, 2)):
        A4 = mk_matrix(rng, m, n, 10.0)
        try:
            res = check_cgne(A4, 1e-8, 200, True)
        except Exception as e:
            res = {"exception": f"{type(e).__name__}: {e}"}
        if res:
            res.update({"failed": True, "A": A4})
            return res
    return {"failed": False}


def bounded(rep: Report, tier, seed):
    rng = np.random.default_rng(seed)
    quick = tier == "quick"
    shapes_col = [(1, 1), (3, 2), (4, 4), (6, 3)] if quick else [(1, 1), (2, 1), (3, 2), (4, 4), (6, 3), (8, 5), (7, 7)]
    shapes_row = [(1, 1), (2, 3), (3, 6)] if quick else [(1, 1), (1, 3), (2, 3), (3, 6), (5, 8)]
    conds = [1.0, 30.0] if quick else [1.0, 30.0, 1000.0]
    tols = [1e-3, 1e-6] if quick else [1e-3, 1e-6, 1e-8]
    seeds = [seed, seed + 1] if quick else [seed, seed + 1, seed + 2, seed + 3]
    b = rep.add_bounded(Bounded("rsp", f"column shapes {shapes_col}, row shapes {shapes_row}, cond in {conds}, tol in {tols}, every block size 1..min(m,n) (quick: 1, mid, max and one above), solvers qr/spd, seeds {seeds}",
                                "flag <=> last entry <= tol; last entry recomputed from the seeded test sketch and the returned X; converged => true residual <= 10 tol and ||X - A^+|| cond-scaled; lengths"))
    for (m, n), variant in [(s, "column") for s in shapes_col] + [(s, "row") for s in shapes_row] + [((4, 4), "auto"), ((2, 4), "auto"), ((5, 2), "auto")]:
        k = min(m, n)
        blocks = sorted({1, max(1, k // 2), k, k + 3}) if quick else sorted(set(range(1, k + 1)) | {k + 3})
        for cond in conds:
            A4 = mk_matrix(rng, m, n, cond)
            for tol, blk, sd in itertools.product(tols, blocks, seeds):
                if quick and (sd != seed) and (blk != blocks[-1] or tol != tols[0]):
                    continue
                for solver in (("qr", "spd") if variant != "row" else ("qr",)):
                    if quick and solver == "spd" and (tol != tols[0] or cond != conds[0]):
                        continue
                    b.case(f"{P}.bounded.rsp.{variant}.{solver}", (m, n, cond, tol, blk, sd), lambda A4=A4, variant=variant, solver=solver, tol=tol, blk=blk, sd=sd: check_rsp(A4, variant, solver, tol, blk, sd, max_iter=300 if quick else 600),
                           f"RSP {variant}/{solver} {m}x{n} cond {cond} tol {tol} block {blk} seed {sd}", facts={"m": m, "n": n, "cond": cond, "tol": tol, "block": blk, "solver": solver},
                           inputs={"A": A4, "tol": tol, "block": blk, "seed": sd})
    b.samples.append({"shape": [6, 3], "variant": "column", "solver": "qr", "tol": 1e-6, "block": 2})
    b.done()
    be = rep.add_bounded(Bounded("rsp_equal_sketch_sizes", "block_size == test_sketch_size in {4, 8} (8 = both defaults) below n: 12x10 / 10x10 column, 9x12 row; tol 1e-3 / 1e-6; seeds",
                                 "same clauses: the monitoring sketch must not coincide with a projection sketch (a proxy that is zero by construction would flag a wrong inverse)"))
    for (m, n), variant in (((12, 10), "column"), ((10, 10), "column"), ((9, 12), "row")):
        A4 = mk_matrix(rng, m, n, 5.0)
        for tss, tol, sd in itertools.product((4, 8), (1e-3, 1e-6), seeds[:2]):
            for solver in (("qr", "spd") if variant != "row" else ("qr",)):
                if quick and solver == "spd" and tol != 1e-3:
                    continue
                be.case(f"{P}.bounded.rsp.{variant}.{solver}", (m, n, "eq", tss, tol, sd), lambda A4=A4, variant=variant, solver=solver, tol=tol, tss=tss, sd=sd: check_rsp(A4, variant, solver, tol, tss, sd, max_iter=400 if quick else 1200, tss=tss),
                        f"RSP {variant}/{solver} {m}x{n} block = test sketch = {tss} tol {tol} seed {sd}", facts={"m": m, "n": n, "block": tss, "test_sketch": tss, "solver": solver}, inputs={"A": A4, "tol": tol, "block": tss, "seed": sd})
    be.done()
    b2 = rep.add_bounded(Bounded("hybrid", "shapes (3,2) (4,4) (6,3) (8,7 thorough), p in 2..8 (quick: 2,3,4,8), T in {1,3,5,10} (10 = the proxy cadence), r in {1,2,n}, tol, qr/spd, seeds; hyperpower identity on random X",
                                 "same truthfulness / soundness clauses; I - X'A = (I - XA)^p"))
    hshapes = [(3, 2), (4, 4), (6, 3)] if quick else [(1, 1), (3, 2), (4, 4), (6, 3), (8, 7)]
    ps = (2, 3, 4, 8) if quick else tuple(range(2, 9))
    for (m, n) in hshapes:
        for cond in conds:
            A4 = mk_matrix(rng, m, n, cond)
            X4 = rng.uniform(0.1, 0.6) * np.transpose(A4, (1, 0, 2)) * np.array([1, -1, -1, -1]) + 0.05 * rng.standard_normal((n, m, 4))
            for p in ps:
                b2.case(f"{P}.bounded.hyperpower", (m, n, cond, p), lambda A4=A4, X4=X4, p=p: check_hyperpower(A4, X4, p), f"hyperpower p={p} on {m}x{n}", inputs={"A": A4, "X": X4, "p": p})
                for T, r, tol, sd in itertools.product((1, 3, 5, 10), sorted({1, 2, n}), tols, seeds):
                    if quick and not ((T, r) in ((3, min(2, n)), (5, n), (10, min(2, n))) and sd == seed and tol == tols[-1]):
                        continue
                    for solver in ("qr", "spd"):
                        if solver == "spd" and (quick or cond != conds[0]):
                            if not (p == 4 and T == 3 and cond == conds[0]):
                                continue
                        b2.case(f"{P}.bounded.hybrid.{solver}", (m, n, cond, p, T, r, tol, sd), lambda A4=A4, p=p, T=T, r=r, tol=tol, solver=solver, sd=sd: check_hybrid(A4, p, T, r, tol, solver, sd),
                                f"hybrid {m}x{n} cond {cond} p={p} T={T} r={r} tol {tol} {solver} seed {sd}", facts={"m": m, "n": n, "p": p, "T": T, "r": r}, inputs={"A": A4, "seed": sd})
    b2.samples.append({"shape": [6, 3], "p": 4, "T": 3, "r": 2})
    b2.done()
    b3 = rep.add_bounded(Bounded("cgne", "shapes up to 8x6 (thorough 10x8), cond in {1, 30, 100 (must converge), 1000 (flag soundness only)}, tol 1e-3..1e-10, budgets {0, 1, 2, default 500}, preconditioner rank {0, 2}",
                                 "flag truthful; history entries are true residuals; non-increasing; converges within budget on cond <= 100"))
    cshapes = [(1, 1), (3, 2), (4, 4), (6, 3), (8, 6)] if quick else [(1, 1), (2, 1), (3, 2), (4, 4), (6, 3), (8, 6), (10, 8), (9, 9)]
    for (m, n) in cshapes:
        for cond in (1.0, 30.0, 100.0, 1000.0):
            if cond > 1 and n == 1:
                continue
            A4 = mk_matrix(rng, m, n, cond)
            for tol in (1e-3, 1e-6, 1e-8, 1e-10):
                for budget in (0, 1, 2, 500):
                    if quick and budget in (1, 2) and tol != 1e-6:
                        continue
                    b3.case(f"{P}.bounded.cgne", (m, n, cond, tol, budget), lambda A4=A4, tol=tol, budget=budget, cond=cond: check_cgne(A4, tol, budget, must_converge=(budget == 500 and cond <= 100.0)),
                            f"CGNE {m}x{n} cond {cond} tol {tol} budget {budget}", facts={"m": m, "n": n, "cond": cond, "tol": tol, "budget": budget}, inputs={"A": A4, "tol": tol, "budget": budget})
                if cond <= 100.0 and tol in (1e-6, 1e-8) and n >= 2:
                    # the solver is scale free on paper: down- / up-scaled inputs must converge within the budget too
                    for c_ in (1e-4, 1e3):
                        b3.case(f"{P}.bounded.cgne.scaled", (m, n, cond, tol, c_), lambda A4=A4, tol=tol, c_=c_: check_cgne(c_ * A4, tol, 500, must_converge=True),
                                f"CGNE {m}x{n} cond {cond} scaled by {c_:g} tol {tol}", facts={"m": m, "n": n, "cond": cond, "tol": tol, "scale": c_}, inputs={"A": c_ * A4, "tol": tol})
                if n >= 2:
                    b3.case(f"{P}.bounded.cgne.preconditioned", (m, n, cond, tol), lambda A4=A4, tol=tol: check_cgne(A4, tol, 300, False, prec_rank=2, seed=seed), f"CGNE rank-2 preconditioner {m}x{n} cond {cond} tol {tol}", inputs={"A": A4, "tol": tol})
    # larger n: conjugate directions matter (CG no longer terminates by dimension count); small-norm and tight-tolerance inputs
    big = [(40, 30, 100.0, 1e-4, 1e-6)] if quick else [(40, 30, 100.0, 1e-4, 1e-6), (30, 24, 100.0, 1e-4, 1e-6), (40, 30, 1e3, 1.0, 1e-8), (40, 30, 3e2, 1e-3, 1e-8), (36, 30, 100.0, 1e3, 1e-6)]
    for (m, n, cond, c_, tol) in big:
        for rep_i in range(3):
            A4 = c_ * mk_matrix(np.random.default_rng(1000 * seed + 17 * rep_i + m), m, n, cond)
            b3.case(f"{P}.bounded.cgne.large", (m, n, cond, c_, tol, rep_i), lambda A4=A4, tol=tol: check_cgne(A4, tol, 500, must_converge=True),
                    f"CGNE {m}x{n} cond {cond} scale {c_:g} tol {tol}: must converge within the default budget", facts={"m": m, "n": n, "cond": cond, "scale": c_, "tol": tol}, inputs={"A": A4, "tol": tol})
    b3.samples.append({"shape": [6, 3], "cond": 100.0, "tol": 1e-8, "budget": 500})
    b3.done()


def run(tier, seed):
    rep = Report(P, tier, seed, "exploration")
    rep.assumptions += [
        "kernels by contract (C01); thin QR by contract (C06: Y = U R, U^H U = I, R invertible for full-column-rank Y) and exact triangular solve (the code adds 1e-30 to |r_ii|^2: ignored)",
        "the CG micro-solver and the small Newton-Schulz inverse are only given a shape contract: nothing in the proved clauses depends on their accuracy",
        "that a small proxy residual implies a small true residual is a probabilistic property of the Gaussian test sketch: bounded only (factor 10)",
        "floats as reals (A1): the recurrence residual R of CGNE equals I - XA exactly only without rounding; the bounded run checks the drift (<= 1e-8 relative)",
    ]
    rep.trusted += ["qv engine", "z3 5.1", "library model (np.random.randn/np.stack/as_quat_array produce an arbitrary matrix)"]
    deductive(rep, tier)
    from ..frame import no_module_state
    no_module_state(rep, P, [S + "RandomizedSketchProjectPseudoinverse.compute", S + "RandomizedSketchProjectPseudoinverse.compute_column_variant",
                             S + "RandomizedSketchProjectPseudoinverse.compute_row_variant", S + "HybridRSPNewtonSchulz.compute", S + "CGNEQSolver.compute"])
    bounded(rep, tier, seed)
    return rep


def replay(path):
    import json
    with open(path) as f:
        d = json.load(f)
    print(json.dumps({k: d[k] for k in ("property", "obligation", "text")}, indent=1))
    return run("quick", d.get("seed", 0)).finish()
