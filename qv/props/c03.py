"""C03 - Newton-Schulz solvers follow the documented recurrence and report truthful histories.

Deductive part (abstract quaternion algebra; kernels by contract; symbolic m, n, gamma, tol, budget):
loop-invariant rule with the ghost iterate sequence it[k]: the loop-carried X is it[k]; one generic
iteration is executed from X = it[k] (an uninterpreted matrix atom) on every path (continue / break);
  init      X0 = alpha A^H with alpha > 0, alpha ||A||^2 <= 1 <= alpha (||A||^2 + 1e-16)
  step      X' = (1+gamma) X - gamma X A X        resp.  3T - 3TAT + T(AT)^2   (both orientations)
  hist      exactly one value is appended to every history per iteration and it is the Penrose
            residual of the *new* iterate (the one that is returned), cov entry k is ||it[k]A - I||
  stop      the early exit is taken exactly when the documented quantity is < tol
  return    (current iterate, histories)
Spectral lemmas (QF_NRA / free algebra with unitary + diagonal atoms) connect the recurrence with the
map t <- t(1+gamma(1-t)), resp. 1-(1-t)^3, its monotonicity, the range of t0 and the stop bound.
Bounded stand-in: trajectories against the spectral model on prescribed SVDs of every rank."""
from __future__ import annotations

import time
from fractions import Fraction

import numpy as np
import z3

from .. import nc as ncm
from .. import smt
from ..core import Bounded, Obligation, Report, run_case
from ..interp import LoopRule
from ..kernels import ALGEBRA
from ..libmodel import Library
from ..nc import NC, Atom
from ..sym import Ctx, SInt, SReal, SBool, cur, sand, snot, sor, ssqrt, smax
from ..values import HMat, Obj, Opaque, SymList, fresh_hmat
from .c01 import dims, mk_sparse, comps_of

P = "C03"
S = "quatica/solver.py::"
NS = S + "NewtonSchulzPseudoinverse.compute"
HON = S + "HigherOrderNewtonSchulzPseudoinverse.compute"
KEYS = ["AXA-A", "XAX-X", "AX-herm", "XA-herm"]


def H(x):
    return HMat(x) if isinstance(x, NC) else x


def res_spec(key, A: NC, X: NC):
    AX, XA = A @ X, X @ A
    if key == "AXA-A":
        return ssqrt(ncm.fro2(AX @ A - A))
    if key == "XAX-X":
        return ssqrt(ncm.fro2(XA @ X - X))
    if key == "AX-herm":
        return ssqrt(ncm.fro2(AX - AX.star))
    return ssqrt(ncm.fro2(XA - XA.star))


def ns_step(X: NC, A: NC, gamma):
    return X.scale(1 + gamma) - (X @ A @ X).scale(gamma)


def hon_step(T: NC, A: NC):
    AT = A @ T
    return T.scale(3) - (T @ A @ T).scale(3) + T @ AT @ AT


class IterRule(LoopRule):
    """Ghost-sequence invariant: X == it[k]; every history has k entries, all truthful (abstract prefix)."""

    def __init__(self, xname, lists, dicts):
        self.xname, self.lists, self.dicts = xname, lists, dicts
        self.modifies = (xname,) + tuple(lists) + tuple(dicts)

    def establish(self, it, fr, start):
        g = cur().ghost
        g["entry"] = {"X": fr.vars.get(self.xname),
                      "lists": {n: fr.vars.get(n) for n in self.lists},
                      "dicts": {n: fr.vars.get(n) for n in self.dicts}}

    def havoc(self, it, fr, k):
        c = cur()
        A = fr.vars["A"]
        Xk = fresh_hmat("Xk", A.shape[1], A.shape[0])
        fr.vars[self.xname] = Xk
        for n in self.lists:
            fr.vars[n] = SymList(k, n)
        for n in self.dicts:
            fr.vars[n] = {key: SymList(k, f"{n}[{key}]") for key in KEYS}
        c.ghost.update({"Xk": Xk, "k": k})

    def preserve(self, it, fr, k):
        pass


def mk_self(I, cls, **fields):
    o = Obj(I.module_env("quatica/solver.py")[cls])
    o.fields.update(fields)
    return o


def one_item(lst, k):
    return isinstance(lst, SymList) and len(lst.items) == 1 and (lst.prefix_len is k or sand(lst.prefix_len == k) is True)


def deductive(rep: Report, tier):
    lib = Library("nc")

    # ------------------------------------------------------------------ damped Newton-Schulz
    for resid in (True, False):
        name = "residuals" if resid else "cov_only"

        def setup(I, ctx, resid=resid):
            m, n = dims(ctx, "m", "n")
            gamma, tol = SReal.var("gamma"), SReal.var("tol")
            K = SInt.var("K")
            ctx.assume(sand(gamma > 0, gamma <= 1, K >= 0), base=True)
            A = fresh_hmat("A", m, n)
            # precondition of the property's formula X0 = A^H/||A||^2 is NOT assumed: the division emits its own obligation
            slf = mk_self(I, "NewtonSchulzPseudoinverse", gamma=gamma, max_iter=K, tol=tol, verbose=False, compute_residuals=resid)
            return [slf, A], {}, dict(A=A, m=m, n=n, gamma=gamma, tol=tol, K=K, resid=resid)

        def post(I, ctx, outcome, val, aux, resid=resid):
            A, gamma, tol, K, m, n = aux["A"].p, aux["gamma"], aux["tol"], aux["K"], aux["m"], aux["n"]
            g = ctx.ghost
            out = []
            ent = g.get("entry")
            if ent is None:
                return [("reaches_loop", False)]
            out.append(("reaches_loop", True))
            out += init_clauses(ctx, ent["X"], A)
            empty = all(isinstance(v, list) and not v for v in ent["lists"].values()) and \
                all(isinstance(d, dict) and sorted(d) == sorted(KEYS) and all(isinstance(v, list) and not v for v in d.values()) for d in ent["dicts"].values())
            out.append(("init.histories_empty", empty))
            if outcome == "raise":
                return out + [("no_exception", False)]
            Xk, k = g["Xk"].p, g["k"]
            if outcome == "loop_end" or (outcome == "return" and g.get("phase") == "generic"):
                fr = g["loop_end"][2].vars if outcome == "loop_end" else None
                if fr is not None:
                    X2, covs, ress = fr["X"], fr["covariances"], fr["residuals"]
                else:
                    X2, ress, covs = val
                broke = outcome == "return"
                want = ns_step(Xk, A, gamma)
                out.append(("step", isinstance(X2, HMat)))
                if isinstance(X2, HMat):
                    out.append(("step.recurrence", X2.p, want))
                left = ctx.valid(m >= n)
                cov_want = ssqrt(ncm.fro2(Xk @ A - NC.eye(n))) if left else ssqrt(ncm.fro2(A @ Xk - NC.eye(m)))
                okc = isinstance(covs, SymList) and len(covs.items) == 1
                out.append(("hist.cov.one_append", okc))
                if okc:
                    out.append(("hist.cov.value", covs.items[0] == cov_want))
                okd = isinstance(ress, dict) and sorted(ress) == sorted(KEYS) and all(isinstance(v, SymList) for v in ress.values())
                out.append(("hist.res.dict", okd))
                if okd:
                    for key in KEYS:
                        cnt = len(ress[key].items)
                        out.append((f"hist.{key}.appends", cnt == (1 if resid else 0)))
                        if resid and cnt == 1:
                            out.append((f"hist.{key}.value_of_new_iterate", ress[key].items[0] == res_spec(key, A, want)))
                D = smax(*[res_spec(key, A, want) for key in KEYS]) if resid else cov_want
                if broke:
                    out.append(("stop.only_below_tol", D < tol))
                    out.append(("return.iterate", isinstance(val, tuple) and len(val) == 3 and val[0] is X2))
                else:
                    out.append(("stop.always_below_tol", snot(D < tol)))
            elif outcome == "return":
                # budget exhausted: the returned triple is (it[K], histories of length K)
                ok = isinstance(val, tuple) and len(val) == 3
                out.append(("return.triple", ok))
                if ok:
                    X2, ress, covs = val
                    out.append(("return.iterate_exhausted", isinstance(X2, HMat) and X2 is g["Xk"]))
                    lens_ok = isinstance(covs, SymList) and not covs.items and isinstance(ress, dict) and all(isinstance(v, SymList) and not v.items for v in ress.values())
                    out.append(("return.histories_exhausted", lens_ok))
            return out
        clauses = ["reaches_loop", "init.scaling", "init.direction", "init.histories_empty", "step", "step.recurrence", "hist.cov.one_append",
                   "hist.cov.value", "hist.res.dict", "stop.only_below_tol", "stop.always_below_tol", "return.iterate", "return.triple",
                   "return.iterate_exhausted", "return.histories_exhausted"] + [f"hist.{k}.appends" for k in KEYS] + \
                  ([f"hist.{k}.value_of_new_iterate" for k in KEYS] if resid else [])
        run_case(rep, P, NS, name, setup, post, contracts=ALGEBRA, lib=lib, clauses=clauses,
                 loop_rules={(NS, 0): IterRule("X", ["covariances"], ["residuals"])}, replay=replay_traj("ns"), timeout_s=20, loop_end=True)

    # sparse input: the conversion branch yields the dense matrix with the same components (budget 0 run)
    def setup_sp(I, ctx):
        m, n = dims(ctx, "m", "n")
        A = mk_sparse(I, "A", m, n)
        ctx.assume(_fro2_comps(A) > 0, base=True)
        slf = mk_self(I, "NewtonSchulzPseudoinverse", gamma=Fraction(1, 2), max_iter=0, tol=Fraction(1, 10**6), verbose=False, compute_residuals=True)
        lib.qmode = "Q"
        return [slf, A], {}, A

    def post_sp(I, ctx, outcome, val, aux):
        lib.qmode = "H"
        if outcome != "return":
            return [("returns", False)]
        from .. import spec
        X0 = val[0]
        f2 = _fro2_comps(aux)
        hc = spec.herm_sym(comps_of(aux))
        out = [("returns", True)]
        w0 = list(comps_of(X0)[0].p.t)
        if len(w0) != 1:
            return out + [("X0.scaling", False)]
        alpha = comps_of(X0)[0].p.t[w0[0]]
        out.append(("X0.scaling", sand(alpha > 0, alpha * f2 <= 1, alpha * (f2 + Fraction(1, 10**16)) >= 1)))
        for i, c in enumerate("wxyz"):
            out.append((f"X0.{c}", comps_of(X0)[i].p, hc[i].p.scale(alpha)))
        return out
    run_case(rep, P, NS, "sparse_input", setup_sp, post_sp, contracts=ALGEBRA, lib=lib, clauses=["returns", "X0.scaling"] + [f"X0.{c}" for c in "wxyz"],
             replay=replay_traj("ns_sparse"))
    lib.qmode = "H"

    # ------------------------------------------------------------------ third-order Newton-Schulz
    def setup_h(I, ctx):
        m, n = dims(ctx, "m", "n")
        tol = SReal.var("tol")
        K = SInt.var("K")
        ctx.assume(K >= 0, base=True)
        A = fresh_hmat("A", m, n)
        slf = mk_self(I, "HigherOrderNewtonSchulzPseudoinverse", max_iter=K, tol=tol, verbose=False)
        return [slf, A], {}, dict(A=A, m=m, n=n, tol=tol, K=K)

    def post_h(I, ctx, outcome, val, aux):
        A, tol = aux["A"].p, aux["tol"]
        g = ctx.ghost
        ent = g.get("entry")
        if ent is None:
            return [("reaches_loop", False)]
        out = [("reaches_loop", True)] + init_clauses(ctx, ent["X"], A)
        if outcome == "raise":
            return out + [("no_exception", False)]
        Xk = g["Xk"].p
        if outcome == "loop_end" or (outcome == "return" and g.get("phase") == "generic"):
            if outcome == "loop_end":
                fr = g["loop_end"][2].vars
                X2, ress, times = fr["T"], fr["residuals"], fr["times_per_iter"]
            else:
                X2, ress, times = val
            broke = outcome == "return"
            want = hon_step(Xk, A)
            out.append(("step", isinstance(X2, HMat)))
            if isinstance(X2, HMat):
                out.append(("step.recurrence", X2.p, want))
            okd = isinstance(ress, dict) and sorted(ress) == sorted(KEYS) and all(isinstance(v, SymList) for v in ress.values())
            out.append(("hist.res.dict", okd))
            if okd:
                for key in KEYS:
                    cnt = len(ress[key].items)
                    out.append((f"hist.{key}.appends", cnt == 1))
                    if cnt == 1:
                        out.append((f"hist.{key}.value_of_new_iterate", ress[key].items[0] == res_spec(key, A, want)))
            out.append(("timing.only_clock_values", isinstance(times, SymList) and len(times.items) == 1 and isinstance(times.items[0], Opaque)))
            D = res_spec("AXA-A", A, want)
            if broke:
                out.append(("stop.only_below_tol", sand(tol > 0, D < tol)))
                out.append(("return.iterate", isinstance(val, tuple) and len(val) == 3 and val[0] is X2))
            else:
                out.append(("stop.always_below_tol", snot(sand(tol > 0, D < tol))))
        elif outcome == "return":
            ok = isinstance(val, tuple) and len(val) == 3
            out.append(("return.triple", ok))
            if ok:
                X2, ress, times = val
                out.append(("return.iterate_exhausted", isinstance(X2, HMat) and X2 is g["Xk"]))
                out.append(("return.histories_exhausted", isinstance(ress, dict) and all(isinstance(v, SymList) and not v.items for v in ress.values())))
        return out
    hclauses = ["reaches_loop", "init.scaling", "init.direction", "step", "step.recurrence", "hist.res.dict", "timing.only_clock_values",
                "stop.only_below_tol", "stop.always_below_tol", "return.iterate", "return.triple", "return.iterate_exhausted",
                "return.histories_exhausted"] + [f"hist.{k}.appends" for k in KEYS] + [f"hist.{k}.value_of_new_iterate" for k in KEYS]
    run_case(rep, P, HON, "", setup_h, post_h, contracts=ALGEBRA, lib=lib, clauses=hclauses,
             loop_rules={(HON, 0): IterRule("T", ["times_per_iter"], ["residuals"])}, replay=replay_traj("hon"), timeout_s=20, loop_end=True)
    lemmas(rep)


def _fro2_comps(A):
    tot = Fraction(0)
    for c in comps_of(A):
        tot = tot + ncm.fro2(c.p)
    return tot


def init_clauses(ctx, X0, A: NC):
    """X0 = alpha A^H with alpha > 0, alpha ||A||^2 <= 1 <= alpha (||A||^2 + 1e-16)."""
    if not isinstance(X0, HMat):
        return [("init.direction", False)]
    words = list(X0.p.t)
    star = tuple(A.star.t)[0]
    if words != [star]:
        return [("init.direction", False)]
    alpha = X0.p.t[star]
    f2 = ncm.fro2(A)
    return [("init.direction", True),
            ("init.scaling", sand(alpha > 0, alpha * f2 <= 1, alpha * (f2 + Fraction(1, 10**16)) >= 1))]


def lemmas(rep: Report):
    t, g, s, smin, S2 = z3.Reals("t g s smin S2")
    tp = t * (1 + g * (1 - t))
    tc = 1 - (1 - t) ** 3

    def L(id, goal, hyps=(), known=None):
        v = smt.prove(list(hyps), goal, 30)
        rep.add(Obligation(f"{P}.lemma.{id}", "spec", "all-shapes", v.status, v.backend, v.secs, {"model": v.model} if v.model else v.detail, kind="lemma"))
    dom = [t > 0, t <= 1, g > 0, g <= 1]
    L("damped.monotone", z3.And(t <= tp, tp <= 1), dom)
    L("damped.contracts_error", z3.And(1 - tp >= 0, 1 - tp <= 1 - t), dom)
    L("damped.strict_progress", z3.Implies(t < 1, tp > t), dom)
    L("cubic.monotone", z3.And(t <= tc, tc <= 1), [t > 0, t <= 1])
    L("cubic.error_cubed", 1 - tc == (1 - t) ** 3, [])
    L("t0.range", z3.And(s * s / S2 > 0, s * s / S2 <= 1), [s > 0, S2 >= s * s])
    # per singular value: (t-1)^2/s^2 <= s^2 (t-1)^2 / smin^4  for s >= smin > 0  (residual-based stop)
    L("stopbound.residual", (t - 1) ** 2 / (s * s) <= s * s * (t - 1) ** 2 / smin ** 4, [s >= smin, smin > 0])
    # covariance-based stop (compute_residuals=False) only bounds |t-1|: (t-1)^2/s^2 <= (t-1)^2/smin^4 is false for smin > 1
    L("stopbound.cov", (t - 1) ** 2 / (s * s) <= (t - 1) ** 2 / smin ** 4, [s >= smin, smin > 0])
    # spectral form of one step: A = U S V^H, X = V T S^-1 U^H  =>  step(X) = V T' S^-1 U^H
    t0 = time.time()
    with Ctx("C03.lemma.map") as ctx:
        ncm.reset_atoms()
        m, n, r = dims(ctx, "m", "n", "r")
        gam = SReal.var("gamma")
        Uu = NC.atom(Atom("U", m, r, "orthcols", alg="H"))
        V = NC.atom(Atom("V", n, r, "orthcols", alg="H"))
        Sg = NC.atom(Atom("S", r, r, "sym", comm="d", alg="H"))
        Si = NC.atom(Atom("Sinv", r, r, "sym", comm="d", inv_of="S", alg="H"))
        T = NC.atom(Atom("T", r, r, "sym", comm="d", alg="H"))
        A = Uu @ Sg @ V.star
        X = V @ T @ Si @ Uu.star
        got = ns_step(X, A, gam)
        Tn = T.scale(1 + gam) - (T @ T).scale(gam)
        want = V @ Tn @ Si @ Uu.star
        st, be, sc, det = ncm.nc_equal_obligation(got, want, ctx.hyps())
        rep.add(Obligation(f"{P}.lemma.map.damped", "spec", "all-shapes", st, be, sc, det, kind="lemma"))
        got = hon_step(X, A)
        Tn = T.scale(3) - (T @ T).scale(3) + T @ T @ T
        want = V @ Tn @ Si @ Uu.star
        st, be, sc, det = ncm.nc_equal_obligation(got, want, ctx.hyps())
        rep.add(Obligation(f"{P}.lemma.map.cubic", "spec", "all-shapes", st, be, sc, det, kind="lemma"))
        # X0 = A^H/||A||^2 has the spectral form with T0 = S^2/||A||^2
        al = SReal.var("alpha")
        st, be, sc, det = ncm.nc_equal_obligation(A.star.scale(al), V @ (Sg @ Sg).scale(al) @ Si @ Uu.star, ctx.hyps())
        rep.add(Obligation(f"{P}.lemma.map.X0", "spec", "all-shapes", st, be, sc, det, kind="lemma"))
        # residual in spectral form: A X A - A = U (T - I) S V^H
        st, be, sc, det = ncm.nc_equal_obligation(A @ X @ A - A, Uu @ (T @ Sg - Sg) @ V.star, ctx.hyps())
        rep.add(Obligation(f"{P}.lemma.map.residual", "spec", "all-shapes", st, be, sc, det, kind="lemma"))
        # canary: a wrong damping must be refuted
        st, _, _, _ = ncm.nc_equal_obligation(ns_step(X, A, gam), V @ (T.scale(1 + 2 * gam) - (T @ T).scale(2 * gam)) @ Si @ Uu.star, ctx.hyps())
        rep.canary("C03.canary.double_damping", st == smt.REFUTED)
        st, _, _, _ = ncm.nc_equal_obligation(res_spec_nc("AXA-A", A, X), res_spec_nc("AXA-A", A, ns_step(X, A, gam)), ctx.hyps())
        rep.canary("C03.canary.stale_residual", st == smt.REFUTED)
    rep.solver_secs += time.time() - t0


def res_spec_nc(key, A, X):
    return A @ X @ A - A


# ---------------------------------------------------------------------------------------------------
def _solver(kind, **kw):
    from .. import runtime as rt
    s = rt.real().solver
    return s.NewtonSchulzPseudoinverse(**kw) if kind.startswith("ns") else s.HigherOrderNewtonSchulzPseudoinverse(**kw)


def _traj_check(kind, A4, U4, V4, svals, gamma, K, resid=True, sparse=False):
    """X returned for every budget 1..K equals V diag(t_k/s) U^H; residual histories truthful and non-increasing."""
    from .. import runtime as rt
    m, n = A4.shape[:2]
    r = len([s for s in svals if s > 0])
    nz = np.array([s for s in svals if s > 0], dtype=float)
    fro2 = float(np.sum(nz ** 2))
    scale = max(1.0, float(np.max(nz)) if r else 1.0)
    A = rt.sparse_from4(A4) if sparse else rt.q_from4(A4)
    t = nz ** 2 / fro2 if r else nz
    prev_e1 = None
    for k in range(0, K + 1):
        kw = dict(max_iter=k, tol=0.0, verbose=False)
        if kind.startswith("ns"):
            kw.update(gamma=gamma, compute_residuals=resid)
        X, res, third = _solver(kind, **kw).compute(A)
        X4 = rt.q_to4(X)
        if not np.all(np.isfinite(X4)):
            return {"what": "non-finite iterate", "k": k, "X": X4}
        model = np.zeros((n, m, 4))
        if r:
            D = np.zeros((n, m, 4))
            for i in range(r):
                D[i, i, 0] = t[i] / nz[i]
            model = rt.qmm(rt.qmm(V4, D), rt.qH(U4))
        err = rt.fro(X4 - model)
        tolm = 1e-9 * (k + 1) * max(1.0, rt.fro(model))
        if not (err <= tolm):
            return {"what": "iterate differs from the spectral model V diag(t_k/s) U^H", "k": k, "err": err, "tol": tolm}
        e1 = rt.fro(rt.qmm(rt.qmm(A4, X4), A4) - A4)
        if prev_e1 is not None and not (e1 <= prev_e1 * (1 + 1e-9) + 1e-12 * scale):
            return {"what": "||AXA-A|| increased", "k": k, "e1": e1, "prev": prev_e1}
        prev_e1 = e1
        if resid or not kind.startswith("ns"):
            for key in KEYS:
                if len(res[key]) != k:
                    return {"what": f"history {key} has {len(res[key])} entries after {k} iterations"}
            if k:
                AX, XA = rt.qmm(A4, X4), rt.qmm(X4, A4)
                true = {"AXA-A": e1, "XAX-X": rt.fro(rt.qmm(XA, X4) - X4), "AX-herm": rt.fro(AX - rt.qH(AX)), "XA-herm": rt.fro(XA - rt.qH(XA))}
                for key in KEYS:
                    if not (abs(res[key][-1] - true[key]) <= 1e-9 * max(1.0, scale, rt.fro(X4)) * max(1.0, scale)):
                        return {"what": f"history {key} is not the residual of the returned iterate", "k": k, "reported": res[key][-1], "true": true[key]}
        if kind.startswith("ns") and len(third) != k:
            return {"what": f"covariance history has {len(third)} entries after {k} iterations"}
        # advance the spectral model
        if r:
            t = t * (1 + gamma * (1 - t)) if kind.startswith("ns") else 1 - (1 - t) ** 3
    return None


def replay_traj(kind):
    def rp(seed):
        from .. import runtime as rt
        rng = np.random.default_rng(seed)
        for (m, n, sv) in ((2, 3, [0.0, 0.0]), (2, 2, [3e-9, 1e-9]), (3, 2, [2.0, 0.5]), (2, 3, [1.0, 1.0]), (2, 2, [3.0, 0.0]), (1, 2, [0.7])):
            A4, U4, V4 = rt.from_svd(rng, m, n, sv)
            try:
                res = _traj_check("ns" if kind.startswith("ns") else "hon", A4, U4, V4, sv, 0.5, 4, sparse=(kind == "ns_sparse"))
            except Exception as e:
                res = {"exception": f"{type(e).__name__}: {e}"}
            if res:
                res.update({"failed": True, "A": A4, "kind": kind, "svals": sv})
                return res
        return {"failed": False}
    return rp


def bounded(rep: Report, tier, seed):
    from .. import runtime as rt
    rng = np.random.default_rng(seed)
    b = rep.add_bounded(Bounded("trajectories", "shapes <= 4x4 (quick) / 6x6 (thorough); ranks 0..min(m,n); spectra with clusters, repeats, 1e-3..1e3; K <= 6 iterations; gamma in {0.1,0.5,1}",
                                "A = U diag(s) V^H with harness-built unitary U, V; X for every budget k compared with V diag(t_k/s) U^H; distinct by (solver, shape, spectrum, gamma, storage)"))
    shapes = [(1, 1), (2, 1), (1, 3), (3, 2), (2, 3), (3, 3), (4, 2)] + ([(4, 4), (5, 3), (3, 6), (6, 6)] if tier == "thorough" else [])
    spectra = lambda r: [[1.0] * r, [float(2 ** i) * 1e-9 for i in range(r)], [float(2 ** i) for i in range(r)], [1e-3] + [1.0] * (r - 1) if r > 1 else [1e3], [5.0, 5.0, 0.1, 0.1][:r]]
    K = 4 if tier == "quick" else 6
    for (m, n) in shapes:
        for r in range(0, min(m, n) + 1):
            specs = spectra(r) if r else [[]]
            for sv in specs[: (3 if tier == "quick" else 5)]:
                svp = list(sv) + [0.0] * (min(m, n) - r)
                A4, U4, V4 = rt.from_svd(rng, m, n, svp)
                for kind, gam, resid, sparse in (("ns", 0.5, True, False), ("ns", 1.0, False, False), ("ns", 0.1, True, True), ("hon", 0.0, True, False)):
                    if tier == "quick" and (m * n > 6) and kind == "ns" and gam != 0.5:
                        continue
                    facts = {"zero_matrix": r == 0, "solver": kind}
                    b.case(f"{P}.bounded.trajectory.{kind}", (kind, m, n, tuple(svp), gam, resid, sparse),
                           lambda kind=kind, gam=gam, resid=resid, sparse=sparse: _traj_check(kind, A4, U4[:, :, :], V4, svp, gam, K, resid, sparse),
                           f"{kind} trajectory on {m}x{n} rank {r} spectrum {svp}", facts=facts, inputs={"A": A4, "svals": svp, "gamma": gam})
    b.samples.append({"solver": "ns", "shape": [3, 2], "svals": [2.0, 1.0], "gamma": 0.5, "budgets": list(range(K + 1))})
    b.done()
    # stop-rule bound ||X - A^+|| <= tol / s_min^2
    b2 = rep.add_bounded(Bounded("stop_bound", "diag / random-unitary spectra with s_min in {0.1, 1, 10}; tol 1e-2..1e-8", "run to tolerance, compare ||X - A^+||_F with tol/s_min^2 (A^+ from the spectral data)"))
    for (sv, tol) in (([1.0, 0.1], 1e-4), ([10.0, 20.0], 1e-2), ([10.0, 20.0], 1e-6), ([3.0, 1.0, 0.5], 1e-8), ([1.0], 1e-3)):
        n = len(sv)
        A4, U4, V4 = rt.from_svd(rng, n + 1, n, sv)
        D = np.zeros((n, n + 1, 4))
        for i, s in enumerate(sv):
            D[i, i, 0] = 1.0 / s
        pinv = rt.qmm(rt.qmm(V4, D), rt.qH(U4))
        for kind, kw in (("ns", dict(gamma=0.5, compute_residuals=True)), ("ns", dict(gamma=0.5, compute_residuals=False)), ("hon", {})):
            def f(kind=kind, kw=kw):
                X, res, third = _solver(kind, max_iter=400, tol=tol, **kw).compute(rt.q_from4(A4))
                err = rt.fro(rt.q_to4(X) - pinv)
                bound = tol / min(sv) ** 2
                return None if err <= bound * (1 + 1e-6) + 1e-13 else {"what": "||X - A^+|| exceeds tol/s_min^2", "err": err, "bound": bound}
            b2.case(f"{P}.bounded.stop_bound.{kind}" + (".cov" if kw.get("compute_residuals") is False else ""), (kind, tuple(sv), tol, str(kw)), f,
                    f"{kind} {kw} svals {sv} tol {tol}", facts={"cov_stop": kw.get("compute_residuals") is False, "smin": min(sv)},
                    inputs={"A": A4, "tol": tol})
    b2.samples.append({"svals": [10.0, 20.0], "tol": 1e-2, "solver": "ns compute_residuals=False"})
    b2.done()


def run(tier, seed):
    rep = Report(P, tier, seed, "proof")
    rep.assumptions += [
        "A1: floats as reals; convergence 'to rounding' and monotonicity under rounding only in the bounded trajectories",
        "kernels quat_matmat / quat_hermitian / quat_frobenius_norm / quat_eye are used through their contracts (proved in C01)",
        "A5 (cited): with X = p(A^H A) A^H and the spectral lemmas, t_i -> 1 on the non-zero singular values, hence X -> A^+ (uniqueness of the Penrose solution); sum over singular values of the per-value stop bound",
        "verbose=False (the verbose branches only print)",
    ]
    rep.trusted += ["qv engine", "z3 5.1 (nlsat for the scalar lemmas)", "library model"]
    deductive(rep, tier)
    bounded(rep, tier, seed)
    return rep


def replay(path):
    import json
    with open(path) as f:
        d = json.load(f)
    print(json.dumps({k: d[k] for k in ("property", "obligation", "text")}, indent=1))
    return run("quick", d.get("seed", 0)).finish()
