"""C18 - tensor unfold/fold and colour <-> quaternion mappings are lossless.

Deductive part (index-level domain, symbolic I, J, K, H, W >= 1):
  unfold    shape (dim_n, product of the others); column enc(other indices) is the mode-n fibre
            (structural mixed-radix decoding of the reshape, which is the row-major bijection by axiom);
  fold      fold(unfold(T, n), n, shape)[i,j,k] = T[i,j,k] for n = 0,1,2 (composition);
            fold alone reads M[i_n, enc(others)];  guards of both functions;
  colour    rgb_to_quat / quat_to_rgb(clip=False) and split/stack are exact inverses (pointwise);
            with clip=True the round trip is the identity only where the heuristic does not change
            values (known finding);
  metrics   psnr = inf and relative_error = 0 on equal arrays, finite / positive otherwise (free
            algebra); add_awgn_snr draws N(0, sigma) with  size*sigma^2 = power/snr  and adds it.
Bounded stand-in: all shapes <= 4 incl. singletons against an index-level definition."""
from __future__ import annotations

import itertools
import math
from fractions import Fraction

import numpy as np
import z3

from .. import idx as ix
from .. import nc as ncm
from .. import smt
from ..core import Bounded, Obligation, Report, run_case
from ..libmodel import Library
from ..sym import SInt, SReal, SBool, cur, sand, snot, sor, ssqrt, spow
from ..values import RMat, fresh_rmat
from .c01 import dims

P = "C18"
T = "quatica/tensor.py::"
Q = "quatica/qslst.py::"


def others(mode):
    return [a for a in range(3) if a != mode]


def deductive(rep: Report, tier):
    lib = lambda: Library("idx")
    for mode in range(3):
        o1, o2 = others(mode)

        def setup(I, ctx, mode=mode):
            d = dims(ctx, "I", "J", "K")
            Tn = ix.input_array("T", list(d), quat=True)
            return [Tn, mode], {}, (Tn, d)

        def post(I, ctx, outcome, val, aux, mode=mode, o1=o1, o2=o2):
            Tn, d = aux
            if outcome != "return" or not isinstance(val, ix.IArr):
                return [("returns", False)]
            out = [("returns", True), ("quat_dtype", val.quat)]
            out.append(("shape", len(val.shape) == 2 and sand(val.shape[0] == d[mode], val.shape[1] == d[o1] * d[o2])))
            idx = ix.fresh_indices(ctx, list(d))
            col = ix.Enc([(idx[o1], d[o1]), (idx[o2], d[o2])])
            out.append(("fibres_are_columns", val.at(idx[mode], col) == Tn.at(*idx)))
            return out
        run_case(rep, P, T + "tensor_unfold", f"mode{mode}", setup, post, lib=lib(), clauses=["returns", "quat_dtype", "shape", "fibres_are_columns"],
                 replay=replay_tensor)

        # fold alone
        def setup_f(I, ctx, mode=mode, o1=o1, o2=o2):
            d = dims(ctx, "I", "J", "K")
            M = ix.input_array("M", [d[mode], d[o1] * d[o2]], quat=True)
            return [M, mode, tuple(d)], {}, (M, d)

        def post_f(I, ctx, outcome, val, aux, mode=mode, o1=o1, o2=o2):
            M, d = aux
            if outcome != "return" or not isinstance(val, ix.IArr):
                return [("returns", False)]
            idx = ix.fresh_indices(ctx, list(d))
            shp = len(val.shape) == 3 and sand(*[val.shape[a] == d[a] for a in range(3)])
            return [("returns", True), ("shape", shp),
                    ("reads_row_major_column", val.at(*idx) == M.at(idx[mode], idx[o1] * d[o2] + idx[o2]))]
        run_case(rep, P, T + "tensor_fold", f"mode{mode}", setup_f, post_f, lib=lib(), clauses=["returns", "shape", "reads_row_major_column"],
                 replay=replay_tensor)

        # composition fold(unfold(T)) = T  (unfold's result is fed to fold; both real ASTs)
        def setup_c(I, ctx, mode=mode):
            d = dims(ctx, "I", "J", "K")
            Tn = ix.input_array("T", list(d), quat=True)
            M = I.call_qual(T + "tensor_unfold", Tn, mode)
            return [M, mode, tuple(d)], {}, (Tn, d)

        def post_c(I, ctx, outcome, val, aux):
            Tn, d = aux
            if outcome != "return" or not isinstance(val, ix.IArr):
                return [("returns", False)]
            idx = ix.fresh_indices(ctx, list(d))
            return [("returns", True), ("identity", val.at(*idx) == Tn.at(*idx))]
        run_case(rep, P, T + "tensor_fold", f"fold_unfold_mode{mode}", setup_c, post_c, lib=lib(), clauses=["returns", "identity"], replay=replay_tensor)

        # fold guard: inconsistent shape
        def setup_g(I, ctx, mode=mode, o1=o1, o2=o2):
            d = dims(ctx, "I", "J", "K")
            r, c = dims(ctx, "r", "c")
            ctx.assume(sor(r != d[mode], c != d[o1] * d[o2]), base=True)
            return [ix.input_array("M", [r, c], quat=True), mode, tuple(d)], {}, None
        run_case(rep, P, T + "tensor_fold", f"guard_shape_mode{mode}", setup_g,
                 lambda I, ctx, outcome, val, aux: [("raises_ValueError", outcome == "raise" and val.exc_type == "ValueError")], lib=lib(),
                 clauses=["raises_ValueError"])

    # guards of unfold / fold on bad mode, wrong order, wrong dtype
    def bad(name, qual, mk):
        def setup(I, ctx):
            return mk(I, ctx), {}, None
        run_case(rep, P, qual, name, setup, lambda I, ctx, outcome, val, aux: [("raises_ValueError", outcome == "raise" and val.exc_type == "ValueError")],
                 lib=lib(), clauses=["raises_ValueError"])
    bad("guard_mode", T + "tensor_unfold", lambda I, ctx: [ix.input_array("T", list(dims(ctx, "I", "J", "K")), quat=True), 3])
    bad("guard_mode_negative", T + "tensor_unfold", lambda I, ctx: [ix.input_array("T", list(dims(ctx, "I", "J", "K")), quat=True), -1])
    bad("guard_order", T + "tensor_unfold", lambda I, ctx: [ix.input_array("T", list(dims(ctx, "I", "J")), quat=True), 0])
    bad("guard_dtype", T + "tensor_unfold", lambda I, ctx: [ix.input_array("T", list(dims(ctx, "I", "J", "K"))), 0])

    def mk_fold_badmode(I, ctx):
        d = dims(ctx, "I", "J", "K")
        return [ix.input_array("M", [d[0], d[1] * d[2]], quat=True), 5, tuple(d)]
    bad("guard_mode", T + "tensor_fold", mk_fold_badmode)

    # --------------------------- colour helpers ---------------------------------------------------------
    def setup_rgb(I, ctx):
        H, W = dims(ctx, "H", "W")
        rgb = ix.input_array("rgb", [H, W, 3])
        rp = SReal.var("real_part")
        return [rgb, rp], {}, (rgb, rp, H, W)

    def post_rgb(I, ctx, outcome, val, aux):
        rgb, rp, H, W = aux
        if outcome != "return" or not isinstance(val, ix.IArr):
            return [("returns", False)]
        (h, w, c) = ix.fresh_indices(ctx, [H, W, 3])
        return [("returns", True), ("shape", len(val.shape) == 3 and sand(val.shape[0] == H, val.shape[1] == W, val.shape[2] == 4)),
                ("real_part", val.at(h, w, 0) == rp), ("colour_channels", val.at(h, w, c + 1) == rgb.at(h, w, c))]
    run_case(rep, P, Q + "rgb_to_quat", "", setup_rgb, post_rgb, lib=lib(), clauses=["returns", "shape", "real_part", "colour_channels"], replay=replay_colour)

    for clip in (False, True):
        def setup_rt(I, ctx, clip=clip):
            H, W = dims(ctx, "H", "W")
            rgb = ix.input_array("rgb", [H, W, 3])
            q = I.call_qual(Q + "rgb_to_quat", rgb, SReal.var("real_part"))
            return [q], {"clip": clip}, (rgb, H, W)

        def post_rt(I, ctx, outcome, val, aux, clip=clip):
            rgb, H, W = aux
            if outcome != "return" or not isinstance(val, ix.IArr):
                return [("returns", False)]
            idx = ix.fresh_indices(ctx, [H, W, 3])
            ix.instantiate_bounds(ctx, idx)
            out = [("returns", True), ("shape", len(val.shape) == 3 and sand(val.shape[0] == H, val.shape[1] == W, val.shape[2] == 3))]
            v, r = val.at(*idx), rgb.at(*idx)
            if clip:
                out.append(("identity_on_unit_range", sor(snot(sand(r >= 0, r <= 1)), v == r)))
                out.append(("identity", v == r))
            else:
                out.append(("identity", v == r))
            return out
        run_case(rep, P, Q + "quat_to_rgb", "roundtrip_clip" if clip else "roundtrip_noclip", setup_rt, post_rt, lib=lib(),
                 clauses=["returns", "shape", "identity"] + (["identity_on_unit_range"] if clip else []), replay=replay_colour)

    def setup_split(I, ctx):
        H, W = dims(ctx, "H", "W")
        q = ix.input_array("q", [H, W, 4])
        parts = I.call_qual(Q + "split_quat_channels", q)
        return list(parts), {}, (q, H, W)

    def post_split(I, ctx, outcome, val, aux):
        q, H, W = aux
        if outcome != "return" or not isinstance(val, ix.IArr):
            return [("returns", False)]
        idx = ix.fresh_indices(ctx, [H, W, 4])
        return [("returns", True), ("shape", len(val.shape) == 3 and sand(val.shape[0] == H, val.shape[1] == W, val.shape[2] == 4)),
                ("stack_of_split_identity", val.at(*idx) == q.at(*idx))]
    run_case(rep, P, Q + "stack_quat_channels", "stack_split", setup_split, post_split, lib=lib(), clauses=["returns", "shape", "stack_of_split_identity"],
             replay=replay_colour)

    def setup_split2(I, ctx):
        H, W = dims(ctx, "H", "W")
        parts = [ix.input_array(f"c{k}", [H, W]) for k in range(4)]
        q = I.call_qual(Q + "stack_quat_channels", *parts)
        return [q], {}, (parts, H, W)

    def post_split2(I, ctx, outcome, val, aux):
        parts, H, W = aux
        if outcome != "return" or not (isinstance(val, tuple) and len(val) == 4):
            return [("returns4", False)]
        idx = ix.fresh_indices(ctx, [H, W])
        return [("returns4", True)] + [(f"split_of_stack_identity{k}", isinstance(val[k], ix.IArr) and val[k].at(*idx) == parts[k].at(*idx)) for k in range(4)]
    run_case(rep, P, Q + "split_quat_channels", "split_stack", setup_split2, post_split2, lib=lib(),
             clauses=["returns4"] + [f"split_of_stack_identity{k}" for k in range(4)], replay=replay_colour)

    # --------------------------- metrics (free algebra) ---------------------------------------------------
    nclib = Library("nc")

    def setup_eq(I, ctx):
        m, n = dims(ctx, "m", "n")
        x = fresh_rmat("x", m, n)
        return [x, x], {}, x

    def setup_ne(I, ctx):
        m, n = dims(ctx, "m", "n")
        x, y = fresh_rmat("x", m, n), fresh_rmat("y", m, n)
        ctx.assume(ncm.fro2(x.p - y.p) > 0, base=True)      # A5: x != y  <=>  ||x - y||_F > 0
        return [x, y], {}, (x, y)
    run_case(rep, P, Q + "psnr", "equal_arrays", setup_eq, lambda I, ctx, outcome, val, aux: [("infinite", outcome == "return" and val == math.inf)],
             lib=nclib, clauses=["infinite"], replay=replay_metrics)
    run_case(rep, P, Q + "psnr", "different_arrays", setup_ne,
             lambda I, ctx, outcome, val, aux: [("finite", outcome == "return" and isinstance(val, (SReal, Fraction)))], lib=nclib, clauses=["finite"], replay=replay_metrics)
    run_case(rep, P, Q + "relative_error", "equal_arrays", setup_eq,
             lambda I, ctx, outcome, val, aux: [("zero", outcome == "return" and not isinstance(val, float) and val == 0)], lib=nclib, clauses=["zero"],
             replay=replay_metrics)

    def post_re_ne(I, ctx, outcome, val, aux):
        if outcome != "return":
            return [("positive", False)]
        if isinstance(val, float):
            return [("positive", val == math.inf)]
        return [("positive", val > 0)]
    run_case(rep, P, Q + "relative_error", "different_arrays", setup_ne, post_re_ne, lib=nclib, clauses=["positive"], replay=replay_metrics)

    class Rng:
        qv_value = True

        def __init__(self):
            self.calls = []

        def normal(self, mu, sigma, size=None):
            self.calls.append((mu, sigma, size))
            return fresh_rmat("noise", size[0], size[1])

        def has_attr(self, name):
            return name == "normal"

    def setup_awgn(I, ctx):
        m, n = dims(ctx, "m", "n")
        Qm = fresh_rmat("Q", m, n)
        rng = Rng()
        snr_db = SReal.var("snr_db")
        return [Qm, snr_db, rng], {}, (Qm, snr_db, rng, m, n)

    def post_awgn(I, ctx, outcome, val, aux):
        Qm, snr_db, rng, m, n = aux
        if outcome != "return":
            return [("returns", False)]
        power = ncm.fro2(Qm.p)
        zero = ctx.valid(power == 0)
        if zero is True:
            return [("returns", True), ("zero_signal_unchanged", isinstance(val, RMat) and not rng.calls), ("zero_signal_value", val.p, Qm.p)]
        out = [("returns", True), ("one_draw", len(rng.calls) == 1)]
        if len(rng.calls) == 1:
            mu, sigma, size = rng.calls[0]
            snr = spow(Fraction(10), snr_db / 10)
            out.append(("zero_mean", mu == 0))
            out.append(("noise_power", sand(sigma >= 0, sigma * sigma * (m * n) * snr == power)))
            out.append(("additive", val.p, Qm.p + ncm.NC.atom(ncm.ATOMS["noise"])))
        return out
    run_case(rep, P, Q + "add_awgn_snr", "", setup_awgn, post_awgn, lib=nclib,
             clauses=["returns", "one_draw", "zero_mean", "noise_power", "additive", "zero_signal_unchanged", "zero_signal_value"], replay=replay_metrics)

    # encode/decode lemma behind 'unfolding is a bijection of entries' (LIA with one symbolic radix)
    j, k, j2, k2, K = z3.Ints("j k j2 k2 K")
    v = smt.prove([K >= 1, k >= 0, k < K, k2 >= 0, k2 < K, j >= 0, j2 >= 0, j * K + k == j2 * K + k2], z3.And(j == j2, k == k2), 20)
    rep.add(Obligation(f"{P}.lemma.row_major_injective", "spec", "all-shapes", v.status, v.backend, v.secs, v.model, kind="lemma"))
    rep.canary("C18.canary.column_major_is_not_row_major",
               smt.prove([K >= 2, k >= 0, k < K, j >= 0], j * K + k == k * K + j, 5).status == smt.REFUTED)


# ---------------------------------------------------------------------------------------------------
def _unfold_def(T4, mode):
    """Index-level definition: column (row-major over the remaining axes in increasing order) = mode-n fibre."""
    d = T4.shape[:3]
    o1, o2 = others(mode)
    M = np.zeros((d[mode], d[o1] * d[o2], 4))
    for idx in itertools.product(*[range(x) for x in d]):
        M[idx[mode], idx[o1] * d[o2] + idx[o2]] = T4[idx]
    return M


def _check_tensor(T4):
    from .. import runtime as rt
    t = rt.real().tensor
    for lay in ("C", "view"):
        Tq = rt.q_from4(T4.reshape(-1, 1, 4)).reshape(T4.shape[:3])
        if lay == "view":
            Tq = np.transpose(rt.q_from4(np.transpose(T4, (2, 1, 0, 3)).reshape(-1, 1, 4)).reshape(T4.shape[2], T4.shape[1], T4.shape[0]), (2, 1, 0))
        for mode in range(3):
            M = t.tensor_unfold(Tq, mode)
            want = _unfold_def(T4, mode)
            got = rt.q_to4(M)
            if got.shape != want.shape or not np.array_equal(got, want):
                return {"what": f"unfold mode {mode} ({lay}) differs from the fibre definition", "got": got, "want": want}
            back = t.tensor_fold(M, mode, T4.shape[:3])
            if back.shape != Tq.shape or rt.q_to4(back).tobytes() != T4.astype(float).tobytes():
                return {"what": f"fold(unfold) mode {mode} ({lay}) is not the identity"}
            if not (abs(rt.real().utils.quat_frobenius_norm(M) - t.tensor_frobenius_norm(Tq)) <= 1e-12 * max(1, rt.fro(T4))):
                return {"what": "unfolding changed the Frobenius norm"}
            if not np.array_equal(np.sort(t.tensor_entrywise_abs(Tq).ravel()), np.sort(np.abs(M).ravel())):
                return {"what": "unfolding changed the multiset of moduli"}
    return None


def replay_tensor(seed):
    rng = np.random.default_rng(seed)
    for shp in ((2, 3, 4), (1, 3, 2), (3, 1, 1), (2, 2, 3)):
        T4 = rng.integers(-4, 5, size=shp + (4,)).astype(float)
        try:
            res = _check_tensor(T4)
        except Exception as e:
            res = {"exception": f"{type(e).__name__}: {e}"}
        if res:
            res.update({"failed": True, "T": T4})
            return res
    return {"failed": False}


def _check_colour(rgb, real_part):
    from .. import runtime as rt
    q = rt.real().qslst
    qi = q.rgb_to_quat(rgb, real_part=real_part)
    if qi.shape != rgb.shape[:2] + (4,) or not np.array_equal(qi[..., 1:], rgb.astype(float)) or not np.all(qi[..., 0] == real_part):
        return {"what": "rgb_to_quat layout"}
    back = q.quat_to_rgb(qi, clip=False)
    if not np.array_equal(back, rgb.astype(float)):
        return {"what": "quat_to_rgb(rgb_to_quat(x), clip=False) != x"}
    back = q.quat_to_rgb(qi)
    if not np.array_equal(back, rgb.astype(float)):
        return {"what": "quat_to_rgb(rgb_to_quat(x)) != x with the default clip", "min": float(rgb.min()), "max": float(rgb.max())}
    parts = q.split_quat_channels(qi)
    if not np.array_equal(q.stack_quat_channels(*parts), qi):
        return {"what": "stack(split(q)) != q"}
    return None


def replay_colour(seed):
    rng = np.random.default_rng(seed)
    for shp in ((2, 3), (1, 1), (4, 2)):
        rgb = rng.random(shp + (3,))
        try:
            res = _check_colour(rgb, float(rng.standard_normal()))
        except Exception as e:
            res = {"exception": f"{type(e).__name__}: {e}"}
        if res:
            res.update({"failed": True, "rgb": rgb})
            return res
    return {"failed": False}


def _check_metrics(x, y):
    from .. import runtime as rt
    q = rt.real().qslst
    if not math.isinf(q.psnr(x, x.copy())) or q.psnr(x, x.copy()) < 0:
        return {"what": "psnr of equal arrays is not +inf"}
    if q.relative_error(x, x.copy()) != 0.0:
        return {"what": "relative_error of equal arrays is not 0", "got": q.relative_error(x, x.copy())}
    if not np.array_equal(x, y):
        if math.isinf(q.psnr(x, y)):
            return {"what": "psnr of different arrays is inf"}
        if not q.relative_error(x, y) > 0:
            return {"what": "relative_error of different arrays is not positive"}
    return None


def replay_metrics(seed):
    rng = np.random.default_rng(seed)
    base = rng.random((3, 3))
    tiny = base.copy()
    tiny[0, 2] += 1e-7
    for x, y in ((np.zeros((2, 2)), np.zeros((2, 2))), (rng.random((3, 2)), rng.random((3, 2))), (np.ones((1, 1)), np.zeros((1, 1))),
                 (tiny, base), (base * 1e-6, base[::-1] * 1e-6)):
        try:
            res = _check_metrics(x, y)
        except Exception as e:
            res = {"exception": f"{type(e).__name__}: {e}"}
        if res:
            res.update({"failed": True, "x": x, "y": y})
            return res
    return {"failed": False}


def bounded(rep: Report, tier, seed):
    from .. import runtime as rt
    rng = np.random.default_rng(seed)
    mx = 3 if tier == "quick" else 4
    b = rep.add_bounded(Bounded("tensor_shapes", f"all shapes I,J,K <= {mx} (singletons included), modes 0..2, contiguous and transposed-view inputs",
                                "integer tensors with distinct entries compared with the index-level fibre definition; fold(unfold) byte-identical"))
    for shp in itertools.product(range(1, mx + 1), repeat=3):
        T4 = np.arange(np.prod(shp) * 4, dtype=float).reshape(shp + (4,)) + 1
        b.case(f"{P}.bounded.tensor", shp, lambda T4=T4: _check_tensor(T4), f"unfold/fold on shape {shp}", inputs={"shape": shp})
    b.samples.append({"shape": [2, 3, 4], "mode": 1, "expected_column_of_T[:,j,k]": "i*K + k for fibre index (i,k)"})
    b.done()
    b2 = rep.add_bounded(Bounded("colour_and_metrics", "images <= 4x4; value ranges [0,1], [-0.5,1.5], [0,255], negative; zero images",
                                 "round trips against the index-level definition; metrics zero-consistency; AWGN noise power over 200 draws within 25%"))
    for (lo, hi) in ((0.0, 1.0), (-0.4, 1.4), (0.0, 255.0), (-3.0, -1.0), (0.2, 0.2)):
        for shp in ((1, 1), (2, 3), (4, 4)):
            rgb = lo + (hi - lo) * rng.random(shp + (3,))
            b2.case(f"{P}.bounded.colour", (lo, hi, shp), lambda rgb=rgb: _check_colour(rgb, 0.25), f"colour round trip on range [{lo},{hi}] shape {shp}",
                    facts={"min": float(rgb.min()), "max": float(rgb.max())}, inputs={"rgb": rgb})
    base = rng.random((3, 3))
    tiny = base.copy()
    tiny[1, 1] += 1e-7
    for x, y in ((np.zeros((2, 2)), np.zeros((2, 2))), (rng.random((3, 2)), rng.random((3, 2))), (np.ones((1, 1)), np.zeros((1, 1))),
                 (np.zeros((2, 3)), rng.random((2, 3))), (rng.random((2, 2, 4)), rng.random((2, 2, 4))),
                 (tiny, base), (base * 1e-6, base[::-1] * 1e-6), (base * 1e6, tiny * 1e6), (np.array([[1e-9]]), np.array([[0.0]]))):
        b2.case(f"{P}.bounded.metrics", (x.shape, float(x.sum()), float(y.sum())), lambda x=x, y=y: _check_metrics(x, y), "metric zero-consistency", inputs={"x": x, "y": y})

    def awgn():
        q = rt.real().qslst
        Qi = rng.random((8, 8, 4))
        g = np.random.default_rng(seed + 1)
        for snr_db in (0.0, 10.0, 30.0):
            ratios = []
            for _ in range(200 if tier == "thorough" else 60):
                N = q.add_awgn_snr(Qi, snr_db, rng=g) - Qi
                ratios.append(np.sum(Qi ** 2) / np.sum(N ** 2))
            got = 10 * np.log10(np.mean(ratios))
            if not (abs(got - snr_db) <= 1.0):
                return {"what": "measured SNR off by more than 1 dB", "snr_db": snr_db, "measured": got}
        if not np.array_equal(q.add_awgn_snr(np.zeros((2, 2, 4)), 10.0, rng=g), np.zeros((2, 2, 4))):
            return {"what": "noise added to the zero image"}
        return None
    b2.case(f"{P}.bounded.awgn", ("awgn",), awgn, "AWGN noise power")
    b2.samples.append({"range": [-0.4, 1.4], "shape": [2, 3], "check": "quat_to_rgb(rgb_to_quat(x)) == x"})
    b2.done()


def run(tier, seed):
    rep = Report(P, tier, seed, "proof")
    rep.assumptions += [
        "A3: numpy reshape is the row-major bijection and np.transpose an index permutation (axioms of the array model); np.stack(axis=-1) stacks along a new last axis",
        "A5: x != y <=> ||x - y||_F > 0 (positivity of the norm) for the 'only if' directions of the metric clauses",
        "noise injection 'in expectation' is probabilistic: the contract proves the variance handed to the generator; the statistical clause is sampled",
    ]
    rep.trusted += ["qv engine (idx.py mixed-radix indices)", "z3 5.1", "library model"]
    deductive(rep, tier)
    bounded(rep, tier, seed)
    return rep


def replay(path):
    import json
    with open(path) as f:
        d = json.load(f)
    print(json.dumps({k: d[k] for k in ("property", "obligation", "text")}, indent=1))
    return run("quick", d.get("seed", 0)).finish()
