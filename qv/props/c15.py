"""C15 - matrix norms equal their definitions and all Frobenius entry points agree.

Deductive part:
  * induced 1- / infinity-norm: fold rule with ghost partial sums CS(j,i) and running maxima PM(j)
    (recursive definitions of  max_j sum_i |a_ij|), for all shapes;
  * quat_abs_scalar = sqrt(w^2+x^2+y^2+z^2); tensor_entrywise_abs pointwise;
  * Frobenius entry points (matrix_norm default, normQ, normQsparse dense/sparse, tensor norm) all reduce
    to sqrt(sum_c sumsq(A_c)) in the free algebra; column stacking in normQsparse does not change it;
  * dispatcher table of matrix_norm: every accepted spelling reaches the right callee (callees by
    contract), anything else raises ValueError; dtype guards;
  * spectral norm delegates to the largest singular value of the (assumed) Q-SVD contract;
  * homogeneity of the definitions (z3).
Triangle inequality, sub-multiplicativity and the cross-norm inequalities are cited lemmas once the
code equals the definitions; they are sampled in the bounded stand-in."""
from __future__ import annotations

import itertools
import math
import time
from fractions import Fraction

import numpy as np
import z3

from .. import idx as ix
from .. import nc as ncm
from .. import smt
from ..core import Bounded, Obligation, Report, run_case
from ..kernels import ALGEBRA
from ..libmodel import Library
from ..rules import FunctionalInv
from ..sym import SInt, SReal, SBool, cur, sand, snot, sor, ssqrt, smax
from ..values import HMat, QMat, RMat, fresh_qmat, fresh_rmat
from .c01 import dims, mk_sparse, comps_of

P = "C15"
U = "quatica/utils.py::"
T = "quatica/tensor.py::"


def k_abs_scalar(I, args, kwargs):
    (q,) = args
    return ssqrt(ix.QScal.lift(q).norm2())


def deductive(rep: Report, tier):
    lib = lambda: Library("idx")
    # quat_abs_scalar body
    def setup_abs(I, ctx):
        q = ix.QScal(*[SReal.var(n) for n in ("qw", "qx", "qy", "qz")])
        return [q], {}, q
    run_case(rep, P, U + "quat_abs_scalar", "", setup_abs,
             lambda I, ctx, outcome, val, q: [("spec", outcome == "return" and val == ssqrt(q.norm2()))], lib=lib(), clauses=["spec"], replay=replay_norm)

    # induced norms by the fold rule
    for fn, by_col in (("induced_matrix_norm_1", True), ("induced_matrix_norm_inf", False)):
        CS = z3.Function("CS", z3.IntSort(), z3.IntSort(), z3.RealSort())   # partial sums
        PM = z3.Function("PM", z3.IntSort(), z3.RealSort())                 # running maximum
        acc, mx, outer_v, inner_v = ("col_sum", "max_col_sum", "j", "i") if by_col else ("row_sum", "max_row_sum", "i", "j")

        def entry(A, o, i):
            return A.at(i, o) if by_col else A.at(o, i)

        def inner_assume(it, fr, k, CS=CS, entry=entry, outer_v=outer_v):
            A, o = fr.vars["A"], fr.vars[outer_v]
            c = cur()
            c.assume(CS(SInt.lift(o), 0) == 0)
            c.assume(CS(SInt.lift(o), SInt.lift(k) + 1) == CS(SInt.lift(o), SInt.lift(k)) + SReal.lift(abs(entry(A, o, k))))

        def outer_assume(it, fr, k, CS=CS, PM=PM, by_col=by_col):
            A = fr.vars["A"]
            L = A.shape[0] if by_col else A.shape[1]
            c = cur()
            c.assume(PM(0) == 0)
            csk = CS(SInt.lift(k), SInt.lift(L))
            c.assume(PM(SInt.lift(k) + 1) == z3.If(csk > PM(SInt.lift(k)), csk, PM(SInt.lift(k))))
            c.assume(CS(SInt.lift(k), 0) == 0)
        rules = {(U + fn, 0): FunctionalInv(scalars={mx: lambda it, fr, k, PM=PM: SReal.mk(PM(SInt.lift(k)))}, assume=outer_assume, tag="outer."),
                 (U + fn, 1): FunctionalInv(scalars={acc: lambda it, fr, k, CS=CS, outer_v=outer_v: SReal.mk(CS(SInt.lift(fr.vars[outer_v]), SInt.lift(k)))},
                                            assume=inner_assume, tag="inner.")}

        def setup(I, ctx):
            m, n = dims(ctx, "m", "n")
            A = ix.input_array("A", [m, n], quat=True)
            return [A], {}, (A, m, n)

        def post(I, ctx, outcome, val, aux, PM=PM, by_col=by_col):
            A, m, n = aux
            if outcome != "return":
                return [("returns", False)]
            N = n if by_col else m
            return [("returns", True), ("definition", val == SReal.mk(PM(SInt.lift(N))))]
        run_case(rep, P, U + fn, "", setup, post, lib=lib(), loop_rules=rules, contracts={U + "quat_abs_scalar": k_abs_scalar},
                 clauses=["returns", "definition"], replay=replay_norm, timeout_s=20)

        def setup_g(I, ctx):
            m, n = dims(ctx, "m", "n")
            return [ix.input_array("A", [m, n])], {}, None
        run_case(rep, P, U + fn, "guard_dtype", setup_g,
                 lambda I, ctx, outcome, val, aux: [("raises_ValueError", outcome == "raise" and val.exc_type == "ValueError")], lib=lib(), clauses=["raises_ValueError"])

    # tensor_entrywise_abs pointwise, all shapes
    def setup_ta(I, ctx):
        a, b, c = dims(ctx, "I", "J", "K")
        Tn = ix.input_array("T", [a, b, c], quat=True)
        return [Tn], {}, (Tn, a, b, c)

    def post_ta(I, ctx, outcome, val, aux):
        Tn, a, b, c = aux
        if outcome != "return" or not isinstance(val, ix.IArr):
            return [("returns", False)]
        (i, j, k) = ix.fresh_indices(ctx, [a, b, c])
        return [("returns", True), ("shape", sand(val.shape[0] == a, val.shape[1] == b, val.shape[2] == c) if len(val.shape) == 3 else False),
                ("pointwise_modulus", val.at(i, j, k) == ssqrt(Tn.at(i, j, k).norm2()))]
    run_case(rep, P, T + "tensor_entrywise_abs", "", setup_ta, post_ta, lib=lib(), clauses=["returns", "shape", "pointwise_modulus"], replay=replay_norm)

    # Frobenius entry points in the free algebra
    nclib = Library("nc")

    def fro_def(A):
        tot = Fraction(0)
        for c in comps_of(A):
            tot = tot + ncm.fro2(c.p)
        return ssqrt(tot)

    def setup_dense(I, ctx):
        m, n = dims(ctx, "m", "n")
        A = fresh_qmat("A", m, n)
        return [A], {}, A

    def post_fro(I, ctx, outcome, val, A):
        return [("equals_definition", outcome == "return" and val == fro_def(A))]
    run_case(rep, P, T + "tensor_frobenius_norm", "", setup_dense, post_fro, lib=nclib, clauses=["equals_definition"], replay=replay_norm)
    run_case(rep, P, U + "normQ", "fro", setup_dense, post_fro, lib=nclib, clauses=["equals_definition"], replay=replay_norm,
             contracts={U + "quat_frobenius_norm": ALGEBRA[U + "quat_frobenius_norm"]})
    run_case(rep, P, U + "matrix_norm", "default_is_fro", setup_dense, post_fro, lib=nclib, clauses=["equals_definition"], replay=replay_norm,
             contracts={U + "quat_frobenius_norm": ALGEBRA[U + "quat_frobenius_norm"]})
    for st in ("dense", "csr"):
        def setup_q(I, ctx, st=st):
            m, n = dims(ctx, "m", "n")
            A = [fresh_rmat(f"A{i}", m, n, storage=st) for i in range(4)]
            return A, {}, A

        def post_q(I, ctx, outcome, val, A):
            tot = Fraction(0)
            for c in A:
                tot = tot + ncm.fro2(c.p)
            return [("equals_definition", outcome == "return" and val == ssqrt(tot))]
        run_case(rep, P, U + "normQsparse", f"fro_{st}", setup_q, post_q, lib=nclib, clauses=["equals_definition"], replay=replay_norm)

    # dispatcher table (callees by contract: they return a tag)
    tag = lambda name: (lambda I, args, kwargs: ("CALLED", name, args[0]))
    stubs = {U + "quat_frobenius_norm": tag("fro"), U + "induced_matrix_norm_1": tag("one"), U + "induced_matrix_norm_inf": tag("inf"),
             U + "spectral_norm_2": tag("two")}
    table = [(None, "fro"), ("fro", "fro"), ("F", "fro"), (1, "one"), (2, "two"), (math.inf, "inf"), ("inf", "inf"),
             ("nuc", None), (3, None), (-1, None), ("Fro", None), (-math.inf, None), ("1", None), (0, None),
             (Fraction(3, 2), None), (Fraction(5, 2), None), (Fraction(1, 2), None)]
    for ordv, want in table:
        def setup_d(I, ctx, ordv=ordv):
            m, n = dims(ctx, "m", "n")
            A = fresh_qmat("A", m, n)
            return [A, ordv], {}, A

        def post_d(I, ctx, outcome, val, A, want=want):
            if want is None:
                return [("rejected_ValueError", outcome == "raise" and val.exc_type == "ValueError")]
            return [("dispatch", outcome == "return" and isinstance(val, tuple) and val[:2] == ("CALLED", want) and val[2] is A)]
        run_case(rep, P, U + "matrix_norm", f"ord={ordv!r}", setup_d, post_d, lib=nclib, contracts=stubs,
                 clauses=["rejected_ValueError" if want is None else "dispatch"], replay=replay_dispatch)

    # spectral norm: largest singular value of the Q-SVD contract
    def k_qsvd_full(I, args, kwargs):
        (A,) = args
        m, n = A.shape
        r = sym_min(m, n)
        s = ix.input_array("sv", [r])
        s.sorted_desc = True            # assumed LAPACK/Q-SVD contract: non-increasing
        cur().ghost["sv"] = s
        return (ix.input_array("Uq", [m, m], quat=True), s, ix.input_array("Vq", [n, n], quat=True))

    def setup_2(I, ctx):
        m, n = dims(ctx, "m", "n")
        A = ix.input_array("A", [m, n], quat=True)
        return [A], {}, (A, m, n)

    def post_2(I, ctx, outcome, val, aux):
        s = ctx.ghost.get("sv")
        if outcome != "return" or s is None:
            return [("returns", False)]
        return [("returns", True), ("largest_singular_value", val == s.at(0))]
    run_case(rep, P, U + "spectral_norm_2", "", setup_2, post_2, lib=lib(), clauses=["returns", "largest_singular_value"],
             contracts={"quatica/decomp/qsvd.py::classical_qsvd_full": k_qsvd_full}, replay=replay_norm)

    def setup_2g(I, ctx):
        m, n = dims(ctx, "m", "n")
        return [ix.input_array("A", [m, n])], {}, None
    run_case(rep, P, U + "spectral_norm_2", "guard_dtype", setup_2g,
             lambda I, ctx, outcome, val, aux: [("raises_ValueError", outcome == "raise" and val.exc_type == "ValueError")], lib=lib(),
             clauses=["raises_ValueError"], contracts={"quatica/decomp/qsvd.py::classical_qsvd_full": k_qsvd_full})

    # homogeneity of the definitions (spec-level lemmas)
    a, b, c, d, t = z3.Reals("a b c d t")
    s1, s2 = z3.Reals("s1 s2")
    v = smt.prove([s1 >= 0, s1 * s1 == a * a + b * b + c * c + d * d, s2 >= 0, s2 * s2 == (t * a) ** 2 + (t * b) ** 2 + (t * c) ** 2 + (t * d) ** 2],
                  s2 == z3.If(t >= 0, t, -t) * s1, 20)
    rep.add(Obligation(f"{P}.lemma.modulus_homogeneous", "spec", "all-shapes", v.status, v.backend, v.secs, v.model, kind="lemma"))
    x, y, u, w = z3.Reals("x y u w")
    v = smt.prove([t >= 0, x >= 0, y >= 0], z3.If(t * x > t * y, t * x, t * y) == t * z3.If(x > y, x, y), 20)
    rep.add(Obligation(f"{P}.lemma.max_homogeneous", "spec", "all-shapes", v.status, v.backend, v.secs, v.model, kind="lemma"))
    # canary: a running maximum that forgets one column must not satisfy the definition
    v = smt.prove([x >= 0, y >= 0], z3.If(x > y, x, y) == x, 5)
    rep.canary("C15.canary.max_is_first", v.status == smt.REFUTED)


def sym_min(a, b):
    from ..sym import smin
    return smin(a, b)


# ---------------------------------------------------------------------------------------------------
def _defs(A4):
    mod = np.sqrt(np.sum(A4 ** 2, axis=-1))
    return {"fro": float(np.sqrt(np.sum(A4 ** 2))), "one": float(mod.sum(axis=0).max()) if mod.size else 0.0,
            "inf": float(mod.sum(axis=1).max()) if mod.size else 0.0}


def _check_norms(A4):
    from .. import runtime as rt
    r = rt.real()
    u = r.utils
    Q = rt.q_from4(A4)
    d = _defs(A4)
    s2 = float(rt.singular_values(A4)[0]) if min(A4.shape[:2]) else 0.0
    tol = 1e-12 * max(1.0, d["fro"])
    got = {
        "matrix_norm()": u.matrix_norm(Q), "matrix_norm('fro')": u.matrix_norm(Q, "fro"), "matrix_norm('F')": u.matrix_norm(Q, "F"),
        "quat_frobenius_norm": u.quat_frobenius_norm(Q), "quat_frobenius_norm(sparse)": u.quat_frobenius_norm(rt.sparse_from4(A4)),
        "normQ": u.normQ(Q), "normQsparse(dense)": u.normQsparse(*[A4[..., c].copy() for c in range(4)]),
        "tensor_frobenius_norm": r.tensor.tensor_frobenius_norm(Q.reshape(A4.shape[0], A4.shape[1], 1)),
    }
    from scipy import sparse
    got["normQsparse(csr)"] = u.normQsparse(*[sparse.csr_matrix(A4[..., c]) for c in range(4)])

    def split_coo(M):
        # the same matrix in non-canonical COO storage: every entry stored as two contributions M/2 + M/2 (exact in binary)
        r_, c_ = np.nonzero(M)
        v = M[r_, c_] / 2.0
        return sparse.coo_matrix((np.concatenate([v, v]), (np.concatenate([r_, r_]), np.concatenate([c_, c_]))), shape=M.shape)
    got["normQsparse(coo, entries stored as two contributions)"] = u.normQsparse(*[split_coo(A4[..., c]) for c in range(4)])
    if A4.shape[1] == 1:
        got["normQsparse(vector)"] = u.normQsparse(*[A4[:, 0, c].copy() for c in range(4)])
    for k, v in got.items():
        if not abs(float(v) - d["fro"]) <= tol:
            return {"what": f"{k} = {v} differs from the Frobenius definition {d['fro']}"}
    if not (abs(u.matrix_norm(Q, 1) - d["one"]) <= tol and abs(u.induced_matrix_norm_1(Q) - d["one"]) <= tol):
        return {"what": "1-norm differs from max column sum", "got": u.matrix_norm(Q, 1), "want": d["one"]}
    if not (abs(u.matrix_norm(Q, np.inf) - d["inf"]) <= tol and abs(u.matrix_norm(Q, "inf") - d["inf"]) <= tol):
        return {"what": "inf-norm differs from max row sum", "got": u.matrix_norm(Q, np.inf), "want": d["inf"]}
    n2 = u.matrix_norm(Q, 2)
    if not (abs(n2 - s2) <= 1e-9 * max(1.0, s2)):
        return {"what": "2-norm differs from the largest singular value", "got": n2, "want": s2}
    ab = r.tensor.tensor_entrywise_abs(Q.reshape(A4.shape[0], A4.shape[1], 1))[..., 0]
    if not np.allclose(ab, np.sqrt(np.sum(A4 ** 2, axis=-1)), atol=tol):
        return {"what": "tensor_entrywise_abs"}
    q = Q[0, 0]
    if not (abs(u.quat_abs_scalar(q) - math.sqrt(float(np.sum(A4[0, 0] ** 2)))) <= tol):
        return {"what": "quat_abs_scalar"}
    return None


def _check_laws(A4, B4, C4, t):
    """Norm axioms and cross-norm inequalities on a pair/triple (A, B same shape; C conformable)."""
    from .. import runtime as rt
    u = rt.real().utils
    Q = rt.q_from4
    eps = 1e-10
    for o in (None, 1, 2, np.inf):
        nA, nB = u.matrix_norm(Q(A4), o), u.matrix_norm(Q(B4), o)
        if not (abs(u.matrix_norm(Q(t * A4), o) - abs(t) * nA) <= eps * max(1, abs(t) * nA)):
            return {"what": f"homogeneity ord={o}"}
        if not (u.matrix_norm(Q(A4 + B4), o) <= (nA + nB) * (1 + eps) + 1e-13):
            return {"what": f"triangle inequality ord={o}"}
        nC = u.matrix_norm(Q(C4), o)
        if not (u.matrix_norm(Q(rt.qmm(A4, C4)), o) <= nA * nC * (1 + eps) + 1e-13):
            return {"what": f"sub-multiplicativity ord={o}"}
    n2, nf, n1, ni = (u.matrix_norm(Q(A4), o) for o in (2, None, 1, np.inf))
    rk = int(np.sum(rt.singular_values(A4) > 1e-10 * max(1.0, n2)))
    if not (n2 <= nf * (1 + eps) and nf <= math.sqrt(max(rk, 1)) * n2 * (1 + 1e-8) + 1e-13):
        return {"what": "||A||_2 <= ||A||_F <= sqrt(rank) ||A||_2", "n2": n2, "nf": nf, "rank": rk}
    if not (n2 * n2 <= n1 * ni * (1 + eps) + 1e-13):
        return {"what": "||A||_2^2 <= ||A||_1 ||A||_inf"}
    return None


def replay_norm(seed):
    rng = np.random.default_rng(seed)
    for (m, n) in ((2, 3), (3, 1), (1, 1), (4, 2)):
        A4 = rng.integers(-4, 5, size=(m, n, 4)).astype(float)
        try:
            res = _check_norms(A4)
        except Exception as e:
            res = {"exception": f"{type(e).__name__}: {e}"}
        if res:
            res.update({"failed": True, "A": A4})
            return res
    return {"failed": False}


def replay_dispatch(seed):
    from .. import runtime as rt
    u = rt.real().utils
    A4 = np.random.default_rng(seed).standard_normal((2, 3, 4))
    Q = rt.q_from4(A4)
    for bad in ("nuc", 3, -1, "Fro", -np.inf, "1", 0, 1.5, 2.5, 0.5, np.float32(1.9)):
        try:
            v = u.matrix_norm(Q, bad)
            return {"failed": True, "what": f"matrix_norm accepted ord={bad!r} and returned {v}"}
        except ValueError:
            pass
        except Exception as e:
            return {"failed": True, "what": f"ord={bad!r} raised {type(e).__name__} instead of ValueError"}
    return replay_norm(seed)


def bounded(rep: Report, tier, seed):
    rng = np.random.default_rng(seed)
    b = rep.add_bounded(Bounded("definitions", "shapes <= 5x5 rectangular; integer / Gaussian / sparse-pattern / single-column entries",
                                "every norm entry point compared with the definition evaluated by numpy on the component array; distinct by (shape, pattern, draw)"))
    shapes = [(1, 1), (1, 4), (4, 1), (2, 3), (3, 2), (3, 3)] + ([(5, 2), (2, 5), (5, 5), (4, 3)] if tier == "thorough" else [])
    for (m, n) in shapes:
        for pat in ("int", "gauss", "zeros", "axis"):
            for rpt in range(1 if tier == "quick" else 4):
                if pat == "int":
                    A4 = rng.integers(-5, 6, size=(m, n, 4)).astype(float)
                elif pat == "gauss":
                    A4 = rng.standard_normal((m, n, 4)) * 10.0 ** rng.integers(-3, 4)
                elif pat == "zeros":
                    A4 = rng.standard_normal((m, n, 4)) * (rng.random((m, n, 1)) < 0.4)
                else:
                    A4 = np.zeros((m, n, 4))
                    A4[..., int(rng.integers(0, 4))] = rng.standard_normal((m, n))
                b.case(f"{P}.bounded.definitions", (m, n, pat, rpt), lambda A4=A4: _check_norms(A4), f"norm definitions on a {m}x{n} {pat} matrix", inputs={"A": A4})
    b.samples.append({"shape": [2, 3], "pattern": "int", "entry_points": 13})
    b.done()
    b2 = rep.add_bounded(Bounded("norm_laws", "pairs/triples of shapes <= 4", "homogeneity, triangle inequality, sub-multiplicativity, ||.||_2<=||.||_F<=sqrt(rank)||.||_2, ||.||_2^2<=||.||_1||.||_inf"))
    for rpt in range(6 if tier == "quick" else 40):
        m, k, n = (int(x) for x in rng.integers(1, 5, size=3))
        A4, B4, C4 = rng.standard_normal((m, k, 4)), rng.standard_normal((m, k, 4)), rng.standard_normal((k, n, 4))
        if rpt % 3 == 0 and min(m, k) > 1:      # low rank
            A4 = __import__("qv.runtime", fromlist=["x"]).qmm(rng.standard_normal((m, 1, 4)), rng.standard_normal((1, k, 4)))
        t = float(rng.standard_normal() * 3)
        b2.case(f"{P}.bounded.norm_laws", (m, k, n, rpt), lambda: _check_laws(A4, B4, C4, t), "norm axiom / cross-norm inequality violated", inputs={"A": A4, "B": B4, "C": C4, "t": t})
    b2.samples.append({"law": "||A||_2^2 <= ||A||_1 ||A||_inf", "shape": [3, 4]})
    b2.done()
    b3 = rep.add_bounded(Bounded("dispatcher", "all ord spellings", "accepted spellings agree with the definitions; unknown ones raise ValueError"))
    b3.case(f"{P}.bounded.dispatcher", ("ords",), lambda: (lambda r: None if not r["failed"] else r)(replay_dispatch(seed)), "matrix_norm dispatcher")
    b3.distinct.add(("ords2",))
    b3.done()


def run(tier, seed):
    rep = Report(P, tier, seed, "proof")
    rep.assumptions += [
        "A1 floats as reals; A3 library model (np.hstack / np.linalg.norm 'fro' = sqrt(sumsq), additive over stacked parts)",
        "the Q-SVD contract (sorted non-negative singular values) is assumed for the spectral norm (C05); tensors are modelled rank-generically in the free-algebra domain",
        "A5 cited: triangle inequality, sub-multiplicativity and cross-norm inequalities hold for the definitions; sampled only",
    ]
    rep.trusted += ["qv engine", "z3 5.1", "library model"]
    deductive(rep, tier)
    bounded(rep, tier, seed)
    return rep


def replay(path):
    import json
    with open(path) as f:
        d = json.load(f)
    print(json.dumps({k: d[k] for k in ("property", "obligation", "text")}, indent=1))
    return run("quick", d.get("seed", 0)).finish()
