"""C17 - QSLST restoration solves the Tikhonov normal equations of the documented blur.

Deductive part (index-level domain, symbolic H, W, kH <= H, kW <= W):
  pad.centred     _pad_psf returns the centred periodic embedding  pad[p,q] = psf[(p+kH//2) mod H, (q+kW//2) mod W]
                  (zero where that index falls outside the kernel) - all sizes, all taps;
  blur.conv       every channel of apply_blur_fft is real(ifft2(fft2(Q_c) * fft2(pad))) for the pad above
                  (callee by contract), i.e. the circular convolution Q_c (*) pad by the DFT convolution
                  theorem (axiom A3); channels independent;
  fft.normal_eq   every channel of qslst_restore_fft is real(ifft2(X)) with (|h^|^2 + lam) X = conj(h^) b^
                  pointwise in the frequency domain (complex identity by z3), h^ = fft2(pad), b^ = fft2(B_c);
  matrix path     qslst_restore_matrix in the provenance domain, all image sizes: every channel is pinv(A^T A + lam I) applied to A^T b (row-major
                  flattening in and out, one T for the four channels); agreement with the FFT path and the accuracy of pinv on badly
                  conditioned invertible blurs at lam = 0 are bounded;
  builders        both BCCB builders of the deblurring application, all image sizes and kernels no larger than the image: nested-loop invariants
                  over lists described by ghost closed forms (dense: column (i,j) is the row-major vec of the padded kernel rolled by (i,j), so
                  A[p*W+q, i*W+j] = centred_psf[(p-i) mod H, (q-j) mod W]; sparse: a contract on the tap comprehension, one (row, column, weight)
                  triple per (pixel, non-zero tap) with weight = centred_psf at the periodic pixel difference, no two triples at one position, every
                  non-zero of the convolution matrix covered); scipy's COO->CSR assembly is assumed.  Agreement of the restorations through the
                  builders is bounded.
  generators      build_psf_gaussian, every radius and sigma > 0 (provenance domain): an array of positive entries divided by its own total, shape
                  (2r+1, 2r+1) - unit sum by linearity of the total; build_psf_motion (sampling loop with rounding) is bounded.
Bounded stand-in: impulse response / mass / path agreement on H,W <= 6, kernels <= image, odd/even, asymmetric."""
from __future__ import annotations

import ast
import itertools
import os
import math
import time
from fractions import Fraction

import numpy as np
import z3

from .. import idx as ix
from .. import nc as ncm
from .. import smt
from ..core import Bounded, Obligation, Report, run_case
from ..libmodel import Library
from ..sym import SInt, SReal, SBool, cur, sand, snot, sor, ssqrt
from ..sym import as_z3bool as sym_as_bool
from .c01 import dims

P = "C17"
Q = "quatica/qslst.py::"


def wrap(a, n):
    return ix.ite(a >= n, a - n, a)


def centred(psf, H, W, kH, kW):
    """The documented operator kernel: periodic embedding of psf centred on tap (kH//2, kW//2)."""
    kh2, kw2 = kH // 2, kW // 2

    def fn(vi):
        u, v = wrap(vi[0] + kh2, H), wrap(vi[1] + kw2, W)
        return ix.ite(sand(u < kH, v < kW), psf.at(ix.ite(u < kH, u, 0), ix.ite(v < kW, v, 0)), Fraction(0))
    return fn


def k_pad_psf(I, args, kwargs):
    psf, shape = args
    H, W = shape
    kH, kW = psf.shape
    return ix.IArr.from_fn([H, W], centred(psf, H, W, kH, kW))


def sizes(ctx):
    H, W, kH, kW = dims(ctx, "H", "W", "kH", "kW")
    ctx.assume(sand(kH <= H, kW <= W), base=True)
    return H, W, kH, kW


def _decl_index(term, prefix):
    """k of an application IFTk_re(...) / FTk_re(...)."""
    try:
        name = term.decl().name()
    except Exception:
        return None
    if name.startswith(prefix) and name.endswith("_re"):
        try:
            return int(name[len(prefix):-3])
        except ValueError:
            return None
    return None


def find_fwd(ctx, reg, want_fn, shape):
    """Index of the forward transform whose source equals want_fn pointwise (SMT)."""
    for k, e in enumerate(reg["fwd"]):
        if len(e["shape"]) != len(shape):
            continue
        idx = ix.fresh_indices(ctx, shape, "s")
        c = ix.scal_eq(e["src"](idx), want_fn(idx))
        if ctx.valid(c) is True:
            return k
    return None


def deductive(rep: Report, tier):
    lib = lambda: Library("idx")

    # ----------------------------------------------------------------------------- _pad_psf
    def setup_pad(I, ctx):
        H, W, kH, kW = sizes(ctx)
        psf = ix.input_array("psf", [kH, kW])
        return [psf, (H, W)], {}, (psf, H, W, kH, kW)

    def post_pad(I, ctx, outcome, val, aux):
        psf, H, W, kH, kW = aux
        if outcome != "return" or not isinstance(val, ix.IArr):
            return [("returns", False)]
        idx = ix.fresh_indices(ctx, [H, W])
        (u, v) = ix.fresh_indices(ctx, [kH, kW], "t")
        kh2, kw2 = kH // 2, kW // 2
        r = ix.ite(u - kh2 < 0, u - kh2 + H, u - kh2)
        c = ix.ite(v - kw2 < 0, v - kw2 + W, v - kw2)
        return [("returns", True), ("shape", len(val.shape) == 2 and sand(val.shape[0] == H, val.shape[1] == W)),
                ("centred", ix.scal_eq(val.at(*idx), centred(psf, H, W, kH, kW)(idx))),
                ("tap_lands_at_centred_offset", ix.scal_eq(val.at(r, c), psf.at(u, v)))]
    run_case(rep, P, Q + "_pad_psf", "", setup_pad, post_pad, lib=lib(), clauses=["returns", "shape", "centred", "tap_lands_at_centred_offset"],
             replay=replay_blur, timeout_s=30)

    # ----------------------------------------------------------------------------- apply_blur_fft
    def setup_blur(I, ctx):
        H, W, kH, kW = sizes(ctx)
        psf = ix.input_array("psf", [kH, kW])
        Qi = ix.input_array("Q", [H, W, 4])
        return [Qi, psf], {}, (Qi, psf, H, W, kH, kW)

    def post_blur(I, ctx, outcome, val, aux):
        Qi, psf, H, W, kH, kW = aux
        if outcome != "return" or not isinstance(val, ix.IArr):
            return [("returns", False)]
        reg = ctx.ghost.get("fft", {"fwd": [], "inv": []})
        out = [("returns", True), ("shape", len(val.shape) == 3 and sand(val.shape[0] == H, val.shape[1] == W, val.shape[2] == 4))]
        kpad = find_fwd(ctx, reg, centred(psf, H, W, kH, kW), [H, W])
        out.append(("transfer_function_of_centred_psf", kpad is not None))
        for c in range(4):
            (i, j) = ix.fresh_indices(ctx, [H, W])
            cell = val.at(i, j, c)
            k = _decl_index(cell.z, "IFT") if isinstance(cell, SReal) else None
            ok = k is not None and k < len(reg["inv"])
            out.append((f"channel{c}.is_real_part_of_inverse_transform", ok))
            if not ok or kpad is None:
                continue
            kq = find_fwd(ctx, reg, lambda vi, c=c: Qi.at(vi[0], vi[1], c), [H, W])
            out.append((f"channel{c}.transforms_own_channel", kq is not None))
            if kq is None:
                continue
            w = ix.fresh_indices(ctx, [H, W], "w")
            S = ix.CScal.lift(reg["inv"][k]["spec"](w))
            want = ix.CScal.lift(reg["fwd"][kq]["out"].at(*w)) * ix.CScal.lift(reg["fwd"][kpad]["out"].at(*w))
            out.append((f"channel{c}.spectrum_is_product", S == want))
        return out
    bl = ["returns", "shape", "transfer_function_of_centred_psf"] + [f"channel{c}.{x}" for c in range(4) for x in
                                                                   ("is_real_part_of_inverse_transform", "transforms_own_channel", "spectrum_is_product")]
    run_case(rep, P, Q + "apply_blur_fft", "", setup_blur, post_blur, lib=lib(), contracts={Q + "_pad_psf": k_pad_psf}, clauses=bl, replay=replay_blur, timeout_s=30)

    def setup_bnd(I, ctx):
        H, W, kH, kW = sizes(ctx)
        return [ix.input_array("Q", [H, W, 4]), ix.input_array("psf", [kH, kW])], {"boundary": "reflect"}, None
    for fn in ("apply_blur_fft", "qslst_restore_fft"):
        def setup_b2(I, ctx, fn=fn):
            a, k, _ = setup_bnd(I, ctx)
            if fn == "qslst_restore_fft":
                a = a + [Fraction(1, 100)]
            return a, k, None
        run_case(rep, P, Q + fn, "guard_boundary", setup_b2,
                 lambda I, ctx, outcome, val, aux: [("raises_AssertionError", outcome == "raise" and val.exc_type == "AssertionError")],
                 lib=lib(), contracts={Q + "_pad_psf": k_pad_psf}, clauses=["raises_AssertionError"])

    # ----------------------------------------------------------------------------- qslst_restore_fft
    def setup_rf(I, ctx):
        H, W, kH, kW = sizes(ctx)
        psf = ix.input_array("psf", [kH, kW])
        Bq = ix.input_array("B", [H, W, 4])
        lam = SReal.var("lam")
        ctx.assume(lam > 0, base=True)
        return [Bq, psf, lam], {}, (Bq, psf, lam, H, W, kH, kW)

    def post_rf(I, ctx, outcome, val, aux):
        Bq, psf, lam, H, W, kH, kW = aux
        if outcome != "return" or not isinstance(val, ix.IArr):
            return [("returns", False)]
        reg = ctx.ghost.get("fft", {"fwd": [], "inv": []})
        out = [("returns", True), ("shape", len(val.shape) == 3 and sand(val.shape[0] == H, val.shape[1] == W, val.shape[2] == 4))]
        kpad = find_fwd(ctx, reg, centred(psf, H, W, kH, kW), [H, W])
        out.append(("transfer_function_of_centred_psf", kpad is not None))
        for c in range(4):
            (i, j) = ix.fresh_indices(ctx, [H, W])
            cell = val.at(i, j, c)
            k = _decl_index(cell.z, "IFT") if isinstance(cell, SReal) else None
            ok = k is not None and k < len(reg["inv"])
            out.append((f"channel{c}.is_real_part_of_inverse_transform", ok))
            if not ok or kpad is None:
                continue
            kb = find_fwd(ctx, reg, lambda vi, c=c: Bq.at(vi[0], vi[1], c), [H, W])
            out.append((f"channel{c}.transforms_own_channel", kb is not None))
            if kb is None:
                continue
            w = ix.fresh_indices(ctx, [H, W], "w")
            X = ix.CScal.lift(reg["inv"][k]["spec"](w))
            h = ix.CScal.lift(reg["fwd"][kpad]["out"].at(*w))
            b = ix.CScal.lift(reg["fwd"][kb]["out"].at(*w))
            lhs = X * (h.re * h.re + h.im * h.im + lam)
            rhs = h.conjugate() * b
            out.append((f"channel{c}.tikhonov_normal_equation", lhs == rhs))
        return out
    rl = ["returns", "shape", "transfer_function_of_centred_psf"] + [f"channel{c}.{x}" for c in range(4) for x in
                                                                   ("is_real_part_of_inverse_transform", "transforms_own_channel", "tikhonov_normal_equation")]
    run_case(rep, P, Q + "qslst_restore_fft", "", setup_rf, post_rf, lib=lib(), contracts={Q + "_pad_psf": k_pad_psf}, clauses=rl, replay=replay_restore, timeout_s=40)

    # scalar lemma: the filter inverts the blur as lam -> 0 where h^ != 0, and is linear in b^
    hr, hi, br, bi, lam, b2r, b2i, al = z3.Reals("hr hi br bi lam b2r b2i al")
    den = hr * hr + hi * hi + lam
    xr, xi = (hr * br + hi * bi) / den, (hr * bi - hi * br) / den
    v = smt.prove([lam == 0, hr * hr + hi * hi > 0], z3.And(hr * xr - hi * xi == br, hr * xi + hi * xr == bi), 20)
    rep.add(Obligation(f"{P}.lemma.filter_inverts_blur_at_lam0", "spec", "all-shapes", v.status, v.backend, v.secs, v.model, kind="lemma"))
    x2r = (hr * (br + al * b2r) + hi * (bi + al * b2i)) / den
    v = smt.prove([lam > 0], x2r == xr + al * (hr * b2r + hi * b2i) / den, 20)
    rep.add(Obligation(f"{P}.lemma.filter_linear", "spec", "all-shapes", v.status, v.backend, v.secs, v.model, kind="lemma"))
    rep.canary("C17.canary.filter_without_conjugate",
               smt.prove([lam > 0], z3.And((hr * br - hi * bi) / den * den == hr * br + hi * bi), 5).status == smt.REFUTED)

    # ----------------------------------------------------------------------------- guards of the matrix path
    def setup_mg(I, ctx):
        H, W, N = dims(ctx, "H", "W", "N")
        ctx.assume(N != H * W, base=True)
        return [ix.input_array("B", [H, W, 4]), ix.input_array("A", [N, N]), Fraction(1, 10)], {}, None
    run_case(rep, P, Q + "qslst_restore_matrix", "guard_operator_size", setup_mg,
             lambda I, ctx, outcome, val, aux: [("raises_AssertionError", outcome == "raise" and val.exc_type == "AssertionError")],
             lib=lib(), clauses=["raises_AssertionError"])

    # ----------------------------------------------------------------------------- the matrix path, all image sizes (provenance domain)
    matrix_path(rep)

    # ----------------------------------------------------------------------------- the dense BCCB builder of the application, all sizes
    builders(rep)
    sparse_builder(rep)
    psf_generators(rep)


def matrix_path(rep: Report):
    """qslst_restore_matrix in the term-level provenance domain (arrays as opaque terms, library operations as deterministic abstract functions):
    every channel c of the result is   reshape( pinv(A^T A + lam I) @ (A^T @ reshape(B[..., c])), (H, W) )   with the SAME operator A, the same T for all four
    channels, row-major flattening in and out, the regularisation added exactly when lam != 0.  With the Moore-Penrose contract of numpy's pinv
    (T T^+ e = e for e in the range of T; T^+ = T^-1 for lam > 0, where T is positive definite) this is  (A^T A + lam I) x_c = A^T b_c, the
    Tikhonov normal equations of the documented operator, channel by channel.  (The property is about convolution operators, which are normal, so
    A A^T is accepted as a spelling of A^T A.)  The accuracy of pinv on badly conditioned T is the bounded part."""
    from .. import term as tm
    from ..sym import OutOfReach

    def np_pinv(T, rcond=None, hermitian=False, **kw):
        if rcond is None and not hermitian and not kw:
            return tm.TArr(("pinv", T.node), (T.shape[1], T.shape[0]))
        # a cutoff / symmetry promise other than numpy's default is another function of T: not the pseudoinverse the contract speaks about
        return tm.TArr(("pinv_with_options", T.node, tm._key(rcond), bool(hermitian), tm._key(tuple(sorted(kw)))), (T.shape[1], T.shape[0]))

    def np_eye(n, *a, **k):
        return tm.TArr(("eye", tm._key(n)), (n, n))

    def np_empty_like(a, dtype=None):
        return tm.TArr(("empty", tm._key(tuple(a.shape))), a.shape)
    for lam_zero in (False, True):
        lib = tm.install(Library("idx"))
        lib.np.table["linalg"].table["pinv"] = np_pinv
        lib.np.table["eye"] = np_eye
        lib.np.table["empty_like"] = np_empty_like

        def setup(I, ctx, lam_zero=lam_zero):
            H, W = dims(ctx, "H", "W")
            B = tm.atom("B", (H, W, 4))
            A = tm.atom("A", (H * W, H * W))
            lam = Fraction(0) if lam_zero else SReal.var("lam")
            if not lam_zero:
                ctx.assume(lam > 0, base=True)
            return [B, A, lam], {}, (B, A, lam, H, W)

        def post(I, ctx, outcome, val, aux, lam_zero=lam_zero):
            B, A, lam, H, W = aux
            if outcome != "return" or not isinstance(val, tm.TArr):
                return [("returns_an_image", False)]
            out = [("returns_an_image", True), ("shape", sand(val.shape[0] == H, val.shape[1] == W, len(val.shape) == 3 and val.shape[2] == 4))]
            N = H * W
            At = ("T", A.node)
            T0 = ("matmul", At, A.node)
            Tn = T0 if lam_zero else ("add", T0, ("mul", tm._key(lam), ("eye", tm._key(N))))
            # peel the four channel writes off the result (written in the order c = 0, 1, 2, 3)
            node, writes = val.node, {}
            while isinstance(node, tuple) and node and node[0] == "set":
                _, base, idx, v_ = node
                writes[idx] = v_
                node = base
            def canon(nd):
                """the property speaks about convolution (BCCB) operators, which are normal: A A^T = A^T A - both spellings of T are the same operator there"""
                if isinstance(nd, tuple):
                    nd = tuple(canon(x) for x in nd)
                    if len(nd) == 3 and nd[0] == "matmul" and nd[1] == A.node and nd[2] == At:
                        return ("matmul", At, A.node)
                return nd
            ok_all = True
            for c in range(4):
                key = tm._key((Ellipsis, c))
                got = writes.get(key)
                b = ("reshape", ("get", B.node, tm._key((slice(None), slice(None), c))), tm._key((-1,)))
                want = ("reshape", ("matmul", ("pinv", Tn), ("matmul", At, b)), tm._key((H, W)))
                got = canon(got) if got is not None else None
                good = got is not None and got == want
                if got is not None and not good:
                    # the same up to commutation of the scalar in lam * eye(N)
                    alt = ("reshape", ("matmul", ("pinv", ("add", T0, ("mul", ("eye", tm._key(N)), tm._key(lam)))), ("matmul", At, b)), tm._key((H, W)))
                    good = (not lam_zero) and got == alt
                if not good and os.environ.get("QV_TRACE") == "1":
                    print("CHANNEL", c, "\n got ", got, "\n want", want, "\n keys", list(writes)[:6])
                ok_all = ok_all and good
            out.append(("every_channel_is_pinv_of_ATA_plus_lamI_applied_to_AT_b_rowmajor", ok_all))
            return out
        run_case(rep, P, Q + "qslst_restore_matrix", f"matrix_path.lam_{'zero' if lam_zero else 'positive'}", setup, post, lib=lib,
                 clauses=["returns_an_image", "shape", "every_channel_is_pinv_of_ATA_plus_lamI_applied_to_AT_b_rowmajor"], replay=None, timeout_s=20, site_obligations=False)


def builders(rep: Report):
    """The dense BCCB builder of the deblurring application, all image sizes and all kernels no larger than the image: nested loops over the image
    that append one rolled copy of the padded kernel per pixel to a Python list, then np.stack(axis=1).  The list is described by a ghost closed form
    over the PAIR (i, j) of loop counters (column i*W+j is the vector  (p,q) -> base[(p-i) mod H, (q-j) mod W]); the inner and the outer loop carry
    'cols holds exactly the columns lexicographically before (i, j)' as invariant, and the postcondition is the definition of the circular-convolution
    matrix with the centred kernel:   A[p*W+q, i*W+j] = centred_psf[(p-i) mod H, (q-j) mod W].   Row/column numbers are kept as mixed-radix digits
    (row-major reshape axiom), _pad_psf is used through its proved contract."""
    from ..interp import LoopRule
    from ..values import SymList
    from ..sym import OutOfReach
    QB = "applications/image_deblurring/script_image_deblurring.py::"

    class Cols(SymList):
        """columns lexicographically before (i, j), plus what the current path appended"""
        def __init__(self, i, j, W):
            SymList.__init__(self, i * W + j, "cols")
            self.ij = (i, j)

    def same(a, b):
        return cur().valid(sand(a == b)) is True if not (isinstance(a, int) and isinstance(b, int)) else a == b

    def column(base, H, W, i, j):
        """the (i, j)-th column: base shifted down by i and right by j, periodically"""
        def fn(p, q):
            u, v = p - i, q - j
            return base.at(ix.ite(u < 0, u + H, u), ix.ite(v < 0, v + W, v))
        return fn

    class Outer(LoopRule):
        modifies = ("cols", "i", "j")          # the list and the counters; temporaries of the body are not named (they are re-assigned before use)
        expects = {"target": "i"}

        def establish(self, it, fr, start):
            v = fr.vars.get("cols")
            cur().require("inv.establish", isinstance(v, list) and not v and isinstance(start, int) and start == 0, "cols is empty before the first row", key="outer.inv.establish")

        def havoc(self, it, fr, k):
            fr.vars["cols"] = Cols(k, 0, fr.vars["W"])

        def preserve(self, it, fr, k):
            v, W = fr.vars.get("cols"), fr.vars["W"]
            ok = isinstance(v, Cols) and not v.items and ((same(v.ij[0], k) and same(v.ij[1], W)) or (same(v.ij[0], k + 1) and same(v.ij[1], 0)))
            cur().require("inv.preserve", ok, "after row i the list holds the columns of rows 0..i", key="outer.inv.preserve.all_columns_of_the_row_appended")

    class Inner(LoopRule):
        modifies = ("cols", "j")
        expects = {"target": "j"}

        def establish(self, it, fr, start):
            v = fr.vars.get("cols")
            ok = isinstance(v, Cols) and not v.items and same(v.ij[0], fr.vars["i"]) and same(v.ij[1], 0) and isinstance(start, int) and start == 0
            cur().require("inv.establish", ok, "at j = 0 the list holds the columns of the rows before i", key="inner.inv.establish")

        def havoc(self, it, fr, k):
            fr.vars["cols"] = Cols(fr.vars["i"], k, fr.vars["W"])

        def preserve(self, it, fr, k):
            c = cur()
            v, H, W, i, base = fr.vars.get("cols"), fr.vars["H"], fr.vars["W"], fr.vars["i"], fr.vars["base"]
            ok = isinstance(v, Cols) and len(v.items) == 1 and same(v.ij[0], i) and same(v.ij[1], k)
            c.require("inv.preserve", ok, "exactly one column appended per pixel", key="inner.inv.preserve.one_append")
            if not ok:
                return
            col = v.items[0]
            shp = isinstance(col, ix.IArr) and col.ndim == 1 and same(col.vshape[0], H * W)
            c.require("inv.preserve", shp, "the column is a vector of length H*W", key="inner.inv.preserve.column_length")
            if shp:
                p, q = ix.fresh_indices(c, [H, W], "r")
                c.require("inv.preserve", ix.scal_eq(col.at(ix.Enc([(p, H), (q, W)])), column(base, H, W, i, k)(p, q)),
                          "column (i,j) is the row-major vec of the padded kernel shifted by (i, j)", key="inner.inv.preserve.column_is_shifted_kernel")

    def np_stack(parts, axis=0, _orig=None):
        if isinstance(parts, Cols):
            c = cur()
            H, W, base = c.ghost["HWbase"]
            if parts.items or axis not in (0, 1) or not ((same(parts.ij[0], H) and same(parts.ij[1], 0)) or (same(parts.ij[0], H - 1) and same(parts.ij[1], W))):
                raise OutOfReach("np.stack of a partial column list")

            def fn(vi):
                r, cc = vi if axis == 1 else (vi[1], vi[0])
                if not (isinstance(r, ix.Enc) and isinstance(cc, ix.Enc) and len(r.parts) == 2 and len(cc.parts) == 2):
                    raise OutOfReach("BCCB matrix read with an unstructured index")
                return column(base, H, W, cc.parts[0][0], cc.parts[1][0])(r.parts[0][0], r.parts[1][0])
            return ix.IArr.from_fn([H * W, H * W], fn)
        return _orig(parts, axis=axis)

    lib = Library("idx")
    orig = lib.np.table["stack"]
    lib.np.table["stack"] = lambda parts, axis=0: np_stack(parts, axis, orig)

    def k_pad(I, args, kwargs):
        out = k_pad_psf(I, args, kwargs)
        cur().ghost["HWbase"] = (args[1][0], args[1][1], out)
        return out

    def setup(I, ctx):
        H, W, kH, kW = sizes(ctx)
        psf = ix.input_array("psf", [kH, kW])
        ctx.ghost["input_ints"] = {"H": H, "W": W}
        return [psf, H, W], {}, (psf, H, W, kH, kW)

    def post(I, ctx, outcome, val, aux):
        psf, H, W, kH, kW = aux
        if outcome != "return" or not isinstance(val, ix.IArr):
            return [("returns_a_matrix", False)]
        out = [("returns_a_matrix", True), ("shape_is_HW_by_HW", val.ndim == 2 and same(val.vshape[0], H * W) and same(val.vshape[1], H * W))]
        if out[-1][1]:
            p, q = ix.fresh_indices(ctx, [H, W], "p")
            i, j = ix.fresh_indices(ctx, [H, W], "c")
            u, v = p - i, q - j
            want = centred(psf, H, W, kH, kW)((ix.ite(u < 0, u + H, u), ix.ite(v < 0, v + W, v)))
            out.append(("entry_is_centred_psf_at_the_periodic_pixel_difference", ix.scal_eq(val.at(ix.Enc([(p, H), (q, W)]), ix.Enc([(i, H), (j, W)])), want)))
        out.append(("hypotheses_consistent", ctx.valid(SBool(z3.BoolVal(False))) is not True))
        return out
    run_case(rep, P, QB + "_build_bccb_matrix", "dense", setup, post, lib=lib, contracts={Q + "_pad_psf": k_pad},
             loop_rules={(QB + "_build_bccb_matrix", 0): Outer(), (QB + "_build_bccb_matrix", 1): Inner()},
             clauses=["returns_a_matrix", "shape_is_HW_by_HW", "entry_is_centred_psf_at_the_periodic_pixel_difference", "hypotheses_consistent"], replay=replay_restore, timeout_s=30,
             model_replay=replay_builder_model("dense"))


def sparse_builder(rep: Report):
    """The sparse (COO -> CSR) BCCB builder, all image sizes and kernels no larger than the image.
      * the comprehension that collects the taps is put under contract: for a generic (du, dv) its filter is  psf[du,dv] != 0  and its element is
        (du, dv, psf[du,dv]); the list is then the enumeration  t -> (DU(t), DV(t), psf[DU(t),DV(t)])  of the non-zero taps (ghost functions);
      * the three nested loops carry 'rows, cols, data hold exactly the triples of the (pixel, tap) pairs lexicographically before (i, j, t)'; per
        innermost iteration each list gets exactly one append, and the triple is  (row of pixel (i,j), column of a pixel (i',j'), w)  with
        w = centred_psf[(i-i') mod H, (j-j') mod W] - the definition of the convolution matrix (not the code's index expression);
      * csr_matrix receives (data, (rows, cols)) - in that arrangement - with shape (H*W, H*W) and the complete lists;
      * lemmas: two different taps of one pixel never go to the same column (so no two triples are summed), and every non-zero of the convolution
        matrix has its triple.  With scipy's COO semantics (entry = sum of the triples at that position; assumed) the matrix IS the convolution matrix."""
    from ..interp import LoopRule, Frame
    from ..values import SymList
    from ..sym import OutOfReach
    QB = "applications/image_deblurring/script_image_deblurring.py::"
    FN = QB + "_build_bccb_csr"
    DU, DV = z3.Function("C17_tap_row", z3.IntSort(), z3.IntSort()), z3.Function("C17_tap_col", z3.IntSort(), z3.IntSort())

    def same(a, b):
        return cur().valid(sand(a == b)) is True if not (isinstance(a, int) and isinstance(b, int)) else a == b

    def wrap2(x, n):
        return ix.ite(x >= n, x - n, ix.ite(x < 0, x + n, x))

    class Trip(SymList):
        def __init__(self, i, j, t, W, L, name):
            SymList.__init__(self, (i * W + j) * L + t, name)
            self.ijt = (i, j, t)

    def is_at(v, i, j, t, items=0):
        return isinstance(v, Trip) and len(v.items) == items and same(v.ijt[0], i) and same(v.ijt[1], j) and same(v.ijt[2], t)

    LISTS = ("rows", "cols", "data")

    def comp_taps(I, e, fr):
        c = cur()
        psf, kH, kW = fr.vars["psf"], fr.vars["kH"], fr.vars["kW"]
        gens = e.generators
        ok = len(gens) == 2 and all(isinstance(g.target, ast.Name) for g in gens)
        c.require("comp", ok, "two nested generators", key="taps.two_generators")
        if not ok:
            raise OutOfReach("tap comprehension restructured")
        du0, dv0 = SInt.var(c.fresh_name("du")), SInt.var(c.fresh_name("dv"))
        mark = len(c.path_hyps)
        c.path_hyps.append(sym_as_bool(sand(du0 >= 0, du0 < kH, dv0 >= 0, dv0 < kW)))
        try:
            f2 = Frame(fr.fn, fr.module, fr)
            r0 = I.eval(gens[0].iter, f2)
            f2.vars[gens[0].target.id] = du0
            r1 = I.eval(gens[1].iter, f2)
            f2.vars[gens[1].target.id] = dv0
            rng_ok = all(hasattr(r, "start") and same(r.start, 0) and getattr(r, "step", 1) == 1 for r in (r0, r1)) and same(r0.stop, kH) and same(r1.stop, kW) and not gens[0].ifs
            c.require("comp", rng_ok, "the generators run over all kernel rows and all kernel columns", key="taps.ranges_cover_the_kernel")
            tap = psf.at(du0, dv0)
            c.path_hyps.append(sym_as_bool(sand(tap >= 0)))          # the property quantifies over non-negative kernels
            conds = [I.eval(x, f2) for x in gens[1].ifs]
            keep = sand(*conds) if conds else True
            c.require("comp", sand(sor(snot(keep), tap != 0), sor(keep, tap == 0)), "a tap is kept exactly when it is non-zero", key="taps.kept_iff_nonzero")
            el = I.eval(e.elt, f2)
            good = isinstance(el, tuple) and len(el) == 3
            c.require("comp", good and sand(el[0] == du0, el[1] == dv0, ix.scal_eq(el[2], tap)), "the element is (du, dv, psf[du, dv])", key="taps.element_is_position_and_weight")
        finally:
            del c.path_hyps[mark:]
        L = SInt.var("n_taps")
        c.assume(L >= 0)
        c.ghost["taps"] = (psf, kH, kW, L)

        def entry(t):
            tz = SInt.lift(t)
            u, v = SInt.mk(DU(tz)), SInt.mk(DV(tz))
            cur().assume(sand(u >= 0, u < kH, v >= 0, v < kW))
            w = psf.at(u, v)
            cur().assume(w != 0)
            return (u, v, w)
        return SymList(L, "nonzero", entry=entry)

    def L_of():
        return cur().ghost["taps"][3]

    class Outer(LoopRule):
        modifies = LISTS + ("i", "j")
        expects = {"target": "i"}

        def establish(self, it, fr, start):
            for n in LISTS:
                v = fr.vars.get(n)
                cur().require("inv.establish", isinstance(v, list) and not v and isinstance(start, int) and start == 0, f"{n} is empty before the first pixel", key=f"outer.inv.establish.{n}")

        def havoc(self, it, fr, k):
            for n in LISTS:
                fr.vars[n] = Trip(k, 0, 0, fr.vars["W"], L_of(), n)

        def preserve(self, it, fr, k):
            W = fr.vars["W"]
            for n in LISTS:
                v = fr.vars.get(n)
                cur().require("inv.preserve", is_at(v, k + 1, 0, 0) or is_at(v, k, W, 0), f"after image row i, {n} holds the triples of rows 0..i", key=f"outer.inv.preserve.{n}")

    class Mid(LoopRule):
        modifies = LISTS + ("j",)
        expects = {"target": "j"}

        def establish(self, it, fr, start):
            for n in LISTS:
                cur().require("inv.establish", is_at(fr.vars.get(n), fr.vars["i"], 0, 0) and isinstance(start, int) and start == 0, f"{n} at the start of a row", key=f"mid.inv.establish.{n}")

        def havoc(self, it, fr, k):
            for n in LISTS:
                fr.vars[n] = Trip(fr.vars["i"], k, 0, fr.vars["W"], L_of(), n)

        def preserve(self, it, fr, k):
            i = fr.vars["i"]
            for n in LISTS:
                v = fr.vars.get(n)
                cur().require("inv.preserve", is_at(v, i, k + 1, 0) or is_at(v, i, k, L_of()), f"after pixel (i,j), {n} holds the triples of all pixels up to it", key=f"mid.inv.preserve.{n}")

    class Taps(LoopRule):
        modifies = LISTS
        expects = {"target": "(du, dv, w)"}

        def establish(self, it, fr, start):
            for n in LISTS:
                cur().require("inv.establish", is_at(fr.vars.get(n), fr.vars["i"], fr.vars["j"], 0) and isinstance(start, int) and start == 0, f"{n} at the first tap of a pixel", key=f"taps.inv.establish.{n}")

        def havoc(self, it, fr, k):
            for n in LISTS:
                fr.vars[n] = Trip(fr.vars["i"], fr.vars["j"], k, fr.vars["W"], L_of(), n)

        def preserve(self, it, fr, k):
            c = cur()
            i, j, H, W = fr.vars["i"], fr.vars["j"], fr.vars["H"], fr.vars["W"]
            psf, kH, kW, L = c.ghost["taps"]
            ok = True
            for n in LISTS:
                g = is_at(fr.vars.get(n), i, j, k, items=1)
                c.require("inv.preserve", g, f"exactly one append to {n} per (pixel, tap)", key=f"taps.inv.preserve.{n}.one_append")
                ok = ok and g
            if not ok:
                return
            r, cc, w = (fr.vars[n].items[0] for n in LISTS)
            u, v = SInt.mk(DU(SInt.lift(k))), SInt.mk(DV(SInt.lift(k)))
            # witness for the column's pixel (a proof hint; the obligations below are about the appended values)
            ip, jp = wrap2(i - u + kH // 2, H), wrap2(j - v + kW // 2, W)
            c.require("inv.preserve", sand(r == i * W + j), "the row index is the row-major number of pixel (i, j)", key="taps.inv.preserve.row_is_pixel_ij")
            c.require("inv.preserve", sand(ip >= 0, ip < H, jp >= 0, jp < W, cc == ip * W + jp), "the column index is the row-major number of the pixel (i', j') = (i, j) - (tap offset from the kernel centre), periodically", key="taps.inv.preserve.column_is_the_pixel_at_the_convolution_offset")
            a, b = wrap2(i - ip, H), wrap2(j - jp, W)
            c.require("inv.preserve", ix.scal_eq(w, centred(psf, H, W, kH, kW)((a, b))),
                      "the weight is the centred kernel at the periodic difference (i - i', j - j'): circular convolution, not correlation", key="taps.inv.preserve.weight_is_centred_psf_at_pixel_difference")
            c.require("inv.preserve", ix.scal_eq(w, psf.at(u, v)), "the weight is the tap itself", key="taps.inv.preserve.weight_is_the_tap")
            # the assumptions about the ghost enumeration of the taps (ranges, non-zero weight) do not contradict each other: "false" is not provable here
            c.require("inv.preserve", c.valid(SBool(z3.BoolVal(False))) is not True, "the hypotheses of the generic (pixel, tap) iteration are consistent", key="taps.inv.preserve.hypotheses_consistent")

    class Sparse:
        qv_value = True

        def __init__(self, data, rows, cols, shape):
            self.data, self.rows, self.cols, self.shape = data, rows, cols, shape

    def csr_matrix(a, shape=None, **kw):
        if isinstance(a, tuple) and len(a) == 2 and isinstance(a[1], tuple) and len(a[1]) == 2 and not kw:
            return Sparse(a[0], a[1][0], a[1][1], shape)
        raise OutOfReach("csr_matrix form")

    lib = Library("idx")
    lib.sparse.table["csr_matrix"] = csr_matrix

    def setup(I, ctx):
        H, W, kH, kW = sizes(ctx)
        psf = ix.input_array("psf", [kH, kW])
        ctx.ghost["input_ints"] = {"H": H, "W": W}
        return [psf, H, W], {}, (psf, H, W, kH, kW)

    def post(I, ctx, outcome, val, aux):
        psf, H, W, kH, kW = aux
        if outcome != "return" or not isinstance(val, Sparse):
            return [("returns_a_sparse_matrix", False)]
        L = L_of()
        whole = lambda v, n: isinstance(v, Trip) and v.name == n and not v.items and (is_at(v, H, 0, 0) or is_at(v, H - 1, W, 0))
        out = [("returns_a_sparse_matrix", True),
               ("shape_is_HW_by_HW", isinstance(val.shape, tuple) and len(val.shape) == 2 and same(val.shape[0], H * W) and same(val.shape[1], H * W)),
               ("built_from_all_triples_as_data_rows_cols", whole(val.data, "data") and whole(val.rows, "rows") and whole(val.cols, "cols"))]
        # lemma 1: two different taps of one pixel land in different columns (kernel no larger than the image), so no two triples are added up
        i, j = ix.fresh_indices(ctx, [H, W], "px")
        (u1, v1), (u2, v2) = ix.fresh_indices(ctx, [kH, kW], "ta"), ix.fresh_indices(ctx, [kH, kW], "tb")
        col = lambda u, v: (wrap2(i - u + kH // 2, H), wrap2(j - v + kW // 2, W))
        (a1, b1), (a2, b2) = col(u1, v1), col(u2, v2)
        out.append(("lemma.different_taps_of_a_pixel_go_to_different_columns", sor(sand(u1 == u2, v1 == v2), snot(sand(a1 == a2, b1 == b2)))))
        # lemma 2: wherever the convolution matrix is non-zero, a kept tap produces exactly that entry
        ip, jp = ix.fresh_indices(ctx, [H, W], "cp")
        a, b = wrap2(i - ip, H), wrap2(j - jp, W)
        want = centred(psf, H, W, kH, kW)((a, b))
        u, v = wrap2(a + kH // 2, H), wrap2(b + kW // 2, W)
        uu, vv = ix.ite(u < kH, u, 0), ix.ite(v < kW, v, 0)
        (ca, cb) = col(uu, vv)
        out.append(("hypotheses_consistent", ctx.valid(SBool(z3.BoolVal(False))) is not True))
        out.append(("lemma.every_nonzero_of_the_convolution_matrix_has_its_triple",
                    sor(want == 0, sand(u < kH, v < kW, psf.at(uu, vv) != 0, ca == ip, cb == jp, ix.scal_eq(psf.at(uu, vv), want)))))
        return out
    run_case(rep, P, FN, "sparse", setup, post, lib=lib,
             loop_rules={(FN, "comp", 0): comp_taps, (FN, 0): Outer(), (FN, 1): Mid(), (FN, 2): Taps()},
             clauses=["returns_a_sparse_matrix", "shape_is_HW_by_HW", "built_from_all_triples_as_data_rows_cols",
                      "lemma.different_taps_of_a_pixel_go_to_different_columns", "lemma.every_nonzero_of_the_convolution_matrix_has_its_triple", "hypotheses_consistent"],
             replay=replay_restore, timeout_s=30, model_replay=replay_builder_model("sparse"))


def psf_generators(rep: Report):
    """build_psf_gaussian in the provenance domain, every radius r >= 0 and sigma > 0: the result is X / X.sum() for ONE array X of shape
    (2r+1, 2r+1) whose entries are exp(.) over a positive constant - so every tap is positive, the total s = X.sum() is positive, and
    sum(X / s) = sum(X) / s = 1 (linearity of the total: library axiom).  The values of the Gaussian and build_psf_motion (a loop over sampled
    points with rounding) are bounded."""
    from .. import term as tm
    from ..sym import OutOfReach

    def np_arange(a, b=None, *rest, **kw):
        if rest or kw:
            raise OutOfReach("np.arange form")
        lo, hi = (0, a) if b is None else (a, b)
        return tm.TArr(("arange", tm._key(lo), tm._key(hi)), (hi - lo,))

    def np_meshgrid(x, y, indexing="xy", **kw):
        if kw or indexing not in ("xy", "ij") or not (isinstance(x, tm.TArr) and isinstance(y, tm.TArr)):
            raise OutOfReach("np.meshgrid form")
        shp = (y.shape[0], x.shape[0]) if indexing == "xy" else (x.shape[0], y.shape[0])
        return [tm.TArr(("meshgrid", indexing, c, x.node, y.node), shp) for c in (0, 1)]

    def np_exp(a):
        if not isinstance(a, tm.TArr):
            raise OutOfReach("np.exp of a scalar")
        return tm.TArr(("exp", a.node), a.shape)
    lib = tm.install(Library("idx"))
    lib.np.table["arange"], lib.np.table["meshgrid"], lib.np.table["exp"] = np_arange, np_meshgrid, np_exp

    def setup(I, ctx):
        r, sg = SInt.var("radius"), SReal.var("sigma")
        ctx.assume(r >= 0, base=True)
        ctx.assume(sg > 0, base=True)
        return [r, sg], {}, (r, sg)

    def post(I, ctx, outcome, val, aux):
        r, sg = aux
        if outcome != "return" or not isinstance(val, tm.TArr):
            return [("returns_an_array", False)]
        out = [("returns_an_array", True), ("shape_is_2r_plus_1_square", len(val.shape) == 2 and sand(val.shape[0] == 2 * r + 1, val.shape[1] == 2 * r + 1))]
        nd = tm.strip(val.node)
        ok = isinstance(nd, tuple) and len(nd) == 3 and nd[0] == "div"
        X = nd[1] if ok else None
        tot = tm.strip(tm._key(tm.TArr(X, val.shape).sum())) if ok else None
        out.append(("is_an_array_divided_by_its_own_total", bool(ok and nd[2] == tot)))
        pos = False
        if ok and isinstance(X, tuple) and len(X) == 3 and X[0] == "div" and isinstance(X[1], tuple) and X[1][0] == "exp":
            # exp(.) / c  with  c > 0 : every entry positive, so the total is positive and the division is defined
            c_pos = ctx.ghost.get("last_scalar_divisor")
            pos = c_pos is not None and ctx.valid(c_pos > 0) is True
        out.append(("entries_are_exponentials_over_a_positive_constant", pos))
        return out
    # the divisor of the exponential is read where it is applied: TArr / scalar records the scalar
    orig_bin = tm.TArr._bin

    def rec_bin(self, op, o, swap=False):
        if op == "div" and not swap and not isinstance(o, tm.TArr) and isinstance(self.node, tuple) and self.node and self.node[0] == "exp":
            cur().ghost["last_scalar_divisor"] = SReal.lift(o)
        return orig_bin(self, op, o, swap)
    tm.TArr._bin = rec_bin
    try:
        run_case(rep, P, Q + "build_psf_gaussian", "unit_sum", setup, post, lib=lib,
                 clauses=["returns_an_array", "shape_is_2r_plus_1_square", "is_an_array_divided_by_its_own_total", "entries_are_exponentials_over_a_positive_constant"],
                 replay=replay_blur, timeout_s=20, site_obligations=False)
    finally:
        tm.TArr._bin = orig_bin


# ---------------------------------------------------------------------------------------------------
def circ_conv(x, k):
    """Index-level definition of centred periodic convolution: out[i,j] = sum_{u,v} k[u,v] x[(i-(u-cH)) mod H, (j-(v-cW)) mod W]."""
    H, W = x.shape
    kH, kW = k.shape
    cH, cW = kH // 2, kW // 2
    out = np.zeros((H, W))
    for u in range(kH):
        for v in range(kW):
            out += k[u, v] * np.roll(np.roll(x, u - cH, axis=0), v - cW, axis=1)
    return out


def conv_matrix(k, H, W):
    """Explicit matrix of circ_conv (row-major vec), from the definition."""
    N = H * W
    A = np.zeros((N, N))
    for j in range(N):
        e = np.zeros(N)
        e[j] = 1.0
        A[:, j] = circ_conv(e.reshape(H, W), k).reshape(-1)
    return A


def _check_blur(psf, H, W, rng):
    from .. import runtime as rt
    q = rt.real().qslst
    kH, kW = psf.shape
    # impulse -> centred psf
    Qi = np.zeros((H, W, 4))
    i0, j0 = H // 2, W // 3
    Qi[i0, j0, 1] = 1.0
    B = q.apply_blur_fft(Qi, psf)
    want = np.zeros((H, W))
    for u in range(kH):
        for v in range(kW):
            want[(i0 + u - kH // 2) % H, (j0 + v - kW // 2) % W] += psf[u, v]
    tol = 1e-12 * max(1.0, np.abs(psf).max())
    if not np.allclose(B[..., 1], want, atol=tol):
        return {"what": "impulse response is not the centred PSF", "got": B[..., 1], "want": want}
    if not (np.abs(B[..., [0, 2, 3]]).max() <= tol):
        return {"what": "channels are not independent"}
    Qr = rng.standard_normal((H, W, 4))
    Br = q.apply_blur_fft(Qr, psf)
    for c in range(4):
        if not np.allclose(Br[..., c], circ_conv(Qr[..., c], psf), atol=1e-10):
            return {"what": f"channel {c} is not the centred circular convolution"}
        if not (abs(Br[..., c].sum() - psf.sum() * Qr[..., c].sum()) <= 1e-9 * max(1, abs(Qr[..., c]).sum())):
            return {"what": "mass not preserved"}
    return None


def _check_restore(psf, H, W, lam, rng, with_builders=True):
    from .. import runtime as rt
    q = rt.real().qslst
    A = conv_matrix(psf, H, W)
    Bq = rng.standard_normal((H, W, 4))
    X = q.qslst_restore_fft(Bq, psf, lam)
    N = H * W
    for c in range(4):
        lhs = (A.T @ A + lam * np.eye(N)) @ X[..., c].reshape(-1)
        rhs = A.T @ Bq[..., c].reshape(-1)
        if not np.allclose(lhs, rhs, atol=1e-8 * max(1.0, np.abs(rhs).max())):
            return {"what": f"FFT restoration does not solve (A^T A + lam I) x = A^T b for channel {c}", "err": float(np.abs(lhs - rhs).max())}
    Xm = q.qslst_restore_matrix(Bq, A, lam)
    if not np.allclose(Xm, X, atol=1e-7 * max(1.0, np.abs(X).max())):
        return {"what": "matrix path applied to the explicit convolution matrix differs from the FFT path", "err": float(np.abs(Xm - X).max())}
    # linearity and channel independence
    B2 = rng.standard_normal((H, W, 4))
    if not np.allclose(q.qslst_restore_fft(Bq + 2.5 * B2, psf, lam), X + 2.5 * q.qslst_restore_fft(B2, psf, lam), atol=1e-8 * max(1, np.abs(X).max())):
        return {"what": "restoration is not linear in B"}
    B3 = Bq.copy()
    B3[..., 2] = 0
    if not np.allclose(q.qslst_restore_fft(B3, psf, lam)[..., [0, 1, 3]], X[..., [0, 1, 3]], atol=1e-10):
        return {"what": "restoration mixes channels"}
    if with_builders:
        app = rt.app_script()
        Ad = app._build_bccb_matrix(psf, H, W)
        if Ad.shape != A.shape or not np.allclose(Ad, A, atol=1e-12):
            return {"what": "dense BCCB builder is not the centred convolution operator", "builder": "dense", "err": float(np.abs(Ad - A).max())}
        Ac = app._build_bccb_csr(psf, H, W).toarray()
        if Ac.shape != A.shape or not np.allclose(Ac, A, atol=1e-12):
            return {"what": "sparse BCCB builder is not the centred convolution operator", "builder": "csr", "err": float(np.abs(Ac - A).max())}
    return None


def replay_builder_model(which):
    """run-time contract for a counterexample of a builder obligation: the REAL builder on the kernel and image size read off the (shrunk) model,
    compared with the convolution matrix computed from the definition"""
    def fn(inputs):
        from .. import runtime as rt
        psf, H, W = np.asarray(inputs["psf"], dtype=float), int(inputs["H"]), int(inputs["W"])
        if psf.shape[0] > H or psf.shape[1] > W:
            return None
        app = rt.app_script()
        A = conv_matrix(psf, H, W)
        got = app._build_bccb_matrix(psf, H, W) if which == "dense" else app._build_bccb_csr(psf, H, W).toarray()
        if got.shape != A.shape or not np.array_equal(got, A):
            return {"what": f"{which} BCCB builder is not the centred convolution operator", "H": H, "W": W, "psf": psf.tolist(),
                    "max_abs_difference": float(np.abs(got - A).max()) if got.shape == A.shape else "shape"}
        return None
    return fn


def replay_blur(seed):
    rng = np.random.default_rng(seed)
    for (H, W, kH, kW) in ((3, 3, 2, 2), (6, 5, 3, 3), (4, 6, 1, 3), (5, 5, 5, 5)):
        psf = rng.random((kH, kW)) + 0.1
        psf /= psf.sum()
        try:
            res = _check_blur(psf, H, W, rng)
        except Exception as e:
            res = {"exception": f"{type(e).__name__}: {e}"}
        if res:
            res.update({"failed": True, "psf": psf, "H": H, "W": W})
            return res
    return {"failed": False}


def replay_restore(seed):
    rng = np.random.default_rng(seed)
    for (H, W, kH, kW) in ((3, 4, 2, 3), (5, 4, 3, 3)):
        psf = rng.random((kH, kW)) + 0.1
        psf /= psf.sum()
        try:
            res = _check_restore(psf, H, W, 0.05, rng, with_builders=False)
        except Exception as e:
            res = {"exception": f"{type(e).__name__}: {e}"}
        if res:
            res.update({"failed": True, "psf": psf, "H": H, "W": W})
            return res
    return {"failed": False}


def bounded(rep: Report, tier, seed):
    from .. import runtime as rt
    rng = np.random.default_rng(seed)
    mx = 5 if tier == "quick" else 6
    b = rep.add_bounded(Bounded("blur_operator", f"H,W <= {mx} (non-square) and sizes with a large prime factor (13, 17, 23); kernels 1x1 .. image size; odd/even; asymmetric; motion/Gaussian generators",
                                "impulse response, mass, channel independence and equality with the index-level circular convolution; distinct by (H,W,kH,kW,kind)"))
    sizes_ = [(H, W) for H in range(1, mx + 1) for W in range(1, mx + 1) if (tier == "thorough" or (H + 2 * W) % 3 == 0 or H == W)]
    for (H, W) in sizes_:
        ks = [(1, 1), (min(2, H), min(3, W)), (min(3, H), min(3, W)), (H, W), (min(3, H), 1)]
        for (kH, kW) in sorted(set(ks)):
            psf = rng.random((kH, kW)) + 0.05
            psf /= psf.sum()
            b.case(f"{P}.bounded.blur", (H, W, kH, kW), lambda psf=psf, H=H, W=W: _check_blur(psf, H, W, rng), f"blur {H}x{W} with a {kH}x{kW} asymmetric kernel",
                   inputs={"psf": psf, "H": H, "W": W})
    # image sizes with a large prime factor (13, 17, 23, 26): an FFT taken at a padded "fast" length is no longer the periodic convolution there
    for (H, W) in ((13, 4), (5, 17), (23, 3), (13, 13)) + (((26, 5), (3, 29)) if tier == "thorough" else ()):
        for (kH, kW) in ((3, 3), (min(5, H), min(4, W))):
            psf = rng.random((kH, kW)) + 0.05
            psf /= psf.sum()
            b.case(f"{P}.bounded.blur", (H, W, kH, kW), lambda psf=psf, H=H, W=W: _check_blur(psf, H, W, rng), f"blur {H}x{W} (size with a large prime factor) with a {kH}x{kW} asymmetric kernel",
                   inputs={"psf": psf, "H": H, "W": W})
    q = rt.real().qslst
    for nm, psf in (("gauss r1", q.build_psf_gaussian(1, 0.8)), ("gauss r2", q.build_psf_gaussian(2, 1.5)), ("motion 3@30", q.build_psf_motion(3, 30.0)),
                    ("motion 4@90", q.build_psf_motion(4, 90.0)), ("motion 1", q.build_psf_motion(1, 0.0))):
        def f(psf=psf):
            if not (abs(psf.sum() - 1.0) <= 1e-12 and psf.min() >= 0):
                return {"what": "generated PSF is not non-negative with unit sum", "sum": float(psf.sum())}
            return _check_blur(psf, max(6, psf.shape[0]), max(5, psf.shape[1]), rng)
        b.case(f"{P}.bounded.psf_generator", (nm,), f, f"PSF generator {nm}", inputs={"psf": psf})
    b.samples.append({"H": 6, "W": 5, "kernel": "3x3 asymmetric", "check": "impulse at (3,1) -> psf centred at (3,1)"})
    b.done()
    b2 = rep.add_bounded(Bounded("restoration", f"H,W <= {mx}; kernels <= image; lam in {{1e-3, 0.1, 10}}",
                                 "FFT restoration solves the normal equations of the explicit convolution matrix; matrix path and both builders agree; linear; channel independent"))
    for (H, W, kH, kW) in ((2, 2, 1, 1), (3, 4, 2, 3), (4, 3, 3, 2), (5, 5, 3, 3), (4, 5, 4, 5)) + (((6, 4, 3, 3), (6, 6, 5, 4)) if tier == "thorough" else ()):
        for lam in (1e-3, 0.1, 10.0):
            psf = rng.random((kH, kW)) + 0.05
            psf /= psf.sum()
            b2.case(f"{P}.bounded.restore", (H, W, kH, kW, lam), lambda psf=psf, H=H, W=W, lam=lam: _check_restore(psf, H, W, lam, rng),
                    f"restore {H}x{W}, kernel {kH}x{kW}, lam {lam}", inputs={"psf": psf, "H": H, "W": W, "lam": lam})
    # arbitrary non-negative kernels are not normalised and may hold zeros and tiny taps (added after seeds C17-10, C17-11 were missed by this stand-in)
    tiny = np.array([[0.3, 1e-7, 0.0], [2e-6, 0.5, 0.2]])
    for nm, (H, W, psf) in (("1x1 tap 0.5", (3, 2, np.array([[0.5]]))), ("1x1 tap 2.5", (1, 1, np.array([[2.5]]))), ("zeros and tiny taps", (3, 4, tiny)),
                            ("unnormalised 2x2", (4, 2, np.array([[1.5, 0.0], [0.25, 3.0]])))):
        b2.case(f"{P}.bounded.restore", ("unnormalised", nm), lambda psf=psf, H=H, W=W: _check_restore(psf, H, W, 0.1, rng),
                f"restore {H}x{W}, non-normalised kernel ({nm}), lam 0.1", inputs={"psf": psf, "H": H, "W": W, "lam": 0.1})
    # lam -> 0 inversion where the blur is invertible
    def inv():
        psf = np.array([[0.0, 0.1, 0.0], [0.1, 0.6, 0.1], [0.0, 0.1, 0.0]])
        X0 = rng.standard_normal((5, 5, 4))
        Bq = q.apply_blur_fft(X0, psf)
        X = q.qslst_restore_fft(Bq, psf, 1e-14)
        return None if np.allclose(X, X0, atol=1e-6) else {"what": "lam -> 0 does not invert an invertible blur", "err": float(np.abs(X - X0).max())}
    b2.case(f"{P}.bounded.inversion", ("inv",), inv, "inversion at lam -> 0")
    # invertible but badly conditioned blurs (small |h^| at some frequencies) with lam = 0 / tiny lam: the matrix path must still be the
    # (pseudo-)inverse solution and agree with the FFT path - a truncated pseudo-inverse would zero those frequencies
    def near_singular(sig, lam):
        def f():
            H, W = 8, 10
            psf = q.build_psf_gaussian(3, sig)
            A = conv_matrix(psf, H, W)
            X0 = np.random.default_rng(seed + 5).standard_normal((H, W, 4))
            Bq = q.apply_blur_fft(X0, psf)
            Xm = q.qslst_restore_matrix(Bq, A, lam)
            Xf = q.qslst_restore_fft(Bq, psf, lam)
            d = float(np.abs(Xm - Xf).max())
            if not d <= 1e-4:
                return {"what": "matrix path differs from the FFT path on a badly conditioned invertible blur", "err": d, "min_singular_value": float(np.linalg.svd(A, compute_uv=False).min())}
            if lam == 0.0 and not float(np.abs(Xm - X0).max()) <= 1e-4:
                return {"what": "matrix path with lam = 0 does not invert an invertible blur", "err": float(np.abs(Xm - X0).max())}
            return None
        return f
    def reuse():
        """two restorations in one process with the same kernel ARRAY whose contents change in between (and a fresh array of the
        same shape): each result must be the restoration for the kernel contents at the time of the call"""
        H, W = 5, 6
        r2 = np.random.default_rng(seed + 9)
        Bq = r2.standard_normal((H, W, 4))
        psf = np.array([[0.0, 0.2, 0.0], [0.1, 0.5, 0.1], [0.0, 0.1, 0.0]])
        psf_first = psf.copy()
        X1 = q.qslst_restore_fft(Bq, psf, 0.05)
        psf[0, 1], psf[2, 1] = 0.05, 0.25            # same object, new contents, nothing called in between
        X2 = q.qslst_restore_fft(Bq, psf, 0.05)
        ref1 = q.qslst_restore_fft(Bq.copy(), psf_first, 0.05)
        for t in range(6):                             # fresh temporaries of the same shape
            k2 = r2.random((3, 3))
            k2 /= k2.sum()
            Xa = q.qslst_restore_fft(Bq, k2, 0.05)
            A = conv_matrix(k2, H, W)
            for c in range(4):
                lhs = (A.T @ A + 0.05 * np.eye(H * W)) @ Xa[..., c].reshape(-1)
                if not np.allclose(lhs, A.T @ Bq[..., c].reshape(-1), atol=1e-8):
                    return {"what": "restoration with a fresh kernel does not solve its own normal equations (stale state from an earlier call)", "call": t}
        A = conv_matrix(psf, H, W)
        for c in range(4):
            lhs = (A.T @ A + 0.05 * np.eye(H * W)) @ X2[..., c].reshape(-1)
            if not np.allclose(lhs, A.T @ Bq[..., c].reshape(-1), atol=1e-8):
                return {"what": "second call with a kernel modified in place used the earlier kernel", "channel": c}
        if not np.array_equal(X1, ref1):
            return {"what": "first call differs from the same call on copies"}
        return None
    b2.case(f"{P}.bounded.kernel_reuse", ("reuse",), reuse, "repeated restorations with changing kernel contents")
    for sig in ((1.05,) if tier == "quick" else (1.0, 1.05, 1.1)):
        for lam in (0.0, 1e-10):
            b2.case(f"{P}.bounded.matrix_path_near_singular", (sig, lam), near_singular(sig, lam), f"gaussian r=3 sigma={sig} on 8x10, lam={lam}")
    b2.samples.append({"H": 3, "W": 4, "kernel": "2x3", "lam": 0.1})
    b2.done()


def run(tier, seed):
    rep = Report(P, tier, seed, "proof")
    rep.assumptions += [
        "A3 (FFT axioms): ifft2(fft2(x) * fft2(h)) is the 2-D circular convolution x (*) h; fft2/ifft2 are linear inverse bijections; for real h, conj(fft2(h)) is the transfer function of the transposed operator - the deductive obligations are stated in the frequency domain and rely on these",
        "A1 floats as reals; np.roll(x, s)[i] = x[(i - s) mod n]; numpy slices clip",
        "scipy.sparse.csr_matrix((data, (rows, cols)), shape) has at (r, c) the sum of the data of the triples at (r, c) (COO semantics): the sparse builder is proved up to this assembly step",
        "a list comprehension with a filter enumerates, in order and once each, the elements whose filter holds (Python semantics; the tap list of the sparse builder is the ghost enumeration DU, DV of the non-zero taps)",
        "the property quantifies over non-negative kernels: the tap filter of the sparse builder is checked for taps >= 0",
    ]
    rep.assumptions.append("sum(X / s) = sum(X) / s for an array X and a non-zero real s (linearity of the total; unit sum of the Gaussian PSF)")
    rep.trusted += ["qv engine", "z3 5.1", "library model incl. FFT registry"]
    deductive(rep, tier)
    bounded(rep, tier, seed)
    return rep


def replay(path):
    import json
    with open(path) as f:
        d = json.load(f)
    print(json.dumps({k: d[k] for k in ("property", "obligation", "text")}, indent=1))
    return run("quick", d.get("seed", 0)).finish()
